"""Engine D: decision tables over named atoms.

Branch conditions are turned into propositional formulas over *atoms*
(normalised source text of the non-boolean sub-expressions, after a matcher
has renamed the ones a rule cares about).  Local names that are assigned
exactly once to a boolean expression are expanded.  Satisfiability questions
("is there a valuation with exists=T, overwrite=F under which this path is
taken?") are answered by enumerating valuations (the tables are tiny).
"""

from __future__ import annotations

import ast
import itertools
from typing import Callable, Iterable, Optional

from .paths import Path
from .pymodel import walk_no_nested

Formula = tuple  # ("atom", name) | ("not", f) | ("and", f, g, ...) | ("or", f, g, ...) | ("const", bool)

Matcher = Callable[[ast.expr], Optional[tuple[str, bool]]]
"""expr -> (atom name, polarity) when the rule recognises the expression."""


def formula(expr: ast.expr, matcher: Matcher, defs: dict[str, ast.expr], depth: int = 0) -> Formula:
    m = matcher(expr)
    if m is not None:
        name, pol = m
        return ("atom", name) if pol else ("not", ("atom", name))
    if isinstance(expr, ast.BoolOp):
        parts = tuple(formula(v, matcher, defs, depth) for v in expr.values)
        return ("and",) + parts if isinstance(expr.op, ast.And) else ("or",) + parts
    if isinstance(expr, ast.UnaryOp) and isinstance(expr.op, ast.Not):
        return ("not", formula(expr.operand, matcher, defs, depth))
    if isinstance(expr, ast.Constant) and isinstance(expr.value, bool):
        return ("const", expr.value)
    if isinstance(expr, ast.NamedExpr):
        return formula(expr.value, matcher, defs, depth)
    if isinstance(expr, ast.Call) and isinstance(expr.func, ast.Name) and expr.func.id == "bool" and len(expr.args) == 1:
        return formula(expr.args[0], matcher, defs, depth)
    if isinstance(expr, ast.Name) and expr.id in defs and depth < 6:
        return formula(defs[expr.id], matcher, defs, depth + 1)
    if isinstance(expr, ast.Compare) and len(expr.ops) == 1:
        # X is None / X is not None / X == True ...
        l, op, r = expr.left, expr.ops[0], expr.comparators[0]
        if isinstance(r, ast.Constant) and isinstance(r.value, bool) and isinstance(op, (ast.Is, ast.Eq, ast.IsNot, ast.NotEq)):
            f = formula(l, matcher, defs, depth)
            pos = isinstance(op, (ast.Is, ast.Eq)) == r.value
            return f if pos else ("not", f)
        if isinstance(op, (ast.IsNot, ast.NotEq, ast.NotIn)):
            flipped = ast.Compare(left=l, ops=[{ast.IsNot: ast.Is, ast.NotEq: ast.Eq, ast.NotIn: ast.In}[type(op)]()], comparators=[r])
            m2 = matcher(flipped)
            if m2 is not None:
                name, pol = m2
                return ("not", ("atom", name)) if pol else ("atom", name)
            return ("not", ("atom", ast.unparse(flipped)))
    return ("atom", ast.unparse(expr))


def atoms(f: Formula) -> set[str]:
    if f[0] == "atom":
        return {f[1]}
    if f[0] == "const":
        return set()
    out: set[str] = set()
    for g in f[1:]:
        out |= atoms(g)
    return out


def evaluate(f: Formula, val: dict[str, bool]) -> bool:
    k = f[0]
    if k == "atom":
        return val[f[1]]
    if k == "const":
        return f[1]
    if k == "not":
        return not evaluate(f[1], val)
    if k == "and":
        return all(evaluate(g, val) for g in f[1:])
    if k == "or":
        return any(evaluate(g, val) for g in f[1:])
    raise ValueError(k)


def satisfiable(constraints: Iterable[Formula], fixed: dict[str, bool], limit: int = 16) -> Optional[dict[str, bool]]:
    cs = list(constraints)
    names = sorted(set().union(*[atoms(c) for c in cs]) | set(fixed)) if cs else sorted(fixed)
    free = [n for n in names if n not in fixed]
    if len(free) > limit:
        raise OverflowError(f"too many atoms: {free}")
    for bits in itertools.product([False, True], repeat=len(free)):
        val = dict(fixed)
        val.update(zip(free, bits))
        if all(evaluate(c, val) for c in cs):
            return val
    return None


def truth_table(f: Formula, names: list[str]) -> dict[tuple[bool, ...], bool]:
    extra = sorted(atoms(f) - set(names))
    if extra:
        raise KeyError(f"unmatched atoms: {extra}")
    out = {}
    for bits in itertools.product([False, True], repeat=len(names)):
        out[bits] = evaluate(f, dict(zip(names, bits)))
    return out


def single_bool_defs(fn: ast.FunctionDef) -> dict[str, ast.expr]:
    """Local names assigned exactly once (anywhere) -- candidates for expansion."""
    count: dict[str, int] = {}
    val: dict[str, ast.expr] = {}
    for n in walk_no_nested(fn):
        if isinstance(n, ast.Assign) and len(n.targets) == 1 and isinstance(n.targets[0], ast.Name):
            count[n.targets[0].id] = count.get(n.targets[0].id, 0) + 1
            val[n.targets[0].id] = n.value
        elif isinstance(n, ast.AnnAssign) and isinstance(n.target, ast.Name) and n.value is not None:
            count[n.target.id] = count.get(n.target.id, 0) + 1
            val[n.target.id] = n.value
        elif isinstance(n, (ast.AugAssign,)) and isinstance(n.target, ast.Name):
            count[n.target.id] = count.get(n.target.id, 0) + 2
        elif isinstance(n, (ast.For, ast.comprehension)):
            for t in ast.walk(n.target):
                if isinstance(t, ast.Name):
                    count[t.id] = count.get(t.id, 0) + 2
        elif isinstance(n, ast.NamedExpr) and isinstance(n.target, ast.Name):
            count[n.target.id] = count.get(n.target.id, 0) + 2
    out = {}
    for k, c in count.items():
        if c == 1 and isinstance(val[k], (ast.BoolOp, ast.UnaryOp, ast.Compare, ast.Call, ast.Name, ast.Constant)):
            out[k] = val[k]
    return out


def path_constraints(path: Path, upto: int, matcher: Matcher, defs: dict[str, ast.expr]) -> list[Formula]:
    out = []
    for e in path.events[:upto]:
        if e[0] == "assume":
            f = formula(e[1], matcher, defs)
            out.append(f if e[2] else ("not", f))
    return out
