"""C17 -- `action open` offers and opens exactly the link targets on the line."""

from __future__ import annotations

import ast

from ..core import Run
from ..effects import Effects
from ..pymodel import PyModel, walk_no_nested
from ..shapes import Const, ShapeEval, render
from ..util import base_name, find_calls, int_eval, mutated_names

F_OPEN = "zorg.app.runners._run_action.run_action_open"
F_DISPATCH = "zorg.app.runners._run_action._open_link"
F_LOCAL = "zorg.app.runners._run_action._is_local_link"
F_GLOBAL = "zorg.app.runners._run_action._open_global_link"
F_PREFIX = "zorg.app.runners._run_action._is_prefix_symbol"
FILE = "src/zorg/app/runners/_run_action.py"
PROTOCOL = ("EDIT ", "SEARCH ", "PROMPT ", "ECHO ")


def check(run: Run) -> None:
    model = PyModel(run.repo)
    eff = Effects(model)
    run.rule("C17.R1", "stdout is protocol-only: every stdout effect reachable from run_action_open prints a string whose first piece is a constant starting with EDIT/SEARCH/PROMPT/ECHO")
    run.rule("C17.R2", "marker tables: the link markers recognised by the word scan equal those dispatched by _open_link; stripped punctuation is disjoint from kind prefixes and brackets")
    run.rule("C17.R3", "option arithmetic: one target opens directly, option k selects element k-1, -1 the last, no option prompts with the targets in scan order")
    run.rule("C17.R4", "ID links: 'several pages' is decided on distinct pages")
    run.rule("C17.R5", "ZID targets: every ZID the allocator can issue (YYMMDD#A^2, YYMMDD#A^3) is in the language is_zid accepts, so a word carrying one is offered as a target")
    from .c07 import is_zid_accepts_allocated

    is_zid_accepts_allocated(run, model, "C17.R5")
    slice_ = sorted(model.reachable([F_OPEN]))
    run.floor("functions reachable from run_action_open", len(slice_), 40)
    n_out = 0
    for q in slice_:
        fi = model.funcs[q]
        se = None
        for node, e in eff.direct(fi):
            if e.kind not in ("STDOUT", "STDOUT?"):
                continue
            n_out += 1
            sym = q.split("zorg.")[-1]
            if isinstance(node, ast.Call) and isinstance(node.func, ast.Name) and node.func.id == "print" and node.args:
                se = se or ShapeEval(model, fi)
                shapes = se.eval(node.args[0])
                bad = [s for s in shapes if not (s and isinstance(s[0], Const) and s[0].text.startswith(PROTOCOL))]
                run.check("C17.R1", f"{sym}: print at `{ast.unparse(node)[:50]}` is a protocol message", not bad and bool(shapes), sym, node,
                          f"`{ast.unparse(node)[:80]}` can print `{render(bad[0]) if bad else '?'}` on stdout, which is not an EDIT/SEARCH/PROMPT/ECHO message",
                          file=fi.file, node=node)
            else:
                run.refuted("C17.R1", sym, node, f"`{ast.unparse(node)[:80]}` writes to stdout and is reachable from `action open`: the editor plugin reads it as a protocol message",
                            file=fi.file, node=node)
    run.floor("stdout effects in the action-open slice", n_out, 10)
    run.sample(dict(rule="C17.R1", slice_functions=len(slice_), stdout_sites=n_out))

    # ---- R2
    # The operation is analysed with its private helpers folded back in: the word scan = run_action_open without the
    # dispatcher; the dispatcher = _open_link with its predicates (but not the openers it hands over to).
    from ..flatten import flat_info

    fo = flat_info(model, F_OPEN, exclude=(F_DISPATCH,))
    fd = flat_info(model, F_DISPATCH, expr_only=True)
    consts = {k: v.value for k, v in fo.module.assigns.items() if isinstance(v, ast.Constant) and isinstance(v.value, str)}

    def lit(e: ast.expr):
        if isinstance(e, ast.Constant) and isinstance(e.value, str):
            return e.value
        if isinstance(e, ast.Name) and e.id in consts:
            return consts[e.id]
        return None

    def markers(fn: ast.FunctionDef, methods: tuple[str, ...]) -> set[str]:
        """Constant link markers a word is tested against: w.find(m) / w.startswith(m) / m in w."""
        out = set()
        cands = []
        for c in ast.walk(fn):
            if isinstance(c, ast.Call) and isinstance(c.func, ast.Attribute) and c.func.attr in methods and c.args:
                a0 = c.args[0]
                cands.extend(a0.elts if isinstance(a0, ast.Tuple) else [a0])
            elif isinstance(c, ast.Compare) and len(c.ops) == 1 and isinstance(c.ops[0], (ast.In, ast.NotIn)):
                cands.append(c.left)
        for a in cands:
            v = lit(a)
            if v is not None and v not in ("]", "]]") and len(v) >= 2:
                out.add(v)
        return out

    scan = markers(fo.node, ("find", "startswith"))
    scan = {m for m in scan if not m.startswith("# ") and not m.startswith(".")}  # "# S " / "# W " / ".zoq" are the query-line test, not link markers
    disp = markers(fd.node, ("startswith", "find"))
    run.check("C17.R2", "scan markers == dispatch markers", scan == disp, "run_action_open/_open_link", f"scan {sorted(scan)} vs dispatch {sorted(disp)}",
              f"the word scan recognises {sorted(scan)} but _open_link dispatches {sorted(disp)}: a target that is offered cannot be opened (or falls through to the ZID branch)",
              file=FILE, node=fd.node)
    run.floor("link markers", len(scan), 6)
    # stripped punctuation
    kind_chars = set()
    tmod = model.module_of("zorg.domain.types")
    for nm in ("DoneTodoTypeChar", "TodoTypeChar", "NoteTypeChar"):
        v = tmod.assigns.get(nm)
        if v is not None:
            for c in ast.walk(v):
                if isinstance(c, ast.Constant) and isinstance(c.value, str):
                    kind_chars.add(c.value)
    run.floor("kind prefix characters", len(kind_chars), 6)
    strips = [c for c in ast.walk(fo.node) if isinstance(c, ast.Call) and isinstance(c.func, ast.Attribute) and c.func.attr == "strip" and c.args and lit(c.args[0])]
    word_strips = [c for c in strips if len(lit(c.args[0])) > 2]
    run.floor("word punctuation strip in the scan", len(word_strips), 1)
    for c in word_strips:
        chars = set(lit(c.args[0]))
        clash = sorted(chars & (kind_chars | {"[", "]"}))
        run.check("C17.R2", "stripped punctuation keeps kind prefixes and brackets intact", not clash, "run_action_open", c,
                  f"the scan strips {clash} from words: a kind prefix becomes '' and is no longer recognised by the primary-ZID rule (the primary ZID is then offered as a target)",
                  file=FILE, node=c)
    run.sample(dict(rule="C17.R2", scan=sorted(scan), dispatch=sorted(disp), kind_chars=sorted(kind_chars)))

    # ---- R3
    fn = fo.node
    targets_var = None
    for n in walk_no_nested(fn):
        if isinstance(n, ast.Call) and isinstance(n.func, ast.Name) and n.func.id == "print":
            for sh in ShapeEval(model, fo).eval(n.args[0]):
                if sh and isinstance(sh[0], Const) and sh[0].text.startswith("PROMPT ") and len(sh) > 1:
                    src = getattr(sh[1], "source", "")
                    targets_var = src.split(".")[0] if src else None
                    joined = any(t.startswith("joined(' ')") for t in getattr(sh[1], "transforms", ()))
                    run.check("C17.R3", "PROMPT lists the targets separated by one space", joined, "run_action_open", n,
                              "the PROMPT message is not the space-joined target list", file=FILE, node=n)
    aliases = {targets_var} if targets_var else set()
    for _ in range(4):  # follow `targets = helper_result` aliases introduced by folding a helper back in
        srcs = [a.value for a in walk_no_nested(fn) if isinstance(a, ast.Assign) and any(isinstance(t, ast.Name) and t.id == targets_var for t in a.targets)]
        if targets_var and len(srcs) == 1 and isinstance(srcs[0], ast.Name) and not mutated_names(fn).get(targets_var):
            targets_var = srcs[0].id
            aliases.add(targets_var)
        else:
            break
    if targets_var is None:
        run.undecided("C17.R3", "run_action_open", "cannot find the PROMPT message / target list")
    else:
        # scan-order accumulation
        mut = [m for m in mutated_names(fn).get(targets_var, [])]
        ops = {m.func.attr for m in mut if isinstance(m, ast.Call)}
        only_append = ops <= {"append"} and all(isinstance(m, ast.Call) for m in mut)
        resorted = any(isinstance(n, ast.Call) and ast.unparse(n.func) in ("sorted", "set", "reversed") and targets_var in ast.unparse(n) for n in walk_no_nested(fn))
        run.check("C17.R3", "targets are collected in line order", only_append and not resorted, "run_action_open", f"operations on {targets_var}: {sorted(ops)}",
                  f"`{targets_var}` is not a plain in-order accumulation (operations {sorted(ops)}{', re-sorted' if resorted else ''})", file=FILE, node=fn)
        scan_loops = [n for n in walk_no_nested(fn) if isinstance(n, ast.For) and targets_var in mutated_names(n)]
        if len(scan_loops) == 1:
            src = ast.unparse(scan_loops[0].iter)
            for _ in range(3):  # look through `words = line.split(); for w in enumerate(words)`
                for nm in {n.id for n in ast.walk(ast.parse(src, mode="eval")) if isinstance(n, ast.Name)}:
                    defs_ = [a.value for a in walk_no_nested(fn) if isinstance(a, ast.Assign) and len(a.targets) == 1 and isinstance(a.targets[0], ast.Name) and a.targets[0].id == nm]
                    if len(defs_) == 1:
                        src = src.replace(nm, f"({ast.unparse(defs_[0])})")
            run.check("C17.R3", "the scan walks the words of the line left to right", ".split(" in src and "sorted" not in src and "reversed" not in src, "run_action_open",
                      scan_loops[0].iter, f"the scan iterates `{src[:70]}`", file=FILE, node=scan_loops[0])
        # selection
        sel_ok = {"single": False, "last": False, "kth": False}
        for n in walk_no_nested(fn):
            if isinstance(n, ast.If):
                t = ast.unparse(n.test)
                if any(f"len({al}) == 1" in t for al in aliases):
                    sel_ok["single"] = any(isinstance(s, ast.Subscript) and base_name(s.value) in (aliases | {"list"}) and int_eval(s.slice, {}) == 0 for b in n.body for s in ast.walk(b))
                if "option_idx == -1" in t:
                    sel_ok["last"] = any(isinstance(s, ast.Subscript) and base_name(s.value) in aliases and int_eval(s.slice, {}) == -1 for b in n.body for s in ast.walk(b))
        for n in walk_no_nested(fn):
            if isinstance(n, ast.For) and isinstance(n.iter, ast.Call) and ast.unparse(n.iter.func) == "enumerate" and n.iter.args and ast.unparse(n.iter.args[0]) in aliases:
                start = 0
                if len(n.iter.args) > 1:
                    start = int_eval(n.iter.args[1], {}) or 0
                for k in n.iter.keywords:
                    if k.arg == "start":
                        start = int_eval(k.value, {}) or 0
                ivar = n.target.elts[0].id if isinstance(n.target, ast.Tuple) else None
                for c in ast.walk(n):
                    if isinstance(c, ast.Compare) and "option_idx" in ast.unparse(c) and ivar and isinstance(c.ops[0], ast.Eq):
                        side = c.left if ivar in ast.unparse(c.left) else c.comparators[0]
                        # side == option  with side = i + d  -> element index = option - d - start... evaluate at i=0
                        v0 = int_eval(side, {ivar: start})
                        if v0 is not None:
                            sel_ok["kth"] = v0 == 1  # the first element (i = start) is chosen by option 1
            if isinstance(n, ast.Subscript) and base_name(n.value) in aliases and "option_idx" in ast.unparse(n.slice):
                v = int_eval(n.slice, {"option_idx": 1}) if isinstance(n.slice, ast.BinOp) else None
                if isinstance(n.slice, ast.BinOp):
                    txt = ast.unparse(n.slice).replace("cfg.option_idx", "K")
                    try:
                        sel_ok["kth"] = eval(txt, {"__builtins__": {}}, {"K": 1}) == 0  # arithmetic on a literal index expression only
                    except Exception:
                        pass
        for k, label in (("single", "a single target opens directly (element 0)"), ("last", "option -1 opens the last target"), ("kth", "option k opens target k (1-based)")):
            run.check("C17.R3", label, sel_ok[k], "run_action_open", f"selection rule: {k}", f"selection rule violated or not recognised: {label}", file=FILE, node=fn)

    # ---- R4
    fg = model.func(F_GLOBAL)
    n_r4 = 0
    for n in walk_no_nested(fg.node):
        if isinstance(n, ast.If) and isinstance(n.test, ast.Compare) and isinstance(n.test.left, ast.Call) and ast.unparse(n.test.left.func) == "len" and isinstance(n.test.ops[0], ast.Gt):
            var = base_name(n.test.left.args[0])
            srcs = [a.value for a in walk_no_nested(fg.node) if isinstance(a, ast.Assign) and any(isinstance(t, ast.Name) and t.id == var for t in a.targets)]
            if not any(isinstance(x, ast.Return) for x in ast.walk(n)):
                continue  # not the refusal branch
            n_r4 += 1
            distinct = bool(srcs) and all(any(isinstance(x, (ast.SetComp, ast.Set)) or (isinstance(x, ast.Call) and ast.unparse(x.func) in ("set", "dict.fromkeys", "frozenset")) for x in ast.walk(s)) for s in srcs)
            run.check("C17.R4", "the 'multiple pages' test counts distinct pages", distinct, "_open_global_link", n.test,
                      f"`{var}` is not de-duplicated before `len({var}) > 1`: an ID owned by several notes of ONE page is reported as 'multiple pages' instead of being opened",
                      file=FILE, node=n)
    run.floor("'several pages' refusals in _open_global_link", n_r4, 1)
    run.units = dict(slice_size=len(slice_), functions=[F_OPEN, F_DISPATCH, F_LOCAL, F_GLOBAL])
    run.assumptions += ["output of child processes (open, papis) is not zorg's stdout discipline", "logging goes to stderr (logrus default)"]
