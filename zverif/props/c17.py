"""C17 -- `action open` offers and opens exactly the link targets on the line."""

from __future__ import annotations

import ast

from ..core import Run
from ..effects import Effects
from ..pymodel import PyModel, walk_no_nested
from ..shapes import Const, ShapeEval, render
from ..util import base_name, find_calls, int_eval, mutated_names

F_OPEN = "zorg.app.runners._run_action.run_action_open"
F_DISPATCH = "zorg.app.runners._run_action._open_link"
F_LOCAL = "zorg.app.runners._run_action._is_local_link"
F_GLOBAL = "zorg.app.runners._run_action._open_global_link"
F_PREFIX = "zorg.app.runners._run_action._is_prefix_symbol"
FILE = "src/zorg/app/runners/_run_action.py"
PROTOCOL = ("EDIT ", "SEARCH ", "PROMPT ", "ECHO ")


def _open_run(model: PyModel, page: str, lines: list, line_number: int, option, zdir: str = "/Z"):
    """One abstract run of run_action_open over a virtual notes directory /Z (page -> lines); the index answers for a fixed set of IDs / RIDs / ZIDs.
    -> [(status, [what the editor plugin receives: printed lines and external actions, in order], imprecise notes, raised?)]"""
    import datetime as _dt

    from ..absint import Interp, Raised, State
    from ..absval import HObj, Opaque, Ref
    from ..virtual import World, vpath

    W = World(model, files={}, old_map=None, indexed=set(), errors=set(), whitelist=[], zdir=zdir,
              contents={f"{zdir}/{page}": "\n".join(lines), f"{zdir}/q.zo": "", f"{zdir}/r.zo": "", f"{zdir}/doc.pdf": ""}, missing="all-but-contents")
    probes = W.probes()
    base_m, base_g, base_c = probes["method:*"], probes["getattr:*"], probes["call:*"]
    st = State()

    def note(s, zid, fp, links=()):
        return s.alloc(HObj("obj", cls="zorg.domain.models._page.Note", fields=dict(body=f"{zid} text", zid=zid, file_path=vpath(fp), line_no=3, links=s.alloc(HObj("list", items=list(links))),
                                                                                     todo_payload=None, properties=s.alloc(HObj("dict")))))

    by_id = {("ID", "gid"): [("240101#G1", "pg/g.zo")], ("RID", "rid"): [("240101#R1", "pg/r.zo")], ("ID", "url"): [("240101#U1", "pg/u.zo", ("x:http://u/%s",))],
             ("ID", "twice"): [("240101#T1", "pg/t.zo"), ("240101#T2", "pg/t.zo")], ("ID", "split"): [("240101#S1", "pg/s1.zo"), ("240101#S2", "pg/s2.zo")]}
    by_zid = {"240101#B2": "pg/z.zo", "240101#C3x": "pg/c.zo", "240101#A1": "pg/a.zo"}

    def out(s, x):
        s.trace.append(("out", x))

    def get_by_id(I, args, kwargs, s, node):
        key = (kwargs.get("id_key", "ID"), args[2] if len(args) > 2 else kwargs.get("id_"))
        return [(s.alloc(HObj("list", items=[note(s, *t) for t in by_id.get(key, [])])), s)]

    def get_by_zid(I, args, kwargs, s, node):
        z = args[2] if len(args) > 2 else kwargs.get("zid")
        return [(note(s, z, by_zid[z]) if z in by_zid else None, s)]

    def refresh(I, args, kwargs, s, node):
        out(s, "REFRESH " + str(getattr(args[2], "tag", args[2]) if len(args) > 2 else "?"))
        return [(None, s)]

    def init_tmpl(I, args, kwargs, s, node):
        out(s, "INIT " + str(getattr(args[2], "tag", args[2]) if len(args) > 2 else "?"))
        return [(None, s)]

    def printed(I, args, kwargs, s, node):
        txt = " ".join(a if isinstance(a, str) else (a.tag if isinstance(a, Opaque) and a.cls == "vpath" else f"<{type(a).__name__}>") for a in args)
        if not all(isinstance(a, str) or (isinstance(a, Opaque) and a.cls == "vpath") for a in args):
            s.note("print of an abstract value")
        out(s, txt)

    def snap(s, v):
        if isinstance(v, Ref):
            h = s.obj(v)
            return [snap(s, x) for x in h.items] if h.kind in ("list", "set") else "<obj>"
        return v.tag if isinstance(v, Opaque) and v.cls == "vpath" else v

    def meth(I, recv, name, args, kwargs, s, node):
        if recv.cls in ("ext:subprocess", "ext:sp") and name in ("run", "Popen", "call", "check_call"):
            out(s, f"PROC {snap(s, args[0]) if args else '?'}")
            return [(Opaque("vproc"), s)]
        if recv.cls == "vproc" and name == "communicate":
            return [((Opaque("vbytes"), None), s)]
        if recv.cls == "vbytes" and name == "decode":
            return [("/papis/item\n", s)]
        if recv.cls.startswith("ext:datetime") and name == "strptime" and len(args) == 2 and all(isinstance(a, str) for a in args):
            try:
                _dt.datetime.strptime(args[0], args[1])
            except ValueError:
                return [(Raised("ValueError", node, "strptime"), s)]
            return [(Opaque("vday", args[0]), s)]
        if recv.cls == "vday":
            return [(recv, s)]
        return base_m(I, recv, name, args, kwargs, s, node)

    def gattr(I, v, name, s, node):
        if v.cls == "vproc" and name == "returncode":
            return [(0, s)]
        return base_g(I, v, name, s, node)

    mi = model.module_of(F_OPEN.rsplit(".", 1)[0])
    probes.update({"method:*": meth, "getattr:*": gattr, "print": printed,
                   "zorg.service.note_utils.get_notes_by_id": get_by_id, "zorg.service.note_utils.get_note_by_zid": get_by_zid,
                   model.resolve_dotted("zorg.service.swog.refresh_zoq_file") or "zorg.service.swog._refresh_zoq_file.refresh_zoq_file": refresh,
                   "zorg.service.swog._refresh_zoq_file.refresh_zoq_file": refresh,
                   model.resolve_dotted(mi.imports.get("init_from_template", "")) or "zorg.service.templates.init_from_template": init_tmpl})
    I = Interp(model, probes=probes, max_states=3000)
    cfg = st.alloc(HObj("obj", cls="zorg.app.config.OpenActionConfig", fields=dict(zettel_dir=vpath(zdir), zo_path=vpath(page), line_number=line_number, option_idx=option, database_url="db", verbose=0,
                                                                                  template_pattern_map=st.alloc(HObj("dict")), binary_exts=st.alloc(HObj("list", items=["pdf", "png"])))))
    res = I.run_function(F_OPEN, [cfg], st=st)
    return [(v, [t[1] for t in s.trace if t[0] == "out"], list(s.imprecise), isinstance(v, Raised)) for v, s in res]


def open_scenarios(run: Run, model: PyModel) -> None:
    """Abstract runs of run_action_open over virtual pages (nothing is opened, queried or printed: messages and external actions are recorded).
    The targets offered are, in line order, every page / local / global / reference / named-URL link, cite key and non-primary ZID on the line, however they are
    wrapped in punctuation and whether or not they repeat; one target opens directly; option k (or -1) opens exactly what a line holding only the k-th target
    opens; an option beyond the list opens nothing and fails; the primary ZID of an item is not a target (in a .zoq page every ZID is); a query line of a .zoq page
    refreshes it; an ID owned by several notes of ONE page opens that page, by notes of several pages is refused; everything printed is a protocol message."""
    fo = model.func(F_OPEN)
    n = 0

    def go(label, page, lines, ln, opt, zdir="/Z"):
        nonlocal n
        try:
            res = _open_run(model, page, lines, ln, opt, zdir)
        except Exception as e:  # noqa: BLE001
            run.undecided("C17.R3", "run_action_open", f"{label}: cannot interpret: {type(e).__name__}: {str(e)[:100]}")
            return None
        if len(res) != 1:
            run.undecided("C17.R3", "run_action_open", f"{label}: {len(res)} abstract outcomes on a concrete scenario")
            return None
        v, outs, imprecise, raised = res[0]
        n += 1
        if raised or imprecise:
            run.undecided("C17.R3", "run_action_open", f"{label}: " + (f"raises {v.exc}" if raised else "; ".join(imprecise[:2])))
            return None
        bad = [o for o in outs if not o.startswith(PROTOCOL + ("PROC ", "REFRESH ", "INIT "))]
        run.check("C17.R1", f"{label}: everything printed is a protocol message", not bad, "run_action_open", f"{label}: printed {bad[:2]}",
                  f"{label}: `action open` prints {bad[:2]}, which is not an EDIT/SEARCH/PROMPT/ECHO message: the editor plugin misreads it", file=FILE, node=fo.node)
        return v, outs

    targets = ["[[q]]", "[[r#anch]]", "[^lid]", "[#gid]", "[@rid]", "[!url]", "z::cite", "240101#B2", "[[doc.pdf]]", "[[q]]", "240101#C3x", "[[new/page]]"]
    multi = "o P1 240102 240101#A1 see [[q]], ([[r#anch]]) [^lid]; [#gid]: [@rid]. [!url]? z::cite, (240101#B2) [[doc.pdf]]! and [[q]] again; 240101#C3x or [[new/page]]."
    page = ["# Page", "", multi, ""]
    r = go("a line with twelve targets, no option", "p.zo", page, 3, None)
    if r is not None:
        v, outs = r
        run.check("C17.R3", "several targets are offered through PROMPT, in line order, repeats included", outs == ["PROMPT " + " ".join(targets)] and v == 0, "run_action_open", f"PROMPT: {outs}"[:300],
                  f"for the line `{multi}` the answer is {outs} (status {v!r}), expected one PROMPT listing {targets}: a target is missing, repeated targets are merged, the order changes "
                  "or the primary ZID / punctuation leaks in, so option numbers no longer mean what the user sees", file=FILE, node=fo.node)
    singles = {}
    for k, t in enumerate(targets, 1):
        r1 = go(f"a line holding only {t}", "p.zo", ["# Page", "", f"- 240101#A1 pad {t}", ""], 3, None)
        if r1 is None:
            continue
        singles[k] = r1
        rk = go(f"option {k} of the twelve-target line", "p.zo", page, 3, k)
        if rk is not None:
            run.check("C17.R3", f"option {k} opens what a line holding only the {k}-th target ({t}) opens", rk == r1 and bool(r1[1]), "run_action_open", f"option {k}: {rk} vs alone: {r1}"[:300],
                      f"option {k} of `{multi}` answers {rk}, a line holding only {t} answers {r1}: the option opens a different target (or a target that is offered cannot be opened)", file=FILE, node=fo.node)
    # punctuation on EITHER side of a target is stripped, whichever of ( ) , . ? ! ; : it is: the wrapped target opens what the bare one opens
    for k in (1, 4, 8):
        if k not in singles:
            continue
        for wrap in ("!{}", "?{}", ",{}", ".{}", ";{}", ":{}", "){}", "{}(", "({}).", "?({})!"):
            w = wrap.format(targets[k - 1])
            rw = go(f"a line holding only {w}", "p.zo", ["# Page", "", f"- 240101#A1 pad {w} end", ""], 3, None)
            if rw is not None:
                run.check("C17.R3", f"`{w}` opens what `{targets[k - 1]}` opens", rw == singles[k], "run_action_open", f"{w}: {rw} vs bare: {singles[k]}"[:300],
                          f"a line holding `{w}` answers {rw}, the bare target {targets[k - 1]} answers {singles[k]}: punctuation around a target is not stripped on both sides, so the target is offered "
                          "with the punctuation attached and cannot be opened", file=FILE, node=fo.node)
    rl = go("option -1 of the twelve-target line", "p.zo", page, 3, -1)
    if rl is not None and len(targets) in singles:
        run.check("C17.R3", "option -1 opens the last target", rl == singles[len(targets)], "run_action_open", f"option -1: {rl}"[:200],
                  f"option -1 answers {rl}, the last target alone answers {singles[len(targets)]}", file=FILE, node=fo.node)
    rb = go("an option beyond the list", "p.zo", page, 3, len(targets) + 1)
    if rb is not None:
        run.check("C17.R3", "an option beyond the list opens nothing and fails", rb[0] == 1 and not rb[1], "run_action_open", f"option {len(targets) + 1}: {rb}"[:200],
                  f"option {len(targets) + 1} of a {len(targets)}-target line answers {rb}, expected status 1 and no message", file=FILE, node=fo.node)
    # absolute expectations for the kinds (where each resolves to)
    want = {1: (0, ["EDIT /Z/q.zo"]), 2: (0, ["EDIT /Z/r.zo", "SEARCH LID::anch"]), 8: (0, ["EDIT /Z/pg/z.zo"]), 4: (0, ["EDIT /Z/pg/g.zo"]), 5: (0, ["EDIT /Z/pg/r.zo"]), 11: (0, ["EDIT /Z/pg/c.zo"]),
            12: (0, ["INIT /Z/new/page.zo", "EDIT /Z/new/page.zo"])}
    for k, (wv, wouts) in want.items():
        if k in singles:
            v, outs = singles[k]
            ok = v == wv and outs[:len(wouts)] == wouts and (k not in (4, 5, 8, 11) or (len(outs) == 2 and outs[1].startswith("SEARCH ")))
            run.check("C17.R2", f"{targets[k - 1]} resolves to {wouts}", ok, "run_action_open", f"{targets[k - 1]}: {outs}",
                      f"a line holding only {targets[k - 1]} answers {outs} (status {v!r}), expected {wouts}" + (" followed by a SEARCH for it" if k in (4, 5, 8, 11) else ""), file=FILE, node=fo.node)
    # primary ZID / .zoq pages / query lines
    for label, pg, line, opt, wv, wouts in (
            ("an item whose only ZID is its own", "p.zo", "o P1 240102 240101#A1 plain text.", None, 0, None),
            ("a .zoq page: the first ZID of an item is a target", "zoq/q.zoq", "- 240101#A1 plain text", None, 0, ["EDIT /Z/pg/a.zo"]),
            ("a query line of a .zoq page", "zoq/q.zoq", "# W +a [[q]]", None, 0, ["REFRESH /Z/zoq/q.zoq", "EDIT /Z/zoq/q.zoq"]),
            ("a query line in a .zo page is an ordinary line", "p.zo", "# W +a [[q]]", None, 0, ["EDIT /Z/q.zo"]),
            ("an ID owned by two notes of one page", "p.zo", "- 240101#A1 see [#twice]", None, 0, ["EDIT /Z/pg/t.zo"]),
            ("an ID owned by notes of two pages", "p.zo", "- 240101#A1 see [#split]", None, 1, "ECHO"),
            ("an ID nobody owns", "p.zo", "- 240101#A1 see [#nobody]", None, 1, "ECHO"),
            ("a ZID nobody owns", "p.zo", "- 240101#A1 see 240101#ZZ", None, 1, []),
            # lines that are not the first line of an item have no primary ZID: every ZID on them is a target
            ("a comment line holding one ZID", "p.zo", "# superseded by 240101#B2.", None, 0, ["EDIT /Z/pg/z.zo"]),
            ("a comment line holding two ZIDs", "p.zo", "# Index: supersedes 240101#B2 and 240101#C3x.", None, 0, ["PROMPT 240101#B2 240101#C3x"]),
            ("a continuation line holding a ZID and a link", "p.zo", "  and mentions 240101#B2 (see also [[q]]).", None, 0, ["PROMPT 240101#B2 [[q]]"]),
            ("a continuation line holding one ZID", "p.zo", "  * see 240101#C3x", None, 0, ["EDIT /Z/pg/c.zo"]),
            # indented sub-bullets that LOOK like items (kind character, priority, date, then a ZID): still not the first line of an item, so the ZID is a target
            ("an indented sub-bullet `- ZID ...`", "p.zo", "    - 240101#B2 is the note to read.", None, 0, ["EDIT /Z/pg/z.zo"]),
            ("an indented sub-bullet `o P1 YYMMDD [ZID] [[q]]`", "p.zo", "  o P1 240105 [240101#B2] and [[q]]", None, 0, ["PROMPT 240101#B2 [[q]]"]),
            ("a tab-free line with doubled blanks between targets", "p.zo", "- 240101#A1 see  240101#B2  and   [[q]]", None, 0, ["PROMPT 240101#B2 [[q]]"])):
        r = go(label, pg, ["# Page", "", line, ""], 3, opt)
        if r is None:
            continue
        v, outs = r
        if wouts is None:
            ok = v == wv and len(outs) == 1 and outs[0].startswith("ECHO ")
            exp = "one ECHO (nothing to open)"
        elif wouts == "ECHO":
            ok = v == wv and len(outs) == 1 and outs[0].startswith("ECHO ")
            exp = "one ECHO and status 1"
        else:
            ok = v == wv and outs[:len(wouts)] == wouts and all(o.startswith("SEARCH ") for o in outs[len(wouts):])
            exp = f"{wouts} (status {wv})"
        rid = "C17.R4" if "owned by" in label else "C17.R3"
        run.check(rid, f"{label}: {exp}", ok, "run_action_open", f"{label}: {outs} status {v!r}", f"{label} (`{line}`): the answer is {outs} with status {v!r}, expected {exp}", file=FILE, node=fo.node)
    # a notes directory whose own path contains a dot: page names without extension still get `.zo`
    for label, line, wouts in (("a page link, notes directory `/N.d/org`", "- 240101#A1 pad [[q]]", ["EDIT /N.d/org/q.zo"]),
                               ("a page link with anchor, notes directory `/N.d/org`", "- 240101#A1 pad ([[r#anch]])", ["EDIT /N.d/org/r.zo", "SEARCH LID::anch"])):
        r = go(label, "p.zo", ["# Page", "", line, ""], 3, None, zdir="/N.d/org")
        if r is not None:
            v, outs = r
            run.check("C17.R2", f"{label}: {wouts}", v == 0 and outs == wouts, "run_action_open", f"{label}: {outs} status {v!r}",
                      f"{label} (`{line}`): the answer is {outs} with status {v!r}, expected {wouts}: the page name is resolved against the notes directory in a way that depends on how that directory is spelled",
                      file=FILE, node=fo.node)
    run.floor("action-open scenarios", n, 69)


def id_lookup_statement(run: Run, model: PyModel) -> None:
    """R6: the index lookup behind [#id] / [@rid] / [!id] targets.  SQLRepo.get_notes_by_id is evaluated symbolically (SQLAlchemy constructs are uninterpreted terms) up to the
    statement handed to session.exec: it selects notes and constrains, conjunctively, note = link.note, link.property = property, property.name = the key asked for, link.value = the id
    asked for.  Without the link-property tie every note carrying the VALUE under any property answers; without the name the ID / RID kinds are mixed up."""
    from ..absint import State
    from ..absval import HObj, Opaque, Term
    from ..sqlterms import make_interp

    q = "zorg.storage.sql._repo.SQLRepo.get_notes_by_id"
    if not model.has_func(q):
        run.undecided("C17.R6", "SQLRepo", "get_notes_by_id vanished")
        return
    fi = model.func(q)
    I = make_interp(model)
    cap: list = []

    def sess(I2, recv, name, args, kwargs, st, node):
        if name in ("exec", "execute", "scalars") and args:
            cap.append(args[0])
            return [(Opaque("vresults"), st)]
        return None

    I.probes["method:vsqlsession"] = sess
    st = State()
    self_ = st.alloc(HObj("obj", cls="zorg.storage.sql._repo.SQLRepo", fields=dict(_session=Opaque("vsqlsession"), _note_converter=Opaque("conv"))))
    try:
        I.run_function(q, [self_, "IDVAL"], {"id_key": "KEY"}, st=st)
    except Exception as e:  # noqa: BLE001
        run.undecided("C17.R6", "get_notes_by_id", f"cannot interpret: {type(e).__name__}: {str(e)[:100]}")
        return
    run.floor("statements executed by get_notes_by_id", len(cap), 1)
    for stmt in cap[:1]:
        eqs: set = set()
        joins_without_on = 0

        def walk(t, under_or=False):
            nonlocal joins_without_on
            if not isinstance(t, Term):
                if isinstance(t, tuple):
                    for x in t:
                        walk(x, under_or)
                return
            if t.head in ("==", "eq") and len(t.args) == 2 and not under_or:
                eqs.add(frozenset(repr(a) for a in t.args))
            if t.head in (".join", ".join_from", ".outerjoin") and len([a for a in t.args if not (isinstance(a, tuple) and a and a[0] == "kw")]) < 3:
                joins_without_on += 1
            for a in t.args:
                walk(a, under_or or t.head in ("or_", ".or_", "not_"))

        walk(stmt)
        if joins_without_on:
            run.undecided("C17.R6", "get_notes_by_id", "a join without an explicit ON clause (relationship join): not modelled")
            continue
        need = {"note = link.note": frozenset({"col('Note', 'id')", "col('PropertyLink', 'note_id')"}), "link.property = property": frozenset({"col('PropertyLink', 'prop_id')", "col('Property', 'id')"}),
                "property.name = the key asked for": frozenset({"col('Property', 'name')", "'KEY'"}), "link.value = the id asked for": frozenset({"col('PropertyLink', 'value')", "'IDVAL'"})}
        missing = [k for k, v in need.items() if v not in eqs]
        run.check("C17.R6", "the ID / RID lookup ties note, property link, property name and value together", not missing, "get_notes_by_id", f"missing constraints: {missing}",
                  f"the statement built by get_notes_by_id lacks {missing} (it constrains {sorted(sorted(e) for e in eqs)}): a [#id] / [@rid] / [!id] target resolves to notes that merely carry the same value "
                  "under another property (or the same key with another value), so the wrong page is opened or the lookup is refused as ambiguous", file=fi.file, node=fi.node)


def check(run: Run) -> None:
    model = PyModel(run.repo)
    eff = Effects(model)
    run.rule("C17.R1", "stdout is protocol-only: every stdout effect reachable from run_action_open prints a string whose first piece is a constant starting with EDIT/SEARCH/PROMPT/ECHO")
    run.rule("C17.R2", "every kind of target that is offered can be opened and resolves to its page (abstract runs of run_action_open on lines holding one target of each kind); stripped punctuation is disjoint from kind prefixes and brackets")
    run.rule("C17.R3", "option arithmetic, by abstract runs of run_action_open over a virtual page: a twelve-target line (every kind, wrapped in punctuation, one repeated) prompts with the targets in line order; option k / -1 answers exactly what a line holding only that target answers; beyond the list fails; primary ZID, .zoq pages and query lines")
    run.rule("C17.R4", "ID links: an ID owned by several notes of one page opens that page, by notes of several pages is refused (scenarios)")
    run.rule("C17.R5", "ZID targets: every ZID the allocator can issue (YYMMDD#A^2, YYMMDD#A^3) is in the language is_zid accepts, so a word carrying one is offered as a target")
    from .c07 import is_zid_accepts_allocated

    is_zid_accepts_allocated(run, model, "C17.R5")
    slice_ = sorted(model.reachable([F_OPEN]))
    run.floor("functions reachable from run_action_open", len(slice_), 40)
    n_out = 0
    for q in slice_:
        fi = model.funcs[q]
        se = None
        for node, e in eff.direct(fi):
            if e.kind not in ("STDOUT", "STDOUT?"):
                continue
            n_out += 1
            sym = q.split("zorg.")[-1]
            if isinstance(node, ast.Call) and isinstance(node.func, ast.Name) and node.func.id == "print" and node.args:
                se = se or ShapeEval(model, fi)
                shapes = se.eval(node.args[0])
                bad = [s for s in shapes if not (s and isinstance(s[0], Const) and s[0].text.startswith(PROTOCOL))]
                run.check("C17.R1", f"{sym}: print at `{ast.unparse(node)[:50]}` is a protocol message", not bad and bool(shapes), sym, node,
                          f"`{ast.unparse(node)[:80]}` can print `{render(bad[0]) if bad else '?'}` on stdout, which is not an EDIT/SEARCH/PROMPT/ECHO message",
                          file=fi.file, node=node)
            else:
                run.refuted("C17.R1", sym, node, f"`{ast.unparse(node)[:80]}` writes to stdout and is reachable from `action open`: the editor plugin reads it as a protocol message",
                            file=fi.file, node=node)
    run.floor("stdout effects in the action-open slice", n_out, 3)
    run.sample(dict(rule="C17.R1", slice_functions=len(slice_), stdout_sites=n_out))

    # ---- R2 / R3 / R4: scenarios through run_action_open
    open_scenarios(run, model)
    run.rule("C17.R7", "'the indexed note that owns it' is unique per page state: a page the reindex processes has its old rows removed before it is added again (per-page order obligations of C06.R2, adopted) -- "
             "otherwise a ZID / ID lookup answers with a stale row and opens the page that used to hold the note")
    from ..indexscen import reindex_rules as _rr

    sub6 = Run("C06", run.tier, run.repo)
    _rr(sub6, model, dict(order="C06.R2"))
    run.floor("adopted per-page order obligations", run.adopt(sub6, ("C06.R2",), "C17.R7"), 3)
    run.rule("C17.R6", "the index lookup behind ID / RID / named-URL targets constrains note-link-property-name-value conjunctively (symbolic evaluation of SQLRepo.get_notes_by_id)")
    id_lookup_statement(run, model)
    # stripped punctuation keeps kind prefixes and brackets intact (the word scan with its helpers folded in)
    from ..flatten import flat_info

    fo = flat_info(model, F_OPEN, exclude=(F_DISPATCH,))
    consts = {k: v.value for k, v in fo.module.assigns.items() if isinstance(v, ast.Constant) and isinstance(v.value, str)}

    def lit(e: ast.expr):
        if isinstance(e, ast.Constant) and isinstance(e.value, str):
            return e.value
        if isinstance(e, ast.Name) and e.id in consts:
            return consts[e.id]
        return None

    kind_chars = set()
    tmod = model.module_of("zorg.domain.types")
    for nm in ("DoneTodoTypeChar", "TodoTypeChar", "NoteTypeChar"):
        v = tmod.assigns.get(nm)
        if v is not None:
            for c in ast.walk(v):
                if isinstance(c, ast.Constant) and isinstance(c.value, str):
                    kind_chars.add(c.value)
    run.floor("kind prefix characters", len(kind_chars), 6)
    strips = [c for c in ast.walk(fo.node) if isinstance(c, ast.Call) and isinstance(c.func, ast.Attribute) and c.func.attr == "strip" and c.args and lit(c.args[0])]
    for c in [c for c in strips if len(lit(c.args[0])) > 2]:
        chars = set(lit(c.args[0]))
        clash = sorted(chars & (kind_chars | {"[", "]"}))
        run.check("C17.R2", "stripped punctuation keeps kind prefixes and brackets intact", not clash, "run_action_open", c,
                  f"the scan strips {clash} from words: a kind prefix becomes '' and is no longer recognised by the primary-ZID rule (the primary ZID is then offered as a target)",
                  file=FILE, node=c)
    run.units = dict(slice_size=len(slice_), functions=[F_OPEN, F_DISPATCH, F_LOCAL, F_GLOBAL])
    run.assumptions += ["output of child processes (open, papis) is not zorg's stdout discipline", "logging goes to stderr (logrus default)"]
