"""C07 -- ZIDs are unique, well-formed and recognised by every component."""

from __future__ import annotations

import ast

from ..absint import Interp, Raised, State
from ..absval import CharSet, HObj, Opaque, Ref, SeqStr, Unknown
from ..core import AnalysisError, Run
from ..effects import Effects
from ..grammar import FILE_LEXER, QUERY_LEXER, LexerGrammar
from ..paths import enum_paths, first_index, is_call_to
from ..pymodel import PyModel, walk_no_nested

ZM = "zorg.storage.sql._zid_manager"
F_NEXT = f"{ZM}._get_next_id"
F_GET = f"{ZM}.ZIDManager.get_next"
F_WRITE = f"{ZM}.ZIDManager._write_to_disk"
F_MAP = f"{ZM}.ZIDManager._next_id_map"
F_ISZID = "zorg.shared.dates.is_zid"
FILE = "src/zorg/storage/sql/_zid_manager.py"
DIGITS = frozenset("0123456789")
DELIMS = [" ", "\n", "]", None]  # None = end of input


def _chars(v) -> set[str]:
    if isinstance(v, str):
        return set(v)
    if isinstance(v, CharSet):
        return set(v.chars)
    if isinstance(v, SeqStr):
        out: set[str] = set()
        for p in v.parts:
            out |= _chars(p)
        return out
    raise TypeError(type(v))


def _alphabet(run: Run, I: Interp) -> frozenset[str]:
    """R1: least fixed point of the characters the successor function can emit.  The successor is evaluated on concrete two-character
    strings built from characters already known ('s0'+c and c+c for every known c: every position's successor, the carry and the
    2 -> 3 extension all occur among them), so the analysis does not depend on how the per-character step is written."""
    seeds = _seed_ids(run, I)
    A: set[str] = set()
    for s in seeds:
        A |= set(s)
    if not A:
        return frozenset()
    s0 = seeds[0][0]
    done: set[str] = set()
    for _ in range(400):
        todo = sorted(A - done)
        if not todo:
            break
        for c in todo:
            done.add(c)
            for arg in (s0 + c, c + c, c + s0):
                try:
                    res = I.run_function(F_NEXT, [arg])
                except Exception as e:
                    run.undecided("C07.R1", "_get_next_id", f"interpreter left the supported subset: {type(e).__name__}: {str(e)[:80]}")
                    return frozenset(A)
                for v, st in res:
                    if st.imprecise:
                        run.undecided("C07.R1", "_get_next_id", "interpreter left the supported subset: " + "; ".join(st.imprecise[:3]))
                        return frozenset(A)
                    if isinstance(v, Raised):
                        continue
                    if not isinstance(v, str):
                        run.undecided("C07.R1", "_get_next_id", f"unknown result {v!r} for {arg!r}")
                        return frozenset(A)
                    A |= set(v)
    else:
        run.undecided("C07.R1", "_get_next_id", "alphabet fixpoint did not converge")
    return frozenset(A)


def _vp(tag: str) -> Opaque:
    return Opaque("vpath", tag)


def _path_probes(path_method) -> dict:
    """A notes directory that exists only as names: `dir / "x"` builds names, every file operation on one goes to `path_method`."""
    def binop(I2, op, l, r, st):
        if isinstance(op, ast.Div) and isinstance(l, Opaque) and l.cls == "vpath":
            rs = r.tag if isinstance(r, Opaque) and r.cls == "vpath" else r
            if isinstance(rs, str):
                return _vp(rs if rs.startswith("/") else f"{l.tag.rstrip('/')}/{rs}")
        return None

    def pm(I2, recv, name, args, kwargs, st, node):
        if name in ("mkdir", "touch"):
            return [(None, st)]
        if name in ("resolve", "absolute", "expanduser"):
            return [(recv, st)]
        if name == "joinpath" and all(isinstance(a, str) for a in args):
            return [(_vp("/".join([recv.tag.rstrip("/")] + list(args))), st)]
        return path_method(I2, recv, name, args, kwargs, st, node)

    def pa(I2, v, name, st, node):
        if name == "name":
            return [(v.tag.rsplit("/", 1)[-1], st)]
        if name == "parent":
            return [(_vp(v.tag.rsplit("/", 1)[0] or "/"), st)]
        return None

    def call_any(I2, fv, args, kwargs, st, node):
        if fv.cls in ("ext:pathlib.Path", "ext:pathlib.PurePath") and args:
            a = args[0]
            return [(a if isinstance(a, Opaque) and a.cls == "vpath" else _vp(a) if isinstance(a, str) else Unknown("Path"), st)]
        return None

    def to_str(I2, v, st):
        return v.tag if isinstance(v, Opaque) and v.cls == "vpath" else None

    return {"binop": binop, "method:vpath": pm, "getattr:vpath": pa, "call:ext:pathlib.Path": call_any, "str": to_str}


def _manager_self(I2: Interp, st: State):
    """A ZIDManager as its own __init__ builds it for the (virtual) notes directory /Z -- whatever fields / helper objects it keeps."""
    res = I2.construct(f"{ZM}.ZIDManager", [_vp("/Z")], {}, st)
    ok = [(v, s) for v, s in res if isinstance(v, Ref) and s is st]
    if len(res) != 1 or len(ok) != 1 or st.imprecise:
        raise AnalysisError("cannot construct a ZIDManager abstractly: " + ("; ".join(st.imprecise[:2]) or repr([v for v, _ in res])[:80]))
    return ok[0][0]


def _io_probes(get_result):
    """Library behaviour needed to interpret get_next without touching a file: the id map is whatever json.loads gives."""
    def path_method(I2, recv, name, args, kwargs, st, node):
        if name in ("exists", "is_file"):
            return [(True, st), (False, st.fork())]
        if name in ("read_text", "read_bytes"):
            return [(Opaque("filetext"), st)]
        if name == "open":
            return [(Opaque("handle"), st)]
        if name in ("write_text", "write_bytes"):
            return [(None, st)]
        return None

    def json_method(I2, recv, name, args, kwargs, st, node):
        if name in ("loads", "load"):
            return [(Opaque("idmap"), st)]
        if name in ("dump", "dumps"):
            return [(None if name == "dump" else Opaque("jsontext"), st)]
        return None

    def idmap_method(I2, recv, name, args, kwargs, st, node):
        if name == "get":
            return get_result(I2, args, st)
        if name in ("__setitem__", "update", "setdefault"):
            return [(None, st)]
        return [(Opaque("idmap"), st)] if name == "copy" else None

    def handle_method(I2, recv, name, args, kwargs, st, node):
        return [(None if name in ("write", "close", "__exit__") else recv, st)]

    return {**_path_probes(path_method), "method:ext:json": json_method, "method:idmap": idmap_method, "method:handle": handle_method}


def _seed_ids(run: Run, I: Interp) -> list[str]:
    """The suffix handed out for a date that has no entry yet: the default of the map lookup in get_next,
    found by interpreting get_next with a map whose .get() answers with its default."""
    seeds: list[str] = []

    def get_default(I2, args, st):
        d = args[1] if len(args) > 1 else None
        if isinstance(d, str) and d not in seeds:
            seeds.append(d)
        return [(d, st)]

    probes = _io_probes(get_default)
    probes[F_NEXT] = lambda I3, args, kwargs, st, node: [(Opaque("succ"), st)]
    I2 = Interp(I.model, probes=probes)
    st0 = State()
    try:
        I2.run_function(F_GET, [_manager_self(I2, st0), Opaque("date")], st=st0)
    except Exception as e:
        run.undecided("C07.R1", "get_next", f"cannot interpret get_next: {type(e).__name__}: {e}")
        return []
    if not seeds:
        run.undecided("C07.R1", "get_next", "cannot find the first suffix handed out for a new date (default of the map lookup)")
    return seeds


def _lexer_accepts_all(lx: LexerGrammar, shape: list[frozenset[str]]) -> tuple[bool, str]:
    """Every string of the product language ``shape`` followed by a delimiter is ONE ZID token."""
    memo: dict = {}

    def step(cfgs: frozenset, ch: str) -> frozenset:
        k = (cfgs, ch)
        if k not in memo:
            memo[k] = frozenset(lx._step(set(cfgs), ord(ch)))
        return memo[k]

    start = frozenset(lx._start_configs())
    frontier = {start: ""}
    for pos, cs in enumerate(shape):
        nxt: dict = {}
        for cfgs, wit in frontier.items():
            for ch in sorted(cs):
                n = step(cfgs, ch)
                if not n:
                    return False, f"no lexer rule can continue after {wit + ch!r}"
                nxt.setdefault(n, wit + ch)
        frontier = nxt
    zid_idx = lx.rule_names.index("ZID")
    for cfgs, wit in frontier.items():
        acc = lx._accepting(set(cfgs))
        if not acc or acc[0] != zid_idx:
            names = [lx.rule_names[a] for a in acc]
            return False, f"{wit!r} is not accepted as ZID at full length (accepting rules: {names})"
        for d in DELIMS:
            if d is None:
                continue
            n = step(cfgs, d)
            if n:
                # a longer token could absorb the delimiter
                return False, f"{wit!r} followed by {d!r} can be extended into a longer token"
    return True, f"{len(frontier)} lexer configurations at end, all accepting ZID first"


def check(run: Run) -> None:
    model = PyModel(run.repo)
    run.rule("C07.R1", "alphabet: lfp of characters _get_next_id can emit is a subset of ZID_CHAR of both lexers, avoids the excluded look-alikes, and |A|^2+|A|^3 = 135252")
    run.rule("C07.R2", "successor: for every (prefix, c, z^k) shape the result keeps the prefix, replaces c by its immediate successor in A, pads with min(A); only 2->3 extension changes length; raise only at max^3")
    run.rule("C07.R3", "persistence: every return of get_next is preceded by a NEXTIDS write of the map holding the successor; the map is re-read from disk on every call")
    run.rule("C07.R4", "shape agreement: every YYMMDD#A{2,3} is one ZID token in both lexers and is accepted by is_zid")
    run.rule("C07.R5", "use: enterId decides 'own ZID' through is_zid; _add_zids is the only caller of get_next")
    run.rule("C07.R6", "the allocated ZID reaches the file on the note's own first line (write-back conservation of C05.R3, adopted): otherwise the note is not recognised as its owner when the page is compiled again")

    def strptime_hook(I, recv, name, args, kwargs, st, node):
        if name == "strptime" and not st.meta.get("dates_valid"):
            s2 = st.fork()
            return [(Opaque("datetime"), st), (Raised("ValueError", node, "strptime"), s2)]
        return None

    I = Interp(model, probes={"method:ext:datetime.datetime": strptime_hook, "method:ext:datetime": strptime_hook})

    # ------------------------------------------------------------- R1
    A = _alphabet(run, I)
    if not A:
        return
    # the excluded look-alikes: frozen from the tree this check was written against (62 alphanumerics - 11 = the 51 characters behind the statement's
    # 135,252 = 51^2 + 51^3); the code's own constant, when it still exists under that name, is only reported next to it
    unsupported = frozenset("IOQSgijlpqy")
    code_const = I.module_const(model.module_of(ZM), "_UNSUPPORTED_ZID_CHARS") if "_UNSUPPORTED_ZID_CHARS" in model.module_of(ZM).assigns else None
    if isinstance(code_const, (tuple, frozenset)) and all(isinstance(c, str) for c in code_const):
        run.sample(dict(rule="C07.R1", code_constant="".join(sorted(code_const)), frozen_table="".join(sorted(unsupported))))
    run.sample(dict(rule="C07.R1", alphabet="".join(sorted(A)), size=len(A), unsupported="".join(sorted(unsupported))))
    for rel, nm in ((FILE_LEXER, "ZorgFileLexer"), (QUERY_LEXER, "ZorgQueryLexer")):
        lx = LexerGrammar(run.repo, rel)
        zc = lx.rule_charset("ZID_CHAR")
        bad = sorted(A - zc)
        run.check("C07.R1", f"alphabet is inside ZID_CHAR of {nm}", not bad, "_get_next_id", f"emits {''.join(bad)} outside {nm}.ZID_CHAR",
                  f"the allocator can emit {bad}, which {nm}'s ZID_CHAR does not contain: such a ZID is lexed as several tokens",
                  file=FILE, detail=dict(chars=bad))
    # the documented look-alikes (I, O, j, l are the ones the grammar itself bans)
    overlap = sorted(A & unsupported)
    run.check("C07.R1", "no excluded look-alike character is emitted", not overlap, "_get_next_id", f"emits excluded {''.join(overlap)}",
              f"the allocator emits {overlap} although they are listed as unsupported", file=FILE)
    n_ids = len(A) ** 2 + len(A) ** 3
    run.check("C07.R1", "|A|^2 + |A|^3 == 135252", n_ids == 135252, "_get_next_id", f"alphabet size {len(A)}",
              f"the alphabet has {len(A)} characters, i.e. {n_ids} suffixes per date instead of 135,252", file=FILE, detail=dict(size=len(A)))

    # ------------------------------------------------------------- R2
    order = sorted(A)
    lo, hi = order[0], order[-1]
    succ = {c: order[i + 1] for i, c in enumerate(order[:-1])}
    cases = 0
    bad_cases: list[str] = []
    for L in (2, 3):
        for k in range(0, L + 1):
            pivots = [None] if k == L else [c for c in order if c != hi]
            for c in pivots:
                prefix_n = L - k - (0 if c is None else 1)
                prefix = tuple(CharSet(A, sym=100 + i) for i in range(prefix_n))
                parts = prefix + (() if c is None else (c,)) + (hi,) * k
                arg = SeqStr(parts) if any(isinstance(p, CharSet) for p in parts) else "".join(parts)
                res = I.run_function(F_NEXT, [arg])
                cases += 1
                for v, st in res:
                    if st.imprecise:
                        run.undecided("C07.R2", "_get_next_id", "; ".join(st.imprecise[:3]))
                        return
                    desc = f"len {L}, pivot {c!r}, {k} trailing {hi!r}"
                    if c is None:
                        if L == 2:
                            ok = v == lo * 3
                            if not ok:
                                bad_cases.append(f"{desc}: carry-out of the 2-character space gives {v!r}, expected {lo * 3!r}")
                        else:
                            if not isinstance(v, Raised):
                                bad_cases.append(f"{desc}: carry-out of the 3-character space returns {v!r} instead of raising")
                        continue
                    if isinstance(v, Raised):
                        bad_cases.append(f"{desc}: raises {v.exc} although suffixes remain")
                        continue
                    vp = tuple(v.parts) if isinstance(v, SeqStr) else tuple(v) if isinstance(v, str) else None
                    if vp is None or len(vp) != L:
                        bad_cases.append(f"{desc}: result {v!r} has the wrong length")
                        continue
                    if vp[:prefix_n] != prefix:
                        bad_cases.append(f"{desc}: prefix not preserved ({v!r})")
                    elif vp[prefix_n] != succ[c]:
                        bad_cases.append(f"{desc}: pivot becomes {vp[prefix_n]!r}, expected the next character {succ[c]!r}")
                    elif any(x != lo for x in vp[prefix_n + 1:]):
                        bad_cases.append(f"{desc}: positions after the pivot are {vp[prefix_n + 1:]!r}, expected {lo!r}")
    run.check("C07.R2", f"successor is the immediate successor in (length, code point) order on all {cases} shapes", not bad_cases,
              "_get_next_id", bad_cases[0] if bad_cases else "-", (bad_cases[0] if bad_cases else ""), file=FILE, detail=dict(bad=bad_cases[:10]))
    seeds = _seed_ids(run, I)
    run.check("C07.R2", "the first suffix of a date is the minimum of the 2-character space", seeds == [lo * 2], "get_next", f"seed {seeds}",
              f"a new date starts at {seeds}, not at {lo * 2!r}: earlier suffixes are never handed out", file=FILE)
    run.sample(dict(rule="C07.R2", shapes_checked=cases, order_first=order[:5], order_last=order[-5:]))
    # R2b: the raise happens while computing the successor of a suffix that has not been returned yet
    fi_get = model.func(F_GET)
    last = I.run_function(F_NEXT, [hi * 3])
    raises_on_last = all(isinstance(v, Raised) for v, _ in last)
    guarded = any(isinstance(n, ast.Try) for n in walk_no_nested(fi_get.node))
    calls_before_return = False
    for p in enum_paths(fi_get.node):
        i = first_index(p, is_call_to("_get_next_id"))
        r = first_index(p, lambda n: isinstance(n, ast.Return))
        if i >= 0 and (r < 0 or i < r):
            calls_before_return = True
    run.check("C07.R2", "the last suffix of a date is handed out before allocation fails", not (raises_on_last and calls_before_return and not guarded),
              "ZIDManager.get_next", "successor computed before the current suffix is returned",
              f"get_next computes _get_next_id(current) before returning `current`; for current={hi * 3!r} that raises, so the last suffix is never handed out "
              f"(135,251 allocations per date, not 135,252)", file=FILE, node=fi_get.node)

    # ------------------------------------------------------------- R3
    eff = Effects(model)
    cls = model.cls(f"{ZM}.ZIDManager")
    persistence_scenarios(run, model, "C07.R3", order)
    from ..indexscen import nextids_untouched

    nextids_untouched(run, model, "C07.R3")
    # the map comes from disk on every call: the property reads NEXTIDS, and any attribute its
    # decision depends on is never assigned outside __init__
    loaders = [m for m in cls.methods.values() if m.name != "__init__" and any(isinstance(n, ast.Call) and isinstance(n.func, ast.Attribute) and n.func.attr in ("read_text", "read_bytes", "load", "loads") for n in walk_no_nested(m.node))]
    run.check("C07.R3", "the id map is read from disk", bool(loaders), "ZIDManager", "no read", "the next-id map is never read from next_ids.json", file=FILE, node=fi_get.node)
    for fi_map in loaders:
        cond_attrs = set()
        for n in walk_no_nested(fi_map.node):
            if isinstance(n, (ast.If, ast.IfExp)):
                for a in ast.walk(n.test):
                    if isinstance(a, ast.Attribute) and isinstance(a.value, ast.Name) and a.value.id == "self" and not isinstance(getattr(a, "ctx", None), ast.Store):
                        cond_attrs.add(a.attr)
        stale = []
        for mname, m in cls.methods.items():
            if mname == "__init__":
                continue
            for n in walk_no_nested(m.node):
                if isinstance(n, ast.Attribute) and isinstance(n.ctx, ast.Store) and isinstance(n.value, ast.Name) and n.value.id == "self" and n.attr in cond_attrs:
                    if not _is_path_attr(n.attr):
                        stale.append((mname, n))
        run.check("C07.R3", "no cached copy can shadow the file", not stale, "ZIDManager", stale[0][1] if stale else "-",
                  f"`self.{stale[0][1].attr if stale else ''}` decides whether the file is re-read and is assigned in {stale[0][0] if stale else ''}: "
                  "a cached map survives across calls while another manager instance advances the file", file=FILE, node=stale[0][1] if stale else None)
    # shape returned by get_next
    def two_or_three(I2, args, st):
        s2 = st.fork()
        return [(SeqStr((CharSet(A), CharSet(A))), st), (SeqStr((CharSet(A),) * 3), s2)]

    probes2 = _io_probes(two_or_three)
    probes2[F_NEXT] = lambda I3, args, kwargs, st, node: [(Opaque("succ"), st)]
    I2 = Interp(model, probes=probes2)
    st0 = State()
    self_ref = _manager_self(I2, st0)
    shapes = []
    for v, st in I2.run_function(F_GET, [self_ref, Opaque("date")], st=st0):
        if isinstance(v, Raised):
            continue
        shapes.append(v)
    good_shapes = []
    for v in shapes:
        ok = (isinstance(v, SeqStr) and len(v.parts) in (9, 10) and all(_chars(p) <= DIGITS for p in v.parts[:6]) and v.parts[6] == "#"
              and all(_chars(p) <= A for p in v.parts[7:]))
        good_shapes.append(ok)
    run.check("C07.R4", "get_next returns YYMMDD#XX / YYMMDD#XXX", bool(shapes) and all(good_shapes), "ZIDManager.get_next",
              "return shape " + ", ".join(repr(s) for s in shapes[:3]),
              f"get_next returns {shapes[:3]}, not six date digits, '#', and the 2-3 character suffix", file=FILE, node=fi_get.node)

    # ------------------------------------------------------------- R4
    date_shape = [DIGITS, DIGITS, frozenset("01"), DIGITS, frozenset("0123"), DIGITS]
    for rel, nm in ((FILE_LEXER, "ZorgFileLexer"), (QUERY_LEXER, "ZorgQueryLexer")):
        lx = LexerGrammar(run.repo, rel)
        for n in (2, 3):
            shape = date_shape + [frozenset("#")] + [A] * n
            ok, why = _lexer_accepts_all(lx, shape)
            run.check("C07.R4", f"every YYMMDD#A^{n} is exactly one ZID token for {nm}", ok, nm, f"YYMMDD#A^{n}: {why}",
                      f"{nm}: {why}", file=rel)
    from ..daterules import short_date_recogniser_agrees

    short_date_recogniser_agrees(run, model, "C07.R4")
    is_zid_accepts_allocated(run, model, "C07.R4", A, strptime_hook)
    # ------------------------------------------------------------- R6
    from ..indexing import writeback_conservation

    sub5 = Run("C05", run.tier, run.repo)
    writeback_conservation(sub5, model, "C05.R3")
    run.floor("adopted write-back obligations", run.adopt(sub5, ("C05.R3",), "C07.R6"), 6)
    # ... and WHERE on that line: directly behind the item prefix (kind, a real priority), in front of every word of the body -- a ZID written behind a body word that merely
    # looks like a priority (`P2P`, `P10`) is not the note's first identifier when the page is compiled again, so the note is not recognised as its owner (C05.R2, adopted)
    from ..indexing import zid_assignment_eval

    sub6 = Run("C05", run.tier, run.repo)
    zid_assignment_eval(sub6, model, "C05.R2")
    run.floor("adopted ZID-position obligations", run.adopt(sub6, ("C05.R2",), "C07.R6"), 20)
    # ------------------------------------------------------------- R5
    enter_id = model.func("zorg.service.compiler._file_compiler.ZorgFileCompiler.enterId")
    uses = [c for c, t in model.calls_in(enter_id) if t == F_ISZID]
    run.check("C07.R5", "enterId recognises the note's own ZID through is_zid", bool(uses), "ZorgFileCompiler.enterId", "no is_zid call",
              "enterId no longer decides 'own ZID' through zorg.shared.dates.is_zid", file=enter_id.file, node=enter_id.node)
    callers = sorted({f.qualname for f, _ in model.callers_of(F_GET)})
    run.check("C07.R5", "_add_zids is the only allocator client", callers == ["zorg.storage.sql._repo._add_zids"], "ZIDManager.get_next", f"callers {callers}",
              f"get_next is called from {callers}", file=FILE)
    run.units = dict(functions=[F_NEXT, F_GET, F_WRITE, F_MAP, F_ISZID], lexers=[FILE_LEXER, QUERY_LEXER], alphabet_size=len(A))
    run.floor("C07 obligations", len(run.obligations), 15)
    run.assumptions += ["dates passed to get_next are real dates (strftime output)", "single process (the statement excludes concurrent processes)",
                        "ANTLR lexer semantics: longest match, first rule wins"]


def _is_path_attr(name: str) -> bool:
    return False


def allocated_zids_lex_as_zids(run: Run, model: PyModel, rid: str) -> None:
    """Shared with C05: every ZID the allocator can hand out is one ZID token for the file lexer."""
    I = Interp(model)
    A = _alphabet(run, I)
    if not A:
        return
    lx = LexerGrammar(run.repo, FILE_LEXER)
    bad = sorted(A - lx.rule_charset("ZID_CHAR"))
    run.check(rid, "every character the ZID allocator can emit is a ZID_CHAR of the file lexer", not bad, "_get_next_id", f"emits {''.join(bad)} outside ZID_CHAR",
              f"the allocator can emit {bad}: a ZID containing it is written into the file but is not lexed as a ZID, so recompiling the file gives a note without ZID "
              "(and every later run assigns another one)", file=FILE)


def is_zid_accepts_allocated(run: Run, model: PyModel, rid: str, A=None, strptime_hook=None) -> None:
    """L_alloc = YYMMDD#A{2,3} is inside the language of is_zid (abstract evaluation over character-class strings)."""
    I0 = Interp(model)
    if A is None:
        A = _alphabet(run, I0)
        if not A:
            return

    def hook(I, recv, name, args, kwargs, st, node):
        if name == "strptime" and not st.meta.get("dates_valid"):
            s2 = st.fork()
            return [(Opaque("datetime"), st), (Raised("ValueError", node, "strptime"), s2)]
        return None

    hook = strptime_hook or hook

    def date_ok(I, args, kwargs, st, node):
        # the date part is what strftime printed for a real day; that the recogniser accepts exactly the real days
        # is the separate obligation daterules.short_date_recogniser_agrees
        return [(True, st)]

    I3 = Interp(model, probes={"method:ext:datetime.datetime": hook, "method:ext:datetime": hook, "zorg.shared.dates.is_short_date_spec": date_ok})
    date_shape = [DIGITS, DIGITS, frozenset("01"), DIGITS, frozenset("0123"), DIGITS]
    for n in (2, 3):
        z = SeqStr(tuple(CharSet(c) for c in date_shape) + ("#",) + (CharSet(frozenset(A)),) * n)
        st1 = State()
        st1.meta["dates_valid"] = True  # the date part is what strftime printed for a real date
        try:
            res = I3.run_function(F_ISZID, [z], st=st1)
        except Exception as e:  # unsupported construct inside the recogniser
            run.undecided(rid, "is_zid", f"cannot evaluate is_zid abstractly: {e}")
            continue
        vals = {repr(v) for v, _ in res}
        imprecise = [x for _, s in res for x in s.imprecise]
        if vals == {"True"} and not imprecise:
            run.proved(rid, f"is_zid accepts every allocated YYMMDD#A^{n}")
        elif "False" in vals and not imprecise:
            run.refuted(rid, "is_zid", f"YYMMDD#A^{n} -> {sorted(vals)}",
                        f"is_zid does not recognise allocated ZIDs with a {n}-character suffix (results {sorted(vals)}): a page carrying one gets a second ZID when it is compiled again, "
                        "and `action open` does not offer it as a target", file="src/zorg/shared/dates.py", node=model.func(F_ISZID).node)
        else:
            # regex-based or otherwise un-interpretable recognisers: decide the length clause structurally
            lens = _accepted_lengths(model)
            if lens is not None and (7 + n) not in lens:
                run.refuted(rid, "is_zid", f"YYMMDD#A^{n} has length {7 + n}, accepted lengths {sorted(lens)}",
                            f"is_zid only accepts strings of length {sorted(lens)}: allocated ZIDs with a {n}-character suffix are not recognised", file="src/zorg/shared/dates.py", node=model.func(F_ISZID).node)
            else:
                run.undecided(rid, "is_zid", "; ".join(imprecise[:3]) or f"results {sorted(vals)}")


def _accepted_lengths(model: PyModel):
    """Lengths a regex-based is_zid can accept (fullmatch of a fixed-width pattern), else None."""
    import re._parser as sp

    fi = model.func(F_ISZID)
    mod = fi.module
    pats = []
    for n in ast.walk(fi.node):
        if isinstance(n, ast.Call) and isinstance(n.func, ast.Attribute) and n.func.attr in ("fullmatch", "match"):
            base = n.func.value
            if isinstance(base, ast.Name) and base.id in mod.assigns:
                v = mod.assigns[base.id]
                if isinstance(v, ast.Call) and v.args and isinstance(v.args[0], ast.Constant):
                    pats.append((v.args[0].value, n.func.attr))
            elif ast.unparse(base) == "re" and n.args and isinstance(n.args[0], ast.Constant):
                pats.append((n.args[0].value, n.func.attr))
    if len(pats) != 1:
        return None
    try:
        lo, hi = sp.parse(pats[0][0]).getwidth()
    except Exception:
        return None
    if pats[0][1] != "fullmatch" and not pats[0][0].endswith("$"):
        return None
    return set(range(lo, min(hi, 64) + 1))


def persistence_scenarios(run: Run, model: PyModel, rid: str, order=None) -> None:
    """Abstract runs of ZIDManager.get_next over a virtual next_ids.json (nothing touches a disk): the ZID returned is the stored
    suffix of that date (or the first suffix for a new date), and before it is returned the WHOLE map -- every other date's counter
    included -- has been written back with that date advanced to the successor."""
    written: list = []

    def snapshot(st, v):
        if isinstance(v, Ref):
            h = st.obj(v)
            if h.kind == "dict":
                return {k: snapshot(st, x) for k, x in h.fields.items()}
            if h.kind in ("list", "set"):
                return [snapshot(st, x) for x in h.items]
        return v

    def make_probes(loaded):
        def path_method(I2, recv, name, args, kwargs, st, node):
            if name in ("exists", "is_file"):
                return [(loaded is not None, st)]
            if name in ("read_text", "read_bytes"):
                return [(Opaque("filetext"), st)]
            if name == "open":
                return [(Opaque("handle"), st)]
            if name in ("write_text", "write_bytes"):
                st.trace.append(("write", args[0] if args else None))
                return [(None, st)]
            return None

        def json_method(I2, recv, name, args, kwargs, st, node):
            if name in ("loads", "load"):
                return [(st.alloc(HObj("dict", fields=dict(loaded or {}))), st)]
            if name == "dump":
                st.trace.append(("write", snapshot(st, args[0])))
                return [(None, st)]
            if name == "dumps":
                return [(Opaque("jsontext", repr(sorted(snapshot(st, args[0]).items())) if isinstance(snapshot(st, args[0]), dict) else "?"), st)]
            return None

        def date_method(I2, recv, name, args, kwargs, st, node):
            if name == "strftime" and args and isinstance(args[0], str):
                return [(args[0].replace("%Y", "2024").replace("%y", "24").replace("%m", "01").replace("%d", "02"), st)]
            return None

        def handle_method(I2, recv, name, args, kwargs, st, node):
            if name == "write":
                st.trace.append(("write", args[0] if args else None))
            return [(None if name in ("write", "close", "__exit__") else recv, st)]

        import datetime as _dt

        def ext_method(I2, recv, name, args, kwargs, st, node):
            # library facts about dates, on constants only: strptime of a digit string, timedelta(days=n)
            if recv.cls.startswith("ext:datetime") and name == "strptime" and len(args) == 2 and all(isinstance(a, str) for a in args):
                try:
                    d = _dt.datetime.strptime(args[0], args[1]).date()
                except ValueError:
                    return [(Raised("ValueError", node, "strptime"), st)]
                return [(Opaque("vday", d.strftime("%Y%m%d")), st)]
            if recv.cls == "vday" and name == "date":
                return [(recv, st)]
            if recv.cls.startswith("ext:datetime") and name == "timedelta":
                return call_any(I2, Opaque(recv.cls + ".timedelta"), args, kwargs, st, node)
            return None

        def call_any(I2, fv, args, kwargs, st, node):
            if fv.cls.endswith("timedelta") and not args and set(kwargs) <= {"days", "weeks"} and all(isinstance(x, int) for x in kwargs.values()):
                return [(Opaque("vdelta", str(kwargs.get("days", 0) + 7 * kwargs.get("weeks", 0))), st)]
            return None

        def binop(I2, op, l, r, st):
            if isinstance(op, ast.Sub) and isinstance(l, Opaque) and isinstance(r, Opaque) and l.cls == r.cls == "vday":
                a, b = (_dt.datetime.strptime(x.tag, "%Y%m%d").date() for x in (l, r))
                return Opaque("vdelta", str((a - b).days))
            return None

        def compare(I2, op, l, r, st):
            if isinstance(l, Opaque) and isinstance(r, Opaque) and l.cls == r.cls and l.cls in ("vdelta", "vday"):
                import operator as _op

                fn = {ast.Lt: _op.lt, ast.LtE: _op.le, ast.Gt: _op.gt, ast.GtE: _op.ge, ast.Eq: _op.eq, ast.NotEq: _op.ne}.get(type(op))
                if fn is not None:
                    return fn(int(l.tag), int(r.tag))
            return None

        def date_or_ext(I2, recv, name, args, kwargs, st, node):
            return date_method(I2, recv, name, args, kwargs, st, node) or ext_method(I2, recv, name, args, kwargs, st, node)

        pp = _path_probes(path_method)
        path_binop = pp.pop("binop")
        return {**pp, "method:ext:json": json_method, "method:vday": date_or_ext, "method:handle": handle_method, "method:*": ext_method, "call:*": call_any,
                "binop": lambda I2, op, l, r, st: path_binop(I2, op, l, r, st) or binop(I2, op, l, r, st), "compare": compare}

    fi_get = model.func(F_GET)
    n = 0
    last2 = (order[-1] * 2) if order else "zz"
    scenarios = [("a date with a stored counter", {"991231": "0B", "200101": "0A", "240102": "0C"}, "0C"), ("a new date", {"991231": "0B", "200101": "0A"}, None), ("no next_ids.json yet", None, None),
                 ("a date whose two-character suffixes are used up", {"991231": "0B", "240102": last2}, last2), ("a date in its three-character suffixes", {"240102": "00" + last2[0], "200101": last2}, "00" + last2[0])]
    # a long history: counters of 400 dates, the one asked for being the OLDEST (a day log indexed years later): nothing is pruned
    many = {f"{25 + k // 360:02d}{1 + (k % 360) // 30:02d}{1 + k % 30:02d}": "0B" for k in range(1, 400)}
    scenarios.append(("a history of 400 dates, the oldest being asked for", {"240102": "0C", **{d: v for d, v in many.items() if d > "240102"}}, "0C"))
    for label, loaded, want_suffix in scenarios:
        I2 = Interp(model, probes=make_probes(loaded))
        st0 = State()
        try:
            res = I2.run_function(F_GET, [_manager_self(I2, st0), Opaque("vday", "20240102")], st=st0)
        except Exception as e:
            run.undecided(rid, "ZIDManager.get_next", f"{label}: cannot interpret: {type(e).__name__}: {str(e)[:100]}")
            continue
        for v, st in res:
            n += 1
            if isinstance(v, Raised) or st.imprecise or not isinstance(v, str):
                run.undecided(rid, "ZIDManager.get_next", f"{label}: " + (f"raises {v.exc}" if isinstance(v, Raised) else "; ".join(st.imprecise[:2]) or repr(v)))
                continue
            suffix = v.split("#", 1)[1] if "#" in v else None
            if want_suffix is not None:
                run.check(rid, f"{label}: the suffix handed out is the stored one", v == "240102#" + want_suffix, "ZIDManager.get_next", f"{label}: returned {v!r}",
                          f"with next_ids.json = {loaded} get_next(2024-01-02) returns {v!r}, expected '240102#{want_suffix}'", file=FILE, node=fi_get.node)
            else:
                run.check(rid, f"{label}: the first suffix of a date is handed out", v.startswith("240102#") and suffix is not None and len(suffix) == 2 and (order is None or suffix == order[0] * 2), "ZIDManager.get_next",
                          f"{label}: returned {v!r}", f"for {label} get_next returns {v!r}", file=FILE, node=fi_get.node)
            maps = []
            for t in st.trace:
                if t[0] == "write":
                    w = t[1]
                    if isinstance(w, Opaque) and w.cls == "jsontext":
                        try:
                            w = dict(eval(w.tag, {"__builtins__": {}}))  # the repr of sorted items produced by the dumps probe above
                        except Exception:
                            w = None
                    maps.append(w)
            succ = None
            if suffix:
                r2 = Interp(model).run_function(F_NEXT, [suffix])
                succ = r2[0][0] if len(r2) == 1 and isinstance(r2[0][0], str) else None
            expect = dict(loaded or {})
            expect["240102"] = succ
            ok = bool(maps) and isinstance(maps[-1], dict) and maps[-1] == expect and succ is not None
            run.check(rid, f"{label}: the whole map, advanced to the successor, is on disk before the ZID is returned", ok, "ZIDManager.get_next", f"{label}: wrote {maps[-1] if maps else None}",
                      f"for {label} get_next returns {v!r} after writing {maps[-1] if maps else 'nothing'} to next_ids.json; expected {expect}: "
                      + ("nothing is persisted, so the same ZID is handed out again after a restart" if not maps else
                         "the counters of other dates are dropped / the date is not advanced, so ZIDs already in use are issued again"), file=FILE, node=fi_get.node)
    run.floor("get_next scenarios", n, 6)
