"""C11 -- modification dates are stamped on exactly the notes that were edited."""

from __future__ import annotations

from ..core import Run
from ..effects import Effects
from ..indexing import clock_agreement, eq_fields, event_wiring, page_then_hashmap, stamp_table, writeback_conservation, zids_before_index
from ..pymodel import PyModel
from ..util import split_join_mismatch


def check(run: Run) -> None:
    model = PyModel(run.repo)
    eff = Effects(model)
    run.rule("C11.R1", "stamp table: the stamping site is reached exactly under had-this-ZID-before AND changed AND NOT dated-today (8 valuations); old notes are matched by ZID")
    run.rule("C11.R2", "Note equality compares exactly body and todo_payload")
    run.rule("C11.R3", "write-back conservation (as C05.R3)")
    run.rule("C11.R4", "every page write of the write-back is followed by a hash refresh, so an immediately following reindex sees no change")
    run.rule("C11.R5", "ModifiedZorgNotesEvent is queued iff notes were stamped and its handler reaches the page write")
    run.rule("C11.R6", "the index-side re-stamped body keeps the note's line structure (split/join separators agree)")
    run.rule("C11.R7", "index side and file side read the same (local) clock")
    run.rule("C11.R8", "the 'edited since it was indexed' decision is taken against the page's previous index state: every page the reindex processes has its old rows fetched (removed) before it is "
             "added again, whatever the hash map says about it (the per-page order obligations of C06.R2, adopted)")
    from ..indexscen import reindex_rules

    sub6 = Run("C06", run.tier, run.repo)
    reindex_rules(sub6, model, dict(order="C06.R2"))
    run.floor("adopted per-page order obligations", run.adopt(sub6, ("C06.R2",), "C11.R8"), 3)
    stamp_table(run, model, "C11.R1")
    eq_fields(run, model, "C11.R2")
    writeback_conservation(run, model, "C11.R3")
    page_then_hashmap(run, model, eff, "C11.R4")
    event_wiring(run, model, eff, "C11.R5", "ModifiedZorgNotesEvent")
    n = 0
    slice_ = sorted(q for q in model.reachable(["zorg.service.handlers._check_for_modified_notes", "zorg.service.handlers.update_note_modify_dates"]) if q.startswith("zorg.service.handlers."))
    for q in slice_:
        f = model.func(q)
        bad = split_join_mismatch(f.node)
        n += 1
        run.check("C11.R6", f"{f.name}: text is split and re-joined with the same separator", not bad, f.name, bad[0][0] if bad else "-",
                  f"{f.name}: {bad[0][1] if bad else ''}: the stored body of a multi-line note collapses onto one line, so the index no longer equals the file and the note is re-stamped "
                  "the next time anything else on the page changes", file=f.file, node=bad[0][0] if bad else f.node)
    clock_agreement(run, model, "C11.R7")
    run.units = dict(functions=["handlers._check_for_modified_notes", "handlers.update_note_modify_dates", "handlers._update_zo_file", "handlers._add_or_update_modify_date", "Note.__eq__"])
    run.assumptions += ["histories over several days and the agreement of the in-memory and file stamping texts are value-level (not decided)"]
