"""C12 -- a note's text form compiles back to the same note."""

from __future__ import annotations

import ast

from ..absint import Interp, Raised, State
from ..absval import EnumV, HObj, Opaque, Text, new_text
from ..core import Run
from ..filetypestate import COMPILER, NOTE, run_file_typestate, run_handler, scan_regions, set_state_fields, state_fields, token_literal
from ..grammar import FILE_LEXER, LexerGrammar
from ..listener import rebuild, snap
from ..pymodel import PyModel, walk_no_nested
from ..shapes import Const, Hole, ShapeEval, render

F_TOSTR = "zorg.domain.models._page.Note.to_string"
F_REFRESH = "zorg.service.swog._refresh_zoq_file.refresh_zoq_file_with_session"
FILE_P = "src/zorg/domain/models/_page.py"
FILE_C = "src/zorg/service/compiler/_file_compiler.py"
DONE = {"CLOSED_TODO", "CANCELED_TODO"}


def bullet_scan(run: Run, model: PyModel, ts, rid: str = "C12.R6") -> None:
    """The headline / bullet property scan, evaluated abstractly through `_add_note` itself (wherever the scan lives: inline,
    in module-level helpers or in a generator) on generic item bodies: an optional YYMMDD modify date and an optional ZID are
    skipped before the `key::` word is looked for; bullets are scanned too; nothing is registered for bodies without `key::`."""
    from ..absint import Interp
    from .c01 import _chain

    pre = _chain(ts, model, ts.tree0, [("exitComment", "comment", "HEAD"), ("exitHead", "head", "HEAD"), ("enterBlock", "block", "BLOCK"), ("enterItem", "item", "ITEM0"), ("enterBase_note", "base_note", "ITEM0")])
    if pre is None:
        run.undecided(rid, "_add_note", "cannot establish the listener state inside an item")
        return
    fi = model.func(f"{COMPILER}._add_note")
    shapes = [
        ("key first", "k:: v w", ["k"]),
        ("modify date, key", "240102 k:: v", ["k"]),
        ("ZID, key", "240101#00 k:: v", ["k"]),
        ("modify date, ZID, key", "240102 240101#00 k:: v w", ["k"]),
        ("modify date only", "240102", []),
        ("ZID only", "240101#00", []),
        ("modify date and ZID only", "240102 240101#00", []),
        ("plain text", "240101#00 some text", []),
        ("bullets", "240101#00 text\n  * k:: v\n  * 240102 j:: u", ["k", "j"]),
    ]
    n = 0
    for label, body, want in shapes:
        st = State()
        root = rebuild(pre, st)

        def prop_probe(I2, args, kwargs, s, node):
            s.trace.append(("prop", args[1] if len(args) > 1 else None))
            return [(None, s)]

        def meth(I2, recv, nm, a, k, s, node, body=body):
            if recv.cls == "bodyctx" and nm == "getText":
                return [(body, s)]
            return None

        def attr(I2, v, name, s, node):
            if v.cls == "bodyctx" and name in ("start", "stop"):
                return [(Opaque("tok"), s)]
            if v.cls == "tok" and name == "line":
                return [(3, s)]
            return None

        I = Interp(model, probes={f"{COMPILER}._add_prop": prop_probe, "method:bodyctx": meth, "getattr:bodyctx": attr, "getattr:tok": attr, NOTE: lambda I2, a, k, s, nd: [(Opaque("note"), s)]})
        try:
            res = I.run_function(f"{COMPILER}._add_note", [root, Opaque("bodyctx")], st=st)
        except Exception as e:
            run.undecided(rid, "_add_note", f"[{label}]: cannot interpret: {type(e).__name__}: {str(e)[:100]}")
            continue
        for v, s in res:
            n += 1
            keys = [t[1] for t in s.trace if t[0] == "prop"]
            if s.imprecise:
                run.undecided(rid, "_add_note", f"[{label}]: " + "; ".join(s.imprecise[:2]))
                continue
            if isinstance(v, Raised) and v.exc in ("IndexError", "ValueError", "KeyError", "TypeError", "AttributeError"):
                run.refuted("C08.R1" if rid.startswith("C08") else rid, "_add_note", f"scan over [{label}] raises {v.exc}",
                            f"compiling an item whose body is {body!r} ({label}) raises {v.exc}", file=FILE_C, node=fi.node)
                continue
            if want:
                run.check(rid, f"[{label}]: the property key is the first word after the optional date and ZID", keys == want, "_add_note", f"[{label}] -> keys {keys}",
                          f"for an item body {body!r} ({label}) the scan registers the keys {keys} instead of {want}: "
                          "a headline property of a note that carries both a modify date and a ZID is lost (or a bullet property is missed)", file=FILE_C, node=fi.node)
            else:
                run.check(rid, f"[{label}]: nothing is registered and nothing crashes", not keys, "_add_note", f"[{label}] -> {keys}",
                          f"the scan registers the properties {keys} for a body without any 'key::' word ({body!r})", file=FILE_C, node=fi.node)
    run.floor("property-scan evaluations", n, 9)


def check(run: Run) -> None:
    run.rule("C12.R9", "a moved note's text compiles back to the same note: the inherited tags / properties `note move` writes out land directly after the note's own ZID, also behind a modify date (C10.R5 adopted)")
    model = PyModel(run.repo)
    run.rule("C12.R1", "kind characters round-trip: to_string emits NoteType.value and the compiler maps that character back to the same member")
    run.rule("C12.R2", "priority is emitted for every todo kind that is not done/cancelled")
    run.rule("C12.R3", "the emitted piece sequence (kind, optional ' Pn', ' ', body, NL) is derivable from the grammar's item rule")
    run.rule("C12.R4", "single renderer: query results and moved notes obtain item text only from Note.to_string")
    run.rule("C12.R5", "a refreshed .zoq page ends its last item with a newline")
    run.rule("C12.R7", "refresh, by abstract runs over virtual saved-query pages (never refreshed / refreshed before with '#' lines in the old results / header ending in '#' / query line only): the header kept is the LEADING run of comment lines, one fresh stats line follows, below it exactly the fresh results")
    run.rule("C12.R8", "every ZID the allocator writes into a page is one ZID token for the file lexer (shared with C05.R2/C07)")
    run.rule("C12.R9", "what the index stores for a re-stamped note keeps the note's own line structure, so its rendered text compiles back to it (obligations C11.R6 adopted)")
    from . import c11 as _c11

    _sub = Run("C11", run.tier, run.repo)
    _c11.check(_sub)
    run.floor("adopted stamping obligations", run.adopt(_sub, ("C11.R6",), "C12.R9"), 2)
    run.rule("C12.R6", "the headline/bullet property scan skips an optional modify date and an optional ZID before looking for 'key::'")
    ts = run_file_typestate(run.repo, model, walk=False)
    g = ts.grammar
    I = ts.interp
    lx = LexerGrammar(run.repo, FILE_LEXER)
    nt = model.cls("zorg.domain.types.NoteType")
    members = I.B.enum_members(I, nt)
    run.floor("NoteType members", len(members), 6)
    fi = model.func(F_TOSTR)
    # interpret to_string for every kind
    rendered: dict[str, tuple] = {}
    for m in members:
        st = State()
        body = new_text({"BODY"}, "body")
        payload = None if m.member == "BASIC" else st.alloc(HObj("obj", cls="zorg.domain.models._page.TodoPayload", fields=dict(priority="P7", status=m)))
        note = st.alloc(HObj("obj", cls="zorg.domain.models._page.Note", fields=dict(body=body, todo_payload=payload)))
        res = I.run_function(F_TOSTR, [note], st=st)
        outs = []
        for v, s in res:
            if s.imprecise:
                run.undecided("C12.R1", "Note.to_string", "; ".join(s.imprecise[:2]))
            if isinstance(v, Text):
                outs.append(s.meta.get("templates", {}).get(v.tid))
            else:
                outs.append(("?", repr(v)))
        if len(outs) != 1 or outs[0] is None:
            run.undecided("C12.R1", "Note.to_string", f"{m.member}: unexpected results {outs}")
            continue
        parts = outs[0]
        rendered[m.member] = parts
        consts = [p for p in parts if isinstance(p, str)]
        head = "".join(p for p in parts[: next((i for i, p in enumerate(parts) if isinstance(p, Text)), len(parts))] if isinstance(p, str))
        tail = "".join(p for p in parts[len(parts) - 1:] if isinstance(p, str))
        run.check("C12.R1", f"{m.member}: text starts with {m.value!r}", head.startswith(str(m.value)), "Note.to_string", f"{m.member}: head {head!r}",
                  f"a {m.member} note is rendered starting with {head!r}, not {m.value!r}", file=FILE_P, node=fi.node)
        if m.member != "BASIC":
            has_p = " P7" in head
            want = m.member not in DONE
            run.check("C12.R2", f"{m.member}: priority {'is' if want else 'may be omitted'}", has_p or not want, "Note.to_string", f"{m.member}: head {head!r}",
                      f"a {m.member} todo is rendered without its priority ({head!r}): recompiling the text gives the default priority instead", file=FILE_P, node=fi.node)
        run.check("C12.R3", f"{m.member}: one space before the body, newline after it", head.endswith(" ") and not head.endswith("  ") and tail == "\n", "Note.to_string",
                  f"{m.member}: {head!r} ... {tail!r}", f"rendered {m.member} note is {head!r} + body + {tail!r}", file=FILE_P, node=fi.node)
        # grammar acceptance of the constant skeleton with a one-word body
        toks = []
        for piece in (head, "x", tail):
            tz = lx.tokenize(piece)
            if tz is None:
                toks = None
                break
            toks += [g.token_type(n) if n in g.symbolic_names else g.token_type(n) for n, _ in tz]
        ok = toks is not None and g.derives("item", tuple(toks))
        run.check("C12.R3", f"{m.member}: the rendered skeleton is an item of the grammar", ok, "Note.to_string", f"{m.member}: tokens of {head!r}+word+NL",
                  f"`{head}x\\n` is not derivable from the grammar's item rule", file=FILE_P, node=fi.node)
    run.sample(dict(rule="C12.R1", rendered={k: [p if isinstance(p, str) else "<body>" for p in v] for k, v in rendered.items()}))
    # round trip of kind and priority: render a generic note of each kind with Note.to_string, parse the rendered prefix the way the
    # grammar does (kind character, optional Pn) and drive the listener over that item: the same kind and priority come back
    from ..itemscen import compile_items
    from ..drive import item_tree
    import re as _re

    Ir = Interp(model)
    TP = "zorg.domain.models._page.TodoPayload"
    for m in members:
        for prio in ("P3", "P8"):
            str_ = State()
            payload = None if m.member == "BASIC" else str_.alloc(HObj("obj", cls=TP, fields=dict(status=m, priority=prio)))
            note = str_.alloc(HObj("obj", cls="zorg.domain.models._page.Note", fields=dict(body="round trip words", todo_payload=payload, zid=None)))
            try:
                rendered_txt = [v for v, s in Ir.run_function(F_TOSTR, [note], st=str_) if isinstance(v, str) and not s.imprecise]
            except Exception:
                rendered_txt = []
            if len(rendered_txt) != 1:
                run.undecided("C12.R1", "Note.to_string", f"{m.member}/{prio}: cannot render abstractly")
                continue
            mt = _re.fullmatch(r"(\S) (?:(P[0-9]) )?round trip words\n", rendered_txt[0])
            if not mt:
                run.refuted("C12.R1", "Note.to_string", f"{m.member}: rendered {rendered_txt[0]!r}", f"a {m.member} note renders as {rendered_txt[0]!r}, which is not `<kind> [Pn] body`", file=FILE_P)
                continue
            try:
                notes, raised, imprecise = compile_items(model, ts.tree0, [item_tree(mt.group(1), "round trip words", mt.group(2), 3)])
            except Exception as e:
                run.undecided("C12.R1", "ZorgFileCompiler", f"{m.member}: cannot drive the listener: {type(e).__name__}")
                continue
            if raised is not None or imprecise or len(notes) != 1:
                run.undecided("C12.R1", "ZorgFileCompiler", f"{m.member}: " + (f"raises {raised.exc}" if raised is not None else "; ".join(imprecise[:2]) or f"{len(notes)} notes"))
                continue
            tp = notes[0].get("todo_payload")
            got_status = tp.get("status") if isinstance(tp, dict) else None
            ok = (m.member == "BASIC" and tp is None) or (got_status == m)
            run.check("C12.R1", f"{m.value!r} compiles back to {m.member}", ok, "Note.to_string/ZorgFileCompiler", f"{m.value!r} -> {got_status}",
                      f"the text {rendered_txt[0]!r} rendered for a {m.member} note compiles back to kind {got_status}", file=FILE_C)
            if m.member != "BASIC" and mt.group(2):
                run.check("C12.R2", f"{m.member}: the emitted priority {prio} compiles back", isinstance(tp, dict) and tp.get("priority") == prio, "Note.to_string/ZorgFileCompiler", f"{m.member} {prio} -> {tp}",
                          f"a {m.member} todo with priority {prio} renders as {rendered_txt[0]!r} and compiles back to {tp}", file=FILE_C)

    # ---- R3b: the body is emitted verbatim (abstract evaluation of to_string on generic multi-line bodies)
    Iv = Interp(model)
    for label, body in (("whitespace-only continuation line", "first\n  \n  second"), ("trailing blanks on an inner line", "first  \n  second"), ("tab and double blanks", "a\tb  c\n    * k:: v"), ("outer whitespace", "  padded  ")):
        stv = State()
        note = stv.alloc(HObj("obj", cls="zorg.domain.models._page.Note", fields=dict(body=body, todo_payload=None, zid=None)))
        try:
            resv = Iv.run_function(F_TOSTR, [note], st=stv)
        except Exception as e:
            run.undecided("C12.R3", "Note.to_string", f"cannot interpret: {type(e).__name__}")
            continue
        for v, s in resv:
            if isinstance(v, Raised) or s.imprecise or not isinstance(v, str):
                run.undecided("C12.R3", "Note.to_string", f"{label}: " + (f"raises {v.exc}" if isinstance(v, Raised) else "; ".join(s.imprecise[:2]) or repr(v)))
                continue
            want = f"- {body.strip()}\n"
            run.check("C12.R3", f"to_string keeps the body verbatim up to outer whitespace ({label})", v == want, "Note.to_string", f"{body!r} -> {v!r}",
                      f"a note whose body is {body!r} is rendered as {v!r}, expected {want!r}: the text form no longer compiles back to the same note "
                      "(a continuation line that loses its indentation ends the item and orphans the rest)", file=FILE_P if "FILE_P" in globals() else "src/zorg/domain/models/_page.py")
    # ---- R4: what the query path / the move path emit IS Note.to_string (decided on scenarios below and in C10's move runs, not on who calls whom)
    # the query path renders a multi-line note with every one of its lines intact (interior whitespace-only lines and trailing blanks are part of the body the grammar accepts)
    from .c09 import _Pipeline

    P = _Pipeline(run, model)
    specs = [dict(body="first line  \n   \n  third line", fp="p.zo", line=1), dict(body="other note", fp="p.zo", line=5)]
    r = P.go("C12.R4", "a note with a whitespace-only continuation line and trailing blanks", specs, P.SS["NOTE"], [], ["NONE"])
    if r is not None:
        raw = r[0]
        want_raw = "- first line  \n   \n  third line\n- other note"
        run.check("C12.R4", "a selected multi-line note is rendered with all its lines unchanged", raw == want_raw, "execute_with_session", f"rendered {raw!r}"[:200],
                  f"selecting a note whose body is 'first line  \\n   \\n  third line' renders {raw!r}, expected {want_raw!r}: interior lines are stripped, so a whitespace-only continuation line becomes "
                  "an empty line that ends the item (the rest is orphaned, the page has syntax errors) and trailing blanks of the body are lost", file=P.fe.file, node=P.fe.node)
    kinds4 = [("OPEN_TODO", "o", True), ("CLOSED_TODO", "x", False), ("CANCELED_TODO", "~", False), ("BLOCKED_TODO", "<", True), ("PARENT_TODO", ">", True)]
    specs4 = [dict(body=f"todo {i}\n  second line of {i}", fp="p.zo", line=10 + i, status=st_, priority="P1") for i, (st_, _, _) in enumerate(kinds4)] + [dict(body="plain", fp="p.zo", line=30)]
    r = P.go("C12.R4", "todos of every kind and a note", specs4, P.SS["NOTE"], [], ["NONE"])
    if r is not None:
        raw = r[0]
        want_raw = "\n".join([f"{ch}{' P1' if shows else ''} todo {i}\n  second line of {i}" for i, (_, ch, shows) in enumerate(kinds4)] + ["- plain"])
        run.check("C12.R4", "selected todos are emitted in the text form of Note.to_string (kind character, priority of live kinds, all lines)", raw == want_raw, "execute_with_session", f"rendered {raw!r}"[:200],
                  f"selecting five two-line P1 todos (o x ~ < >) and a note renders {raw!r}, expected {want_raw!r}: the query path does not emit the notes' own text form", file=P.fe.file, node=P.fe.node)
    # ---- R9: the moved note's text keeps its identity: inherited metadata is spliced in right after the note's own ZID (C10.R5's evaluation of the splice, adopted)
    from ..core import Run as _Run
    from . import c10 as _c10

    sub10 = _Run("C10", run.tier, run.repo)
    _c10._tables(sub10, model)
    run.floor("adopted move-splice obligations", run.adopt(sub10, ("C10.R5",), "C12.R9"), 3)
    # ---- R5 / R7
    refresh_scenarios(run, model)
    # ---- R8
    from .c07 import allocated_zids_lex_as_zids

    allocated_zids_lex_as_zids(run, model, "C12.R8")
    # ---- R6
    bullet_scan(run, model, ts)
    run.units = dict(functions=[F_TOSTR, F_REFRESH, f"{COMPILER}._add_note"], kinds=len(members))
    run.assumptions += ["value-level round trip of arbitrary bodies is not decided (e.g. a done todo whose body starts with a priority-shaped word)"]


def refresh_scenarios(run: Run, model: PyModel) -> None:
    """Abstract runs of refresh_zoq_file_with_session over a virtual saved-query page (the query is not executed: its result is a marker text):
    the page written keeps exactly the LEADING run of comment lines of the old page (up to the previous stats line / the first other line) as its
    header, carries one fresh stats line, and then the new results -- nothing of the previous results (their '#' section lines included) survives,
    and the text ends with a newline so that its last item is a complete item for the page grammar."""
    from ..virtual import World, vpath

    fr = model.func(F_REFRESH)
    STATS = "# SAVED QUERY GENERATED ON"
    RESULTS = "################################ #new\n\n- 240101#N1 fresh note\n  its second line"
    user_header = ["# W +a G area", "#", "# a comment of the user", "# another"]
    pages = {
        "a page that was never refreshed": user_header,
        "a page refreshed before, old results with '#' section lines": user_header + ["#", f"{STATS} 2024-01-01 AT 00:00:00.", "", "################################ #old", "", "- 240101#O1 stale note", "# stale comment line", ""],
        "a header that already ends in a bare '#'": user_header + ["#"],
        "only the query line": ["# W +a"],
    }
    mi = model.module_of(F_REFRESH.rsplit(".", 1)[0])
    q_exec = model.resolve_dotted(mi.imports.get("execute_with_session", "")) or "zorg.service.swog._executor.execute_with_session"
    n = 0
    for label, lines in pages.items():
        W = World(model, files={}, old_map=None, indexed=set(), errors=set(), whitelist=[], contents={"/Z/zoq/q.zoq": "\n".join(lines)}, missing="all-but-contents")
        probes = W.probes()
        base_m = probes["method:*"]
        asked: list = []

        def execute(I, args, kwargs, st, node):
            asked.append(args[1] if len(args) > 1 else kwargs.get("qstring"))
            return [(RESULTS, st)]

        def meth(I, recv, name, args, kwargs, st, node):
            if recv.cls.startswith("ext:datetime") and name in ("now", "today"):
                return [(Opaque("vnow"), st)]
            if recv.cls == "vnow" and name == "strftime" and args and isinstance(args[0], str):
                out = args[0]
                for k, v in (("%Y", "2024"), ("%m", "05"), ("%d", "06"), ("%H", "07"), ("%M", "08"), ("%S", "09"), ("%y", "24")):
                    out = out.replace(k, v)
                return [(out, st)]
            if recv.cls == "vhandle" and name == "write" and args and isinstance(args[0], str):
                st.meta["vfiles"] = {**st.meta.get("vfiles", {}), recv.tag: args[0]}
            return base_m(I, recv, name, args, kwargs, st, node)

        probes["method:*"] = meth
        probes[q_exec] = execute
        I = Interp(model, probes=probes, max_states=2000)
        try:
            res = I.run_function(F_REFRESH, [Opaque("vsession", ""), vpath("/Z/zoq/q.zoq")])
        except Exception as e:  # noqa: BLE001
            run.undecided("C12.R7", "refresh_zoq_file_with_session", f"{label}: cannot interpret: {type(e).__name__}: {str(e)[:100]}")
            continue
        for v, s in res:
            n += 1
            text = s.meta.get("vfiles", {}).get("/Z/zoq/q.zoq")
            if isinstance(v, Raised) or s.imprecise or not isinstance(text, str):
                run.undecided("C12.R7", "refresh_zoq_file_with_session", f"{label}: " + (f"raises {v.exc}" if isinstance(v, Raised) else "; ".join(s.imprecise[:2]) or "no concrete text is written to the page"))
                continue
            out = text.split("\n")
            stats = [i for i, l in enumerate(out) if l.startswith(STATS)]
            lead = []
            for l in lines:
                if not l.startswith("#") or l.startswith(STATS):
                    break
                lead.append(l)

            def core(ls):
                ls = list(ls)
                while ls and ls[-1].strip() in ("#", ""):
                    ls.pop()
                return ls

            ok_q = asked[-1:] == [lines[0].strip()[2:]]
            run.check("C12.R7", f"{label}: the query executed is the page's first line", ok_q, "refresh_zoq_file_with_session", f"{label}: executed {asked[-1:]}",
                      f"refreshing {label} executes {asked[-1:]} instead of the query on its first line {lines[0]!r}", file=fr.file, node=fr.node)
            ok_h = len(stats) == 1 and core(out[:stats[0]]) == core(lead)
            run.check("C12.R7", f"{label}: the kept header is the leading run of comment lines, followed by one fresh stats line", ok_h, "refresh_zoq_file_with_session", f"{label}: header {out[:stats[0]] if stats else out[:6]}",
                      f"refreshing {label} writes the header {out[:stats[0]] if stats else out[:8]} ({len(stats)} stats lines), expected {lead}: '#' lines further down (section headers or comments of the previous "
                      "results) are kept as header too / user header lines are lost, so the page no longer is header + fresh results", file=fr.file, node=fr.node)
            if stats:
                body = "\n".join(out[stats[-1] + 1:])
                ok_b = body.strip("\n") == RESULTS.strip("\n")
                run.check("C12.R7", f"{label}: below the stats line there are exactly the fresh results", ok_b, "refresh_zoq_file_with_session", f"{label}: body {body[:80]!r}",
                          f"refreshing {label} writes {body[:200]!r} below the stats line, expected the fresh results {RESULTS!r}: stale results survive or fresh ones are cut", file=fr.file, node=fr.node)
            run.check("C12.R5", "the written .zoq page ends with a newline", text.endswith("\n"), "refresh_zoq_file_with_session", "page text ends with the query results (no trailing newline)",
                      f"the page text ends `...{text[-40:]!r}`: the results are stripped and nothing follows, so the last item lacks the NL the grammar's item rule requires "
                      "and the refreshed page does not compile", file=fr.file, node=fr.node)
    run.floor("refresh scenarios", n, 4)


