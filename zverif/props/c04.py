"""C04 -- query text is compiled into the structure its syntax denotes."""

from __future__ import annotations

import ast
import itertools
from typing import Any, Optional

from ..absint import Interp, Raised, State
from ..absval import CharSet, EnumV, HObj, Opaque, Ref, SeqStr, Term, Text, new_text
from ..core import Run
from ..grammar import QUERY_LEXER, QUERY_LISTENER, QUERY_PARSER, LexerGrammar, ParserGrammar, listener_methods
from ..listener import snap
from ..pymodel import PyModel, walk_no_nested
from ..util import affix_strip_misuse

QCMP = "zorg.service.compiler._query_compiler"
CLS = f"{QCMP}.ZorgQueryCompiler"
T = "zorg.domain.types"
FILE = "src/zorg/service/compiler/_query_compiler.py"
FILE_D = "src/zorg/shared/dates.py"
ALNUM = frozenset("abcdefghijklmnopqrstuvwxyzABCDEFGHIJKLMNOPQRSTUVWXYZ0123456789")
LOWER = frozenset("abcdefghijklmnopqrstuvwxyz")
DIG = frozenset("0123456789")


class Specs:
    """Abstract parse-tree contexts: tag -> dict(rule, text, kids={accessor: ctx | [ctx] | None})."""

    def __init__(self) -> None:
        self.table: dict[str, dict] = {}
        self.n = 0

    def ctx(self, rule: str, text: Any = None, **kids: Any) -> Opaque:
        self.n += 1
        tag = f"s{self.n}"
        self.table[tag] = dict(rule=rule, text=text, kids=kids)
        return Opaque(f"q:{rule}", tag)


def make_interp(model: PyModel, specs: Specs, g: ParserGrammar) -> Interp:
    def method(I, recv, name, args, kwargs, st, node):
        if not recv.cls.startswith("q:"):
            return None
        sp = specs.table[recv.tag]
        if name == "getText":
            if sp["text"] is None:
                st.note(f"getText of {recv.cls} has no abstract text")
                return [(new_text({recv.tag}, sp["rule"]), st)]
            return [(sp["text"], st)]
        if name in sp["kids"]:
            v = sp["kids"][name]
            if isinstance(v, list):
                return [(st.alloc(HObj("list", items=list(v))), st)]
            return [(v, st)]
        # accessor of a child the abstract tree does not have: ANTLR returns None (or [] for repeated children)
        rule = sp["rule"]
        cand = name[:-1] if name.endswith("_") and name[:-1] in g.rule_index else name
        if cand in g.rule_index or name.isupper() or name in g.symbolic_names:
            return [(None, st)]
        st.note(f"ctx method {recv.cls}.{name} not modelled")
        return None

    def date_probe(name):
        def f(I, args, kwargs, st, node):
            return [(Term(name, tuple(I.B.freeze_term(I, a, st) for a in args) + tuple(sorted((k, I.B.freeze_term(I, v, st)) for k, v in kwargs.items()))), st)]
        return f

    def call_any(I, fv, args, kwargs, st, node):
        import re as _re

        m = _re.match(r"ext:.*\.(\w+Context)\.(\w+)$", fv.cls)
        if m and args and isinstance(args[0], Opaque) and args[0].cls.startswith("q:"):
            # unbound accessor of a generated context class applied to a context:  Ctx.accessor(ctx) == ctx.accessor()
            r = method(I, args[0], m.group(2), list(args[1:]), kwargs, st, node)
            if r is not None:
                return r
        if fv.cls.startswith("ext:"):
            kw = tuple(sorted((k, I.B.freeze_term(I, x, st)) for k, x in kwargs.items()))
            return [(Term(fv.cls[4:].split(".")[-1], tuple(I.B.freeze_term(I, a, st) for a in args) + ((("kw",) + kw,) if kw else ())), st)]
        return None

    def meth_ext(I, recv, name, args, kwargs, st, node):
        r = method(I, recv, name, args, kwargs, st, node)
        if r is not None:
            return r
        if recv.cls.startswith("ext:"):
            kw = tuple(sorted((k, I.B.freeze_term(I, x, st)) for k, x in kwargs.items()))
            return [(Term(recv.cls[4:].split(".")[-1] + "." + name, tuple(I.B.freeze_term(I, a, st) for a in args) + ((("kw",) + kw,) if kw else ())), st)]
        return None

    def binop(I, op, l, r, st):
        return Term({ast.Add: "+", ast.Sub: "-"}.get(type(op), type(op).__name__), (I.B.freeze_term(I, l, st), I.B.freeze_term(I, r, st)))

    return Interp(model, probes={"method:*": meth_ext, "call:*": call_any, "binop": binop,
                                 "zorg.shared.dates.from_date_spec": date_probe("from_date_spec")}, max_states=8000)


def _enum(I: Interp, model: PyModel, name: str) -> dict:
    return {m.member: m for m in I.B.enum_members(I, model.cls(f"{T}.{name}"))}


def _new_compiler(I: Interp, model: PyModel, st: State):
    q = st.alloc(HObj("obj", cls="zorg.domain.models._query.Query", fields=dict(select=None, where=None, order_by=None, group_by=None)))
    ci = model.cls(CLS)
    I.ctx_stack.append((ci.module, ci))
    try:
        res = I.construct(CLS, [q], {}, st)
    finally:
        I.ctx_stack.pop()
    return res[0][0], q


def _call(I: Interp, model: PyModel, method: str, comp, ctx, st: State):
    fi = model.func(f"{CLS}.{method}")
    I.ctx_stack.append((fi.module, fi.cls))
    try:
        res = I.call_func(fi.qualname, [comp, ctx], {}, st)
    finally:
        I.ctx_stack.pop()
    sink = getattr(I, "imprecision_sink", None)
    if sink is not None:
        for _, s in res:
            if s.imprecise:
                sink(s.imprecise)
    return res


def _set_items(st: State, v) -> list:
    if isinstance(v, Ref):
        return list(st.obj(v).items)
    return []


def _filter_fields(st: State, af) -> dict:
    h = st.obj(af)
    return {k: _set_items(st, v) for k, v in h.fields.items()}


def check(run: Run) -> None:
    model = PyModel(run.repo)
    g = ParserGrammar(run.repo, QUERY_PARSER)
    lx = LexerGrammar(run.repo, QUERY_LEXER)
    run.rule("C04.R1", "alternative tables: each where_atom / note_type_char / group_by_atom / order_by_atom / select_field alternative of the grammar reaches the field or enum member it denotes (handlers interpreted per alternative)")
    run.rule("C04.R2", "Pn-m denotes every priority from n to m inclusive, for all 100 spellings")
    run.rule("C04.R3", "dates: the short / long / relative recognisers partition the spec shapes; unit table d/m/y; a leading minus (or past=True) subtracts; a range without tail has end None")
    run.rule("C04.R4", "property atoms: operator prefix table, value-type inference order (date, integer, string), negation bit, key")
    run.rule("C04.R5", "nesting: over all derivations up to 3 levels of parentheses the compiled filter tree equals the derivation's nesting (stack typestate of enter/exitSubfilter)")
    run.rule("C04.R6", "O and G are accepted in either order by the grammar; every listener override names a real rule")
    run.rule("C04.R7", "select `prop:<key>` carries exactly the key")
    from ..daterules import century_rule

    century_rule(run, model, "C04.R3")
    specs = Specs()
    I = make_interp(model, specs, g)
    run.watch(I)
    NT = _enum(I, model, "NoteType")
    idtext = SeqStr((CharSet(LOWER, sym=1), CharSet(ALNUM, sym=2), CharSet(ALNUM, sym=3)))

    # ------------------------------------------------------------------ R6 (cheap, structural)
    lm = listener_methods(run.repo, QUERY_LISTENER)
    ci = model.cls(CLS)
    n_over = 0
    for nm, m in ci.methods.items():
        if nm.startswith(("enter", "exit")):
            n_over += 1
            rule = (nm[5:] if nm.startswith("enter") else nm[4:])
            rule = rule[0].lower() + rule[1:]
            run.check("C04.R6", f"{nm} overrides a listener method of an existing rule", nm in lm and rule in g.rule_index, "ZorgQueryCompiler", nm, f"`{nm}` is not a listener method: it is never called", file=FILE, node=m.node)
    run.floor("query listener overrides", n_over, 8)
    tok = lambda lit: g.token_type(f"'{lit}'") if f"'{lit}'" in g.literal_names else g.token_type(lit)
    SP = g.token_type("SPACE")
    o_clause = (SP, tok("O"), SP, tok("alpha"))
    g_clause = (SP, tok("G"), SP, tok("file"))
    for name, seq in (("O then G", o_clause + g_clause), ("G then O", g_clause + o_clause), ("only O", o_clause), ("only G", g_clause), ("neither", ())):
        run.check("C04.R6", f"order_and_group derives '{name}'", g.derives("order_and_group", seq), "ZorgQueryParser", f"order_and_group: {name}",
                  f"the grammar's order_and_group rule does not accept {name}", file="src/zorg/grammar/zorg_query/ZorgQueryParser.py")

    # ------------------------------------------------------------------ R1: where_atom alternatives
    alts = [next(iter(a))[1] for a in g.alternatives("where_atom") if len(a) == 1 and next(iter(a))[0] == "rule"]
    run.floor("where_atom alternatives", len(alts), 10)
    want_field = {"note_type": "allowed_note_types", "priority_range": "priorities", "create_range": "create_date_ranges", "modify_range": "modify_date_ranges",
                  "prop_filter": "property_filters", "desc_filter": "desc_filters", "file_filter": "file_filters", "link_filter": "link_filters", "subfilter": None}

    def atom_ctx(alt: str, **extra) -> Opaque:
        if alt == "note_type":
            kid = specs.ctx("note_type", "o", note_type_char=[specs.ctx("note_type_char", "o", LOWER_O=specs.ctx("tok", "o"))])
        elif alt == "priority_range":
            kid = specs.ctx("priority_range", extra.get("text", "P2"))
        elif alt in ("create_range", "modify_range"):
            head = "CREATE_RANGE_HEAD" if alt == "create_range" else "MODIFY_RANGE_HEAD"
            sig = "^" if alt == "create_range" else "$"
            kids = {head: specs.ctx("tok", SeqStr((sig,) + tuple(CharSet(DIG, sym=10 + i) for i in range(6))))}
            if extra.get("tail"):
                kids["DATE_RANGE_TAIL"] = specs.ctx("tok", SeqStr((":",) + tuple(CharSet(DIG, sym=20 + i) for i in range(6))))
            kid = specs.ctx(alt, None, **kids)
        elif alt == "tag":
            which = extra.get("which", "area")
            sig = {"area": "#", "context": "@", "person": "%", "project": "+"}[which]
            kids = {which: specs.ctx(which, SeqStr((sig,) + idtext.parts))}
            if extra.get("neg"):
                kids["not_op"] = specs.ctx("not_op", "!")
            kid = specs.ctx("tag", None, **kids)
        elif alt == "prop_filter":
            kid = specs.ctx("prop_filter", extra.get("text", "key:val"))
        elif alt == "desc_filter":
            q = extra.get("quote", "'")
            quoted = SeqStr((q,) + (tuple(extra["text"]) if "text" in extra else idtext.parts) + (q,))
            kids = {"s_desc_filter" if q == "'" else "d_desc_filter": specs.ctx("s_desc_filter" if q == "'" else "d_desc_filter", quoted)}
            if extra.get("neg"):
                kids["not_op"] = specs.ctx("not_op", "!")
            pre = (("!",) if extra.get("neg") else ()) + (("c",) if extra.get("cs") else ())
            kid = specs.ctx("desc_filter", SeqStr(pre + quoted.parts), **kids)
        elif alt == "file_filter":
            kid = specs.ctx("file_filter", extra.get("text", SeqStr(("f", "=") + idtext.parts)))
        elif alt == "link_filter":
            kid = specs.ctx("link_filter", extra.get("text", SeqStr(("[", "[") + idtext.parts + ("]", "]"))))
        elif alt == "subfilter":
            kid = specs.ctx("subfilter", None)
        else:
            kid = specs.ctx(alt, None)
        return specs.ctx("where_atom", None, **{alt + ("_" if alt in ("type", "file", "none") else ""): kid})

    def run_and_filter(atoms: list) -> list:
        """-> [(fields dict, state)] of the WhereAndFilter appended by enterAnd_filter."""
        st = State()
        comp, _ = _new_compiler(I, model, st)
        st.obj(comp).fields["_and_filter_groups"] = st.alloc(HObj("list", items=[st.alloc(HObj("list"))]))
        ctx = specs.ctx("and_filter", None, where_atom=atoms)
        out = []
        for v, s in _call(I, model, "enterAnd_filter", comp, ctx, st):
            if isinstance(v, Raised):
                out.append((v, s))
                continue
            groups = s.obj(s.obj(comp).fields["_and_filter_groups"]).items
            last = s.obj(groups[-1]).items
            out.append((_filter_fields(s, last[-1]) if last else {}, s))
        return out

    def one_atom(alt: str, **extra):
        res = run_and_filter([atom_ctx(alt, **extra)])
        good = []
        for f, s in res:
            if isinstance(f, Raised):
                run.undecided("C04.R1", "enterAnd_filter", f"{alt}: raises {f.exc}")
            elif [x for x in s.imprecise if "abstract iterable" not in x]:
                run.undecided("C04.R1", "enterAnd_filter", f"{alt}: " + "; ".join(s.imprecise[:2]))
            else:
                good.append((f, s))
        return good

    for alt in alts:
        if alt == "tag":
            continue
        if alt not in want_field:
            run.undecided("C04.R1", "where_atom", f"new alternative `{alt}` has no expectation")
            continue
        for f, s in one_atom(alt):
            filled = sorted(k for k, v in f.items() if v)
            want = [want_field[alt]] if want_field[alt] else []
            run.check("C04.R1", f"a {alt} atom fills exactly {want or 'nothing'}", filled == want, "enterAnd_filter", f"{alt} -> {filled}",
                      f"a `{alt}` atom ends up in {filled} of the compiled filter, expected {want}", file=FILE)
    for which, field in (("area", "areas"), ("context", "contexts"), ("person", "people"), ("project", "projects")):
        for neg in (False, True):
            for f, s in one_atom("tag", which=which, neg=neg):
                filled = sorted(k for k, v in f.items() if v)
                vals = f.get(field, [])
                want_val = SeqStr((("-",) if neg else ()) + idtext.parts)
                ok = filled == [field] and vals == [want_val if neg else idtext]
                run.check("C04.R1", f"{'!' if neg else ''}{which} tag -> {field} with {'a leading minus' if neg else 'the bare name'}", ok, "enterAnd_filter", f"{which} neg={neg} -> {filled} {vals}",
                          f"a {'negated ' if neg else ''}{which} tag ends up as {filled} {vals}; expected {field} = [{'-' if neg else ''}name]", file=FILE)
    # kinds pool into one set; kind characters
    ntc = sorted(g.token_name(t) for t in g.tokens_of("note_type_char"))
    want_kind = {"DASH": "BASIC", "LOWER_O": "OPEN_TODO", "LOWER_X": "CLOSED_TODO", "TILDE": "CANCELED_TODO", "LANGLE": "BLOCKED_TODO", "RANGLE": "PARENT_TODO"}
    run.floor("note_type_char tokens", len(ntc), 6)
    for tname in ntc:
        lit = lx.literal_of(tname)
        st = State()
        target = st.alloc(HObj("set"))
        ctxs = st.alloc(HObj("list", items=[specs.ctx("note_type_char", lit, **{tname: specs.ctx("tok", lit)})]))
        res = I.run_function(f"{QCMP}._add_note_types", [ctxs, target], st=st)
        got = sorted(repr(x) for v, s in res for x in _set_items(s, target)) if all(not isinstance(v, Raised) for v, _ in res) else ["raises"]
        member = NT.get(want_kind.get(tname, ""))
        ok = member is not None and got == [repr(member)] and member.value == lit
        run.check("C04.R1", f"kind character {lit!r} denotes {want_kind.get(tname)}", ok, "_add_note_types", f"{tname} {lit!r} -> {got}",
                  f"the kind character {lit!r} ({tname}) compiles to {got}, expected NoteType.{want_kind.get(tname)} (value {member.value if member else '?'})", file=FILE)
    # group by / order by / select tables
    GB, OB, SS = _enum(I, model, "GroupByType"), _enum(I, model, "OrderByType"), _enum(I, model, "SelectStaticType")
    gb_want = {"AT_SIGN": "CONTEXT", "HASH": "AREA", "PERCENT": "PERSON", "PLUS": "PROJECT", "file_": "FILE", "type_": "NOTE_TYPE", "priority": "PRIORITY", "section": "SECTION", "none": None}
    gb_alts = []
    for a in g.alternatives("group_by_atom"):
        for k in a:
            gb_alts.append(k[1] + ("_" if k[0] == "rule" and k[1] in ("file", "type") else "") if k[0] == "rule" else g.token_name(k[1]))
    run.floor("group_by_atom alternatives", len(gb_alts), 9)
    for acc in gb_alts:
        st = State()
        comp, q = _new_compiler(I, model, st)
        atom = specs.ctx("group_by_atom", "none" if acc == "none" else acc, **{acc: specs.ctx(acc.rstrip("_"), acc)})
        ctx = specs.ctx("group_by_body", None, group_by_atom=[atom])
        res = _call(I, model, "enterGroup_by_body", comp, ctx, st)
        got = [repr(s.obj(q).fields.get("group_by")) if not isinstance(v, Raised) else f"raises {v.exc}" for v, s in res]
        want = repr((GB[gb_want[acc]],)) if gb_want.get(acc) else "()"
        run.check("C04.R1", f"G {acc} denotes {gb_want.get(acc)}", acc in gb_want and got == [want], "enterGroup_by_body", f"{acc} -> {got}", f"grouping atom `{acc}` compiles to {got}, expected {want}", file=FILE)
    ob_want = {"alpha": "ALPHA", "create": "CREATE_DATE", "modify": "MODIFY_DATE", "priority": "PRIORITY", "type_": "NOTE_TYPE", "none": "NONE"}
    ob_alts = [k[1] + ("_" if k[1] == "type" else "") for a in g.alternatives("order_by_atom") for k in a if k[0] == "rule"]
    run.floor("order_by_atom alternatives", len(ob_alts), 6)
    for acc in ob_alts:
        st = State()
        comp, q = _new_compiler(I, model, st)
        atom = specs.ctx("order_by_atom", acc, **{acc: specs.ctx(acc.rstrip("_"), acc)})
        res = _call(I, model, "enterOrder_by_body", comp, specs.ctx("order_by_body", None, order_by_atom=[atom]), st)
        got = [repr(s.obj(q).fields.get("order_by")) if not isinstance(v, Raised) else f"raises {v.exc}" for v, s in res]
        want = repr((OB[ob_want[acc]],)) if acc in ob_want else "?"
        run.check("C04.R1", f"O {acc} denotes {ob_want.get(acc)}", got == [want], "enterOrder_by_body", f"{acc} -> {got}", f"ordering atom `{acc}` compiles to {got}, expected {want}", file=FILE)
    sel_want = {"HASH": "AREA", "AT_SIGN": "CONTEXT", "PERCENT": "PERSON", "PLUS": "PROJECT", "file_": "FILE", "note": "NOTE", "prop": "PROPERTY", "links": "LINKS"}
    sel_alts = []
    for a in g.alternatives("select_field"):
        for k in a:
            sel_alts.append((k[1] + ("_" if k[1] == "file" else "")) if k[0] == "rule" else g.token_name(k[1]))
    run.floor("select_field alternatives", len(sel_alts), 9)
    for acc in sel_alts:
        st = State()
        if acc == "prop_values":
            key = SeqStr((CharSet(frozenset("pro"), sym=1), CharSet(ALNUM, sym=2), CharSet(ALNUM, sym=3)))
            f = specs.ctx("select_field", None, prop_values=specs.ctx("prop_values", SeqStr(tuple("prop:") + key.parts)))
            res = I.run_function(f"{QCMP}._get_select_from_field", [f], st=st)
            vals = []
            for v, s in res:
                if s.imprecise:
                    run.undecided("C04.R7", "_get_select_from_field", "; ".join(s.imprecise[:2]))
                vals.append(s.obj(v).fields.get("key") if isinstance(v, Ref) else v)
            from ..absval import Unknown as _U
            if any(isinstance(x, _U) for x in vals):
                run.undecided("C04.R7", "_get_select_from_field", f"key evaluates to {vals}")
                continue
            run.check("C04.R7", "S prop:<key> carries exactly <key>", vals == [key], "_get_select_from_field", f"prop:<key> -> {vals}",
                      f"`S prop:<key>` compiles to key {vals} instead of the key as written (keys starting with p, r or o lose characters)", file=FILE)
            continue
        f = specs.ctx("select_field", None, **{acc: specs.ctx(acc.rstrip("_"), acc)})
        res = I.run_function(f"{QCMP}._get_select_from_field", [f], st=st)
        got = [repr(v) for v, _ in res]
        want = repr(SS[sel_want[acc]]) if acc in sel_want else "?"
        run.check("C04.R1", f"S {acc} denotes {sel_want.get(acc)}", got == [want], "_get_select_from_field", f"{acc} -> {got}", f"select field `{acc}` compiles to {got}, expected {want}", file=FILE)
    for fn in ("_get_select_from_field", "_get_property_filter", "_get_desc_filter", "_split_op_value"):
        for bad in affix_strip_misuse(model.func(f"{QCMP}.{fn}").node):
            run.refuted("C04.R7", fn, bad, f"`{ast.unparse(bad)}` strips a character set, not the prefix: text starting with any of those characters loses them", file=FILE, node=bad)
    fe = model.func(f"{CLS}.enterAnd_filter")
    for bad in affix_strip_misuse(fe.node):
        run.refuted("C04.R7", "enterAnd_filter", bad, f"`{ast.unparse(bad)}` strips a character set, not the prefix", file=FILE, node=bad)

    # ------------------------------------------------------------------ R2
    # through the listener (helper names and calling conventions are free): an AND group holding the priority atoms, compiled by enterAnd_filter
    def prio_atom(text):
        return specs.ctx("where_atom", None, priority_range=specs.ctx("priority_range", text))

    def priorities_of(atoms, label):
        out = []
        for f, s in run_and_filter(atoms):
            if isinstance(f, Raised):
                out.append([f"raises {f.exc}"])
            elif [x for x in s.imprecise if "abstract iterable" not in x]:
                run.undecided("C04.R2", "enterAnd_filter", f"{label}: " + "; ".join(s.imprecise[:2]))
                out.append(None)
            else:
                out.append(sorted(f.get("priorities") or []))
        return out

    n_sp = 0
    bad_sp = []
    for n in range(10):
        for m in [None] + list(range(1, 10)):
            text = f"P{n}" + (f"-{m}" if m is not None else "")
            n_sp += 1
            want = [f"P{k}" for k in range(n, (m if m is not None else n) + 1)]
            for got in priorities_of([prio_atom(text)], text):
                if got is not None and got != want:
                    bad_sp.append((text, got, want))
    run.check("C04.R2", f"all {n_sp} spellings Pn / Pn-m denote [n..m]", not bad_sp, "enterAnd_filter", f"{bad_sp[0] if bad_sp else ''}",
              f"`{bad_sp[0][0] if bad_sp else ''}` compiles to {bad_sp[0][1] if bad_sp else ''}, expected {bad_sp[0][2] if bad_sp else ''}", file=FILE, detail=dict(bad=bad_sp[:10]))
    # several priority atoms (and several kind atoms) of ONE group pool into one set, whatever their order
    for texts, want in ((("P1", "P3-5"), ["P1", "P3", "P4", "P5"]), (("P3-5", "P1"), ["P1", "P3", "P4", "P5"]), (("P0", "P2", "P7-9"), ["P0", "P2", "P7", "P8", "P9"]), (("P2-4", "P3"), ["P2", "P3", "P4"])):
        for got in priorities_of([prio_atom(t) for t in texts], " ".join(texts)):
            if got is None:
                continue
            run.check("C04.R2", f"`{' '.join(texts)}` in one group pools to {want}", got == want, "enterAnd_filter", f"{' '.join(texts)} -> {got}",
                      f"the priority atoms `{' '.join(texts)}` of one AND group compile to {got}, expected {want}: a later priority atom replaces (or is dropped in favour of) an earlier one instead of being pooled with it", file=FILE)
    run.floor("priority spellings", n_sp, 100)

    # ------------------------------------------------------------------ R3 dates
    from ..absint import State as _S

    def dprobe(name):
        def f(I2, args, kwargs, st, node):
            return [(Term(name, ()), st)]
        return f

    def strptime_kind(I2, recv, name, args, kwargs, st, node):
        # whichever helper ends up parsing: the FORMAT handed to strptime says which reading of the text is taken
        if recv.cls.startswith("ext:datetime") and name == "strptime" and len(args) == 2 and isinstance(args[1], str):
            return [(Term("long" if "-" in args[1] else "short", ()), st)]
        return None

    def term_method(I2, recv, name, args, kwargs, st, node):
        return [(recv, st)] if name == "date" and not args else None

    I3 = Interp(model, probes={"zorg.shared.dates.from_short_date_spec": dprobe("short"), "zorg.shared.dates._from_long_date_spec": dprobe("long"),
                               "zorg.shared.dates._from_relative_date_spec": dprobe("relative"), "method:*": strptime_kind, "method:term": term_method})
    d = lambda i: CharSet(DIG, sym=i)
    shapes = {
        "YYMMDD": (SeqStr(tuple(d(i) for i in range(6))), "short"),
        "YYYY-MM-DD": (SeqStr((d(0), d(1), d(2), d(3), "-", d(4), d(5), "-", d(6), d(7))), "long"),
        "Nd": (SeqStr((d(0), "d")), "relative"), "NNm": (SeqStr((d(0), d(1), "m")), "relative"), "NNNy": (SeqStr((d(0), d(1), d(2), "y")), "relative"),
        "-Nd": (SeqStr(("-", d(0), "d")), "relative"), "NNNNNd": (SeqStr((d(0), d(1), d(2), d(3), d(4), "d")), "relative"),
    }
    for nm, (spec, want) in shapes.items():
        st = State()
        st.meta["dates_valid"] = True
        res = I3.run_function("zorg.shared.dates.from_date_spec", [spec], st=st)
        got = sorted({v.head if isinstance(v, Term) else (f"raises {v.exc}" if isinstance(v, Raised) else repr(v)) for v, _ in res})
        # a calendar-invalid digit string may legitimately fall through to an error
        ok = want in got and set(got) <= {want, "raises RuntimeError"}
        run.check("C04.R3", f"a {nm} spec is read as a {want} date", ok, "from_date_spec", f"{nm} -> {got}", f"a date spec of shape {nm} is interpreted as {got}, expected {want}", file=FILE_D)
    I4 = make_interp(model, specs, g)
    run.watch(I4)
    unit_want = {"d": ("timedelta", "days"), "m": ("relativedelta", "months"), "y": ("relativedelta", "years")}
    for unit, (ctor, kw) in unit_want.items():
        for variant, past, sign in ((f"7{unit}", False, "+"), (f"-7{unit}", False, "-"), (f"7{unit.upper()}", False, "+"), (f"7{unit}", True, "-")):
            res = I4.run_function("zorg.shared.dates._from_relative_date_spec", [variant], {"start_date": Opaque("START"), "past": past})
            outs = []
            for v, s in res:
                if isinstance(v, Term) and v.head in ("+", "-") and isinstance(v.args[1], Term):
                    delta = v.args[1]
                    outs.append((v.head, delta.head.split(".")[-1], tuple(delta.args)))
                else:
                    outs.append(repr(v)[:60])
            want = (sign, ctor, (("kw", (kw, 7)),))
            run.check("C04.R3", f"{variant}{' (past)' if past else ''} = START {sign} {ctor}({kw}=7)", outs == [want], "_from_relative_date_spec", f"{variant} past={past} -> {outs}",
                      f"relative date `{variant}` (past={past}) compiles to {outs}; expected START {sign} {ctor}({kw}=7)", file=FILE_D)
    # range without tail -> end None; with tail -> both ends converted
    for tail in (False, True):
        atom = atom_ctx("create_range", tail=tail)
        for f, s in run_and_filter([atom]):
            if isinstance(f, Raised):
                run.undecided("C04.R3", "_get_date_range", f"raises {f.exc}")
                continue
            rs = f.get("create_date_ranges", [])
            ok = len(rs) == 1
            if ok:
                flds = s.obj(rs[0]).fields
                start, end = flds.get("start"), flds.get("end")
                ok = isinstance(start, Term) and start.head == "from_date_spec" and ((end is None) if not tail else (isinstance(end, Term) and end.head == "from_date_spec" and end != start))
            run.check("C04.R3", f"a range {'with' if tail else 'without'} tail has end = {'the tail date' if tail else 'None'}", ok, "_get_date_range", f"tail={tail}: {[s.obj(r).fields for r in rs] if rs else rs}"[:160],
                      f"a date range {'with' if tail else 'without'} ':end' compiles to {[s.obj(r).fields for r in rs] if rs else rs}"[:300], file=FILE)

    # ------------------------------------------------------------------ R4 text-filter prefix table:  [!][c]'text' | [!][c]"text"
    DO = _enum(I, model, "DescOperator")
    n_df = 0
    for q in ("'", '"'):
        for neg in (False, True):
            for cs in (False, True):
                spelled = ("!" if neg else "") + ("c" if cs else "") + q + "text" + q
                for f, s in one_atom("desc_filter", quote=q, neg=neg, cs=cs):
                    n_df += 1
                    dfs = f.get("desc_filters", [])
                    flds = s.obj(dfs[0]).fields if len(dfs) == 1 and isinstance(dfs[0], Ref) else {}
                    got_cs = flds.get("case_sensitive")
                    ok = flds.get("value") == idtext and flds.get("op") == DO["NOT_CONTAINS" if neg else "CONTAINS"] and ((got_cs is True) if cs else (got_cs in (None, False)))
                    run.check("C04.R4", f"`{spelled}` -> text as written, {'NOT_CONTAINS' if neg else 'CONTAINS'}, case_sensitive={'True' if cs else 'unset'}", ok, "_get_desc_filter",
                              f"{spelled} -> {({k: str(v) for k, v in flds.items()})}"[:200],
                              f"the text filter `{spelled}` compiles to {({k: str(v) for k, v in flds.items()})}: expected the text between the quotes, "
                              f"{'NOT_CONTAINS' if neg else 'CONTAINS'} and case_sensitive {'True' if cs else 'None'}", file=FILE)
    # literals that begin / end with the OTHER quote character, or with blanks: the text is what stands between the delimiters, nothing more is trimmed
    for q, text in (('"', "'yes'"), ('"', "rock 'n'"), ("'", '"'), ("'", '"quoted" word'), ('"', " padded "), ("'", "c"), ('"', "!c")):
        for neg in (False, True):
            spelled = ("!" if neg else "") + q + text + q
            for f, s in one_atom("desc_filter", quote=q, neg=neg, cs=False, text=text):
                n_df += 1
                dfs = f.get("desc_filters", [])
                flds = s.obj(dfs[0]).fields if len(dfs) == 1 and isinstance(dfs[0], Ref) else {}
                got = flds.get("value")
                if isinstance(got, SeqStr) and all(isinstance(x, str) for x in got.parts):
                    got = "".join(got.parts)
                ok = got == text and flds.get("op") == DO["NOT_CONTAINS" if neg else "CONTAINS"] and flds.get("case_sensitive") in (None, False)
                run.check("C04.R4", f"`{spelled}` -> exactly the text between the delimiters", ok, "_get_desc_filter", f"{spelled} -> {({k: str(v) for k, v in flds.items()})}"[:200],
                          f"the text filter `{spelled}` compiles to {({k: str(v) for k, v in flds.items()})}: expected the value {text!r} (every character between the two delimiting quotes, "
                          "including quote characters of the other kind and blanks)", file=FILE)
    run.floor("text-filter spellings evaluated", n_df, 22)

    # ------------------------------------------------------------------ R4 property atoms
    PO, PV = _enum(I, model, "PropertyOperator"), _enum(I, model, "PropertyValueType")
    op_want = {"": "EQ", "<": "LT", "<=": "LE", ">": "GT", ">=": "GE"}
    glit = sorted(x for x in (g.token_literal(t) for t in g.tokens_of("prop_op")) if x)
    run.check("C04.R4", "prop_op tokens are <, <=, >, >=", glit == ["<", "<=", ">", ">="], "ZorgQueryParser", f"prop_op {glit}", f"grammar prop_op tokens are {glit}", file=FILE)
    for neg in (False, True):
        for pre, opn in op_want.items():
            text = ("!" if neg else "") + "key:" + pre + "val"
            for f, s in one_atom("prop_filter", text=text):
                pfs = f.get("property_filters", [])
                flds = s.obj(pfs[0]).fields if len(pfs) == 1 else {}
                ok = flds.get("key") == "key" and flds.get("value") == "val" and flds.get("op") == PO[opn] and flds.get("negated") is neg and flds.get("value_type") == PV["STRING"]
                run.check("C04.R4", f"`{text}` -> key, {opn}, 'val', negated={neg}, STRING", ok, "_get_property_filter", f"{text} -> {({k: str(v) for k, v in flds.items()})}"[:200],
                          f"`{text}` compiles to {({k: str(v) for k, v in flds.items()})}", file=FILE)
    for f, s in one_atom("prop_filter", text="key:*"):
        pfs = f.get("property_filters", [])
        flds = s.obj(pfs[0]).fields if len(pfs) == 1 else {}
        run.check("C04.R4", "`key:*` is an existence test", flds.get("op") == PO["EXISTS"] and flds.get("key") == "key", "_split_op_value", f"key:* -> {flds.get('op')}", f"`key:*` compiles to {flds.get('op')}", file=FILE)
    vt_shapes = {"YYMMDD": (shapes["YYMMDD"][0], "DATE"), "digits": (SeqStr((d(0), d(1), d(2))), "INTEGER"), "word": (SeqStr((CharSet(LOWER, sym=1), CharSet(LOWER, sym=2), "x")), "STRING"),
                 "YYYY-MM-DD": (shapes["YYYY-MM-DD"][0], "DATE"), "3d": ("3d", "DATE"),
                 # spellings Python's int() accepts but that are not runs of digits (the ID token allows '_'): strings
                 "1_000": ("1_000", "STRING"), "20_24": ("20_24", "STRING"), "12a": ("12a", "STRING"), "0x10": ("0x10", "STRING"), "1e3": ("1e3", "STRING"), "007": ("007", "INTEGER"), "42": ("42", "INTEGER")}
    for nm, (val, want) in vt_shapes.items():
        st = State()
        st.meta["dates_valid"] = True
        res = I.run_function(f"{QCMP}._get_value_type", [val], st=st)
        got = sorted({repr(v) for v, _ in res})
        imp = [x for _, s2 in res for x in s2.imprecise]
        if imp:
            run.undecided("C04.R4", "_get_value_type", f"{nm}: " + "; ".join(imp[:2]))
            continue
        run.check("C04.R4", f"a {nm} value is typed {want}", got == [repr(PV[want])], "_get_value_type", f"{nm} -> {got}", f"a property value of shape {nm} is typed {got}, expected {want}", file=FILE)

    # ------------------------------------------------------------------ R3 'today' is today on every compilation
    from ..daterules import no_memoised_clock

    no_memoised_clock(run, model, "C04.R3", ["zorg.service.compiler._api.build_zorg_query", "zorg.shared.dates.from_date_spec"], floor=2)
    # ------------------------------------------------------------------ R6 omitted clauses
    clause_defaults(run, model, I, specs)
    # ------------------------------------------------------------------ R5 nesting
    nesting(run, model, I, specs)
    run.units = dict(grammar_rules=len(g.rule_names), where_atom_alternatives=alts, priority_spellings=n_sp)
    run.trusted = ["CPython ast", "antlr4 ATNDeserializer", "ParseTreeWalker contract", "dateutil.relativedelta clamping"]
    run.assumptions += ["token texts are abstracted as fixed-length strings over character classes (ids: 3 chars) or as the finite set of literal spellings",
                        "render->compile round trip not decided (no renderer exists)", "Query defaults are taken from the code"]


def clause_defaults(run: Run, model: PyModel, I: Interp, specs: Specs) -> None:
    """Omitted clauses keep their defaults.  The listener is driven in ParseTreeWalker order (every enter<Rule> / exit<Rule> the compiler overrides, whatever they are called)
    over the derivations of `S note`, `W o` and `S note W o` -- none of which writes an O or a G clause -- starting from a query object whose order_by / group_by hold
    sentinels: afterwards both must still hold them (the query keeps whatever its class defaults to), and `W o` must leave the select field alone as well."""
    ci = model.cls(CLS)

    def fire(kind: str, rule: str, comp, ctx, st):
        name = f"{kind}{rule[0].upper()}{rule[1:]}"
        m = model.find_method(ci, name)
        if m is None or m.cls is None or m.cls.qualname != ci.qualname:
            return None
        r = _call(I, model, name, comp, ctx, st)
        bad = [v for v, _ in r if isinstance(v, Raised)]
        if len(r) != 1 or bad:
            raise RuntimeError(f"{name}: {bad[0].exc if bad else str(len(r)) + ' outcomes'}")
        return None

    def walk(node, comp, st):
        rule, ctx, kids = node
        fire("enter", rule, comp, ctx, st)
        for k in kids:
            walk(k, comp, st)
        fire("exit", rule, comp, ctx, st)

    def select_tree():
        note = specs.ctx("note", "note")
        field = specs.ctx("select_field", "note", note=note)
        body = specs.ctx("select_body", "note", select_field=field)
        sel = specs.ctx("select", "S note", select_body=body)
        return sel, ("select", sel, [("select_body", body, [("select_field", field, [("note", note, [])])])])

    def where_tree():
        tc = specs.ctx("note_type_char", "o", LOWER_O=specs.ctx("tok", "o"))
        nt = specs.ctx("note_type", "o", note_type_char=[tc])
        atom = specs.ctx("where_atom", "o", note_type=nt)
        af = specs.ctx("and_filter", "o", where_atom=[atom])
        orf = specs.ctx("or_filter", "o", and_filter=[af])
        wb = specs.ctx("where_body", "o", or_filter=orf)
        wh = specs.ctx("where", "W o", where_body=wb)
        return wh, ("where", wh, [("where_body", wb, [("or_filter", orf, [("and_filter", af, [("where_atom", atom, [("note_type", nt, [("note_type_char", tc, [])])])])])])])

    n = 0
    for label, has_s, has_w in (("S note", True, False), ("W o", False, True), ("S note W o", True, True)):
        st = State()
        q = st.alloc(HObj("obj", cls="zorg.domain.models._query.Query", fields=dict(select=Opaque("default:select"), where=None, order_by=Opaque("default:order_by"), group_by=Opaque("default:group_by"))))
        I.ctx_stack.append((ci.module, ci))
        try:
            comp = I.construct(CLS, [q], {}, st)[0][0]
        finally:
            I.ctx_stack.pop()
        oag = specs.ctx("order_and_group", "")
        kids = []
        kw = {}
        if has_s:
            sel, t = select_tree()
            kids.append(t)
            kw["select"] = sel
        if has_w:
            wh, t = where_tree()
            kids.append(t)
            kw["where"] = wh
        kids.append(("order_and_group", oag, []))
        inner_rule = "where_query" if has_w else "select_query"
        inner = specs.ctx(inner_rule, label, order_and_group=oag, **kw)
        query = specs.ctx("query", label, **{inner_rule: inner})
        prog = specs.ctx("prog", label, query=query)
        try:
            walk(("prog", prog, [("query", query, [(inner_rule, inner, kids)])]), comp, st)
        except RuntimeError as e:
            run.undecided("C04.R6", "ZorgQueryCompiler", f"`{label}`: {e}")
            continue
        if st.imprecise:
            run.undecided("C04.R6", "ZorgQueryCompiler", f"`{label}`: " + "; ".join(st.imprecise[:2]))
            continue
        n += 1
        f = st.obj(q).fields
        touched = [k for k in ("order_by", "group_by") + (() if has_s else ("select",)) if not (isinstance(f.get(k), Opaque) and f[k].cls == f"default:{k}")]
        run.check("C04.R6", f"`{label}`: the clauses it does not write keep their defaults", not touched, "ZorgQueryCompiler", f"`{label}`: {touched} overwritten",
                  f"compiling `{label}` (no O, no G{'' if has_s else ', no S'} clause) overwrites {touched} with {[repr(f.get(k))[:40] for k in touched]}: an omitted clause no longer takes its default "
                  "(e.g. a select-only query loses the default ordering)", file=FILE)
    run.floor("clause-default derivations walked", n, 3)


# ----------------------------------------------------------------------------------------- nesting
def _trees(depth: int) -> list:
    """or_filter shapes: list of and_filters, each a list of nested or_filters (<= 2 per level)."""
    if depth == 0:
        return [[[]], [[], []]]
    subs = _trees(depth - 1)
    ands = [[]] + [[s] for s in subs] + [[subs[0], subs[-1]]]
    out = []
    for a in ands:
        out.append([a])
    for a, b in itertools.product(ands[:4], ands[:4]):
        out.append([a, b])
    return out


def nesting(run: Run, model: PyModel, I: Interp, specs: Specs) -> None:
    shapes = _trees(2)
    # keep it bounded
    shapes = shapes[:80]
    counter = [0]
    n_ok = 0
    first_bad = None

    def walk(or_shape, comp, st: State):
        """Fire the listener events of one or_filter derivation; returns expected tree."""
        expected = []
        for and_shape in or_shape:
            counter[0] += 1
            mark = f"P{counter[0] % 10}-{counter[0] % 9 + 1}"  # a distinctive priority set per and_filter
            k = counter[0]
            # in the second pass an and-filter that holds groups holds NOTHING else (`(a | b) (c | d)`: no plain atom next to the groups)
            plain = not (bare[0] and and_shape)
            atoms = [specs.ctx("where_atom", None, priority_range=specs.ctx("priority_range", f"P{k % 10}"))] if plain else []
            atoms += [specs.ctx("where_atom", None, subfilter=specs.ctx("subfilter", None)) for _ in and_shape]
            ctx = specs.ctx("and_filter", None, where_atom=atoms)
            marks.append((k, f"P{k % 10}"))
            r = _call(I, model, "enterAnd_filter", comp, ctx, st)
            assert len(r) == 1 and not isinstance(r[0][0], Raised), r
            node = (k if plain else None, [])
            expected.append(node)
            for sub in and_shape:
                r = _call(I, model, "enterSubfilter", comp, specs.ctx("subfilter", None), st)
                assert len(r) == 1 and not isinstance(r[0][0], Raised)
                node[1].append(walk(sub, comp, st))
                r = _call(I, model, "exitSubfilter", comp, specs.ctx("subfilter", None), st)
                if len(r) != 1 or isinstance(r[0][0], Raised):
                    raise RuntimeError(f"exitSubfilter: {r}")
        return expected

    def read(st: State, orf, order: dict) -> Any:
        h = st.obj(orf)
        items = I.B.iter_values(I, h.fields.get("and_filters"), st) or []
        out = []
        for af in items:
            f = st.obj(af).fields
            pr = tuple(sorted(_set_items(st, f.get("priorities"))))
            subs = [read(st, o, order) for o in _set_items(st, f.get("or_filters"))]
            out.append((order.get(id(af), pr), subs, af))
        return out

    total = 0
    bare = [False]
    two = [[], []]
    extra = [[[two, two]], [[], [two, two]], [[two, [[]], two]], [[two, two, two]], [[[[two, two]]]]]  # (a|b)(c|d) ; x | (a|b)(c|d) ; (a|b)(c)(d|e) ; three groups ; ((a|b)(c|d))
    for shape, is_bare in [(sh, False) for sh in shapes + extra] + [(sh, True) for sh in shapes + extra if any(a for a in sh)]:
        bare[0] = is_bare
        total += 1
        st = State()
        comp, q = _new_compiler(I, model, st)
        marks: list = []
        counter[0] = 0
        try:
            r = _call(I, model, "enterWhere", comp, specs.ctx("where", None), st)
            expected = walk(shape, comp, st)
            r = _call(I, model, "exitWhere", comp, specs.ctx("where", None), st)
        except (AssertionError, RuntimeError) as e:
            first_bad = first_bad or (shape, f"handler failed: {e}")
            continue
        where = st.obj(q).fields.get("where")
        if not isinstance(where, Ref):
            first_bad = first_bad or (shape, "no where filter produced")
            continue
        # compare structures by visiting order: and_filter k carries priorities {P(k%10)} and was created k-th
        def strip(t):
            return [(len(subs), [strip(s) for s in subs]) for (_, subs, _) in t]
        def strip_e(t):
            return [(len(subs), [strip_e(s) for s in subs]) for (_, subs) in t]
        got = read(st, where, {})
        # creation order check: priorities marker must follow expected numbering
        def marks_of(t):
            return [(pr, [marks_of(s) for s in subs]) for (pr, subs, _) in t]
        def marks_e(t):
            return [(((f"P{k % 10}",) if k is not None else ()), [marks_e(s) for s in subs]) for (k, subs) in t]
        def canon(t):
            """Semantic normal form of an OR of conjunctions [(marks, [sub ORs])]: a group with a single alternative is part of its conjunction; a conjunction that is nothing
            but one group IS that group's alternatives (redundant parentheses denote the same filter)."""
            out = []
            for mk, subs in t:
                mk, rest = tuple(mk), []
                for sub in (canon(x) for x in subs):
                    if len(sub) == 1:
                        mk, rest = mk + sub[0][0], rest + sub[0][1]
                    else:
                        rest.append(sub)
                if not mk and len(rest) == 1:
                    out.extend(rest[0])
                else:
                    out.append((tuple(sorted(mk)), rest))
            return out

        if is_bare:
            same = canon(marks_of(got)) == canon(marks_e(expected))
        else:
            same = strip(got) == strip_e(expected) and marks_of(got) == marks_e(expected)
        if same:
            n_ok += 1
        else:
            first_bad = first_bad or ((shape, "groups only" if is_bare else "with atoms"), f"compiled {marks_of(got)} expected {marks_e(expected)}")
    run.floor("nesting derivations explored", total, 60)
    run.check("C04.R5", f"compiled filter tree equals the derivation's nesting on all {total} shapes (depth <= 3)", n_ok == total, "ZorgQueryCompiler",
              f"shape {first_bad[0] if first_bad else ''}"[:120],
              f"for the parenthesisation shape {first_bad[0] if first_bad else ''} the listener builds: {first_bad[1] if first_bad else ''}"[:600]
              + " -- a parenthesised group is attached to the wrong and-filter (sub-filter stack push/pop imbalance, or groups that stand alone in a conjunction are merged into it)", file=FILE, detail=dict(ok=n_ok, total=total))
    run.sample(dict(rule="C04.R5", shapes=total, ok=n_ok, example=str(shapes[5])))
