"""C09 -- query output renders the selected notes faithfully."""

from __future__ import annotations

import ast
import re

from ..absint import Interp, PartialV, Raised, State
from ..absval import EnumV, FuncV, HObj, LambdaV, Opaque
from ..core import Run
from ..grammar import FILE_LEXER, LexerGrammar
from ..pymodel import PyModel, walk_no_nested
from ..util import affix_strip_misuse, base_name, find_calls, kwarg, names_loaded

T = "zorg.domain.types"
X = "zorg.service.swog._executor"
FILE_T = "src/zorg/domain/types.py"
FILE_X = "src/zorg/service/swog/_executor.py"


def _int_fields_of_note(model: PyModel) -> set[str]:
    ci = model.cls("zorg.domain.models._page.Note")
    return {k for k, ann in ci.fields.items() if ann is not None and ast.unparse(ann) == "int"}


def check(run: Run) -> None:
    model = PyModel(run.repo)
    I = Interp(model)
    run.rule("C09.R1", "partition: itertools.groupby(X, key=K) only over X = sorted(., key=K) with the same K; group map keyed by str(k)")
    run.rule("C09.R2", "order-key encodings are order-embedding strings: dates via fixed-width strftime, ints via fixed-width zero padding; the composite key joins all component keys positionally")
    run.rule("C09.R3", "exhaustiveness and wiring: keyfunc / _get_selector / _get_header are total over their enums/levels and pair each member with the right note field and sigil")
    run.rule("C09.R4", "header markers equal the H1..H4_HEADER token literals; headers are omitted only for empty labels")
    run.rule("C09.R5", "count(x) is len() of exactly the selector's list")
    run.rule("C09.R6", "labels derive from the page path by exact '.zo' removal")

    # ---- R1
    fg = model.func(f"{X}._group_notes_by")
    gbs = [c for c in ast.walk(fg.node) if isinstance(c, ast.Call) and ast.unparse(c.func).endswith("groupby")]
    run.floor("groupby call sites", len(gbs), 1)
    for c in gbs:
        src = c.args[0]
        k = kwarg(c, "key") or (c.args[1] if len(c.args) > 1 else None)
        ok = False
        why = "the grouped iterable is not a variable assigned from sorted(..., key=<same key>)"
        if isinstance(src, ast.Name) and k is not None:
            defs = [n.value for n in walk_no_nested(fg.node) if isinstance(n, ast.Assign) and any(isinstance(t, ast.Name) and t.id == src.id for t in n.targets)]
            if len(defs) == 1 and isinstance(defs[0], ast.Call) and ast.unparse(defs[0].func) == "sorted":
                sk = kwarg(defs[0], "key")
                ok = sk is not None and ast.unparse(sk) == ast.unparse(k) and not kwarg(defs[0], "reverse")
                why = f"sorted by `{ast.unparse(sk) if sk else None}` but grouped by `{ast.unparse(k)}`"
        elif isinstance(src, ast.Call) and ast.unparse(src.func) == "sorted" and k is not None:
            sk = kwarg(src, "key")
            ok = sk is not None and ast.unparse(sk) == ast.unparse(k)
        run.check("C09.R1", "groupby runs over the notes sorted by the same key", ok, "_group_notes_by", c,
                  f"itertools.groupby is applied to notes that are not sorted by the grouping key ({why}): equal keys that are not adjacent form several groups, "
                  "later ones overwrite earlier ones in the group map and notes vanish from the result", file=FILE_X, node=c)
    # map keyed by the (string of the) group key, assigned from the recursive call on that group
    stores = [n for n in walk_no_nested(fg.node) if isinstance(n, ast.Assign) and isinstance(n.targets[0], ast.Subscript)]
    ok = len(stores) == 1 and isinstance(stores[0].value, ast.Call) and model.callee(fg, stores[0].value) == fg.qualname
    run.check("C09.R1", "each group is stored once under its own key and grouped further by the remaining dimensions", ok, "_group_notes_by", stores[0] if stores else "no store",
              "groups are not stored as map[key] = _group_notes_by(group, rest)", file=FILE_X, node=fg.node)
    # rest = group_by_types[1:], key = group_by_types[0].keyfunc
    txt = ast.unparse(fg.node)
    run.check("C09.R1", "one grouping dimension is consumed per level, in order", "[0].keyfunc" in txt and "[1:]" in txt, "_group_notes_by", "dimension recursion",
              "grouping does not consume dimension 0 and recurse on the rest", file=FILE_X, node=fg.node)

    # ---- R2
    int_fields = _int_fields_of_note(model)
    run.floor("int fields of Note", len(int_fields), 1)
    ci_o = model.cls(f"{T}.OrderByType")
    fk = model.func(f"{T}.OrderByType.keyfunc")
    n_keys = 0
    for mem in I.B.enum_members(I, ci_o):
        res = I.run_function(fk.qualname, [mem])
        for v, st in res:
            if isinstance(v, Raised) or v is None:
                run.refuted("C09.R3", "OrderByType.keyfunc", f"{mem.member} has no key function", f"OrderByType.{mem.member} yields no key function ({v})", file=FILE_T, node=fk.node)
                continue
            n_keys += 1
            node = v.node if isinstance(v, LambdaV) else (model.funcs[v.qualname].node if isinstance(v, FuncV) else None)
            if node is None:
                run.undecided("C09.R2", f"OrderByType.{mem.member}", f"unrecognised key function {v}")
                continue
            bad = None
            for js in ast.walk(node):
                if isinstance(js, ast.JoinedStr):
                    for fv in js.values:
                        if isinstance(fv, ast.FormattedValue) and isinstance(fv.value, ast.Attribute) and fv.value.attr in int_fields:
                            spec = "".join(x.value for x in fv.format_spec.values if isinstance(x, ast.Constant)) if fv.format_spec is not None else ""
                            m = re.fullmatch(r"0(\d+)d?", spec)
                            if not (m and int(m.group(1)) >= 5):
                                bad = fv
            run.check("C09.R2", f"OrderByType.{mem.member}: integer fields are embedded with fixed-width zero padding", bad is None, f"OrderByType.{mem.member}",
                      bad if bad is not None else "-", f"the {mem.member} ordering key embeds `{ast.unparse(bad.value) if bad is not None else ''}` as an unpadded decimal: "
                      "as strings '10' < '9', so line 10 sorts before line 9", file=FILE_T, node=node)
    run.floor("order key functions", n_keys, 6)
    fd = model.func(f"{T}._to_comparable_date")
    fmts = [c.args[0].value for c in find_calls(fd.node, "strftime") if c.args and isinstance(c.args[0], ast.Constant)]
    run.check("C09.R2", "dates are compared as %Y%m%d strings", fmts == ["%Y%m%d"], "_to_comparable_date", f"formats {fmts}",
              f"dates are keyed with {fmts}, which does not sort chronologically as a string", file=FILE_T, node=fd.node)
    fo = model.func(f"{X}._order_by_keyfunc")
    joins = [c for c in find_calls(fo.node, "join") if isinstance(c.func.value, ast.Constant)]
    ok = False
    detail = "no join"
    if len(joins) == 1 and joins[0].args:
        g = joins[0].args[0]
        if isinstance(g, (ast.GeneratorExp, ast.ListComp)) and len(g.generators) == 1:
            gen = g.generators[0]
            src_ok = ast.unparse(gen.iter) == "order_bys" or _alias_of(fo.node, gen.iter, "order_bys")
            ok = not gen.ifs and src_ok
            detail = "filtered" if gen.ifs else ("iterates " + ast.unparse(gen.iter))
        elif isinstance(g, ast.Name):
            detail = "joins " + g.id
    filt = any(isinstance(n, (ast.GeneratorExp, ast.ListComp)) and any(gg.ifs for gg in n.generators) for n in ast.walk(fo.node))
    run.check("C09.R2", "the composite key joins every component key, in ORDER BY order", ok and not filt, "_order_by_keyfunc", joins[0] if joins else "no join",
              f"component keys are dropped or re-ordered when the composite ordering key is built ({detail}): an empty component (e.g. the priority of a plain note) "
              "shifts the later components into its position", file=FILE_X, node=fo.node)
    # _order_notes_by sorts leaves by that key and keeps the group structure
    fon = model.func(f"{X}._order_notes_by")
    srt = [c for c in ast.walk(fon.node) if isinstance(c, ast.Call) and ast.unparse(c.func) == "sorted"]
    run.check("C09.R2", "notes of a group are sorted by the composite key", len(srt) == 1 and kwarg(srt[0], "key") is not None and not kwarg(srt[0], "reverse"), "_order_notes_by",
              srt[0] if srt else "no sorted", "the leaf lists are not sorted by the composite key", file=FILE_X, node=fon.node)

    # ---- R3 wiring of GroupByType / selectors
    ci_g = model.cls(f"{T}.GroupByType")
    want = {"AREA": ("areas", "#"), "CONTEXT": ("contexts", "@"), "PERSON": ("people", "%"), "PROJECT": ("projects", "+")}
    modT = (model.module_of(T), None)
    for mem in I.B.enum_members(I, ci_g):
        res = I.run_function(f"{T}.GroupByType.keyfunc", [mem])
        if len(res) != 1 or isinstance(res[0][0], Raised) or res[0][0] is None:
            run.refuted("C09.R3", "GroupByType.keyfunc", f"{mem.member} has no key function", f"GroupByType.{mem.member} yields no key function", file=FILE_T)
            continue
        run.proved("C09.R3", f"GroupByType.{mem.member} has a key function")
        if mem.member in want:
            attr, sig = want[mem.member]
            kf, st = res[0]
            fields = {a: st.alloc(HObj("list", items=[f"<{a}>"])) for a, _ in want.values()}
            note = st.alloc(HObj("obj", cls="zorg.domain.models._page.Note", fields=fields))
            I.ctx_stack.append(modT)
            try:
                out = I.call(kf, [note], {}, st)
            finally:
                I.ctx_stack.pop()
            vals = [v for v, _ in out]
            run.check("C09.R3", f"GroupByType.{mem.member} labels groups with {sig}<{attr}>", vals == [f"{sig}<{attr}>"], f"GroupByType.{mem.member}", f"label {vals}",
                      f"grouping by {mem.member} labels a note whose {attr} are ['<{attr}>'] with {vals}, expected '{sig}<{attr}>'", file=FILE_T)
    ci_s = model.cls(f"{T}.SelectStaticType")
    sel_want = {"AREA": "areas", "CONTEXT": "contexts", "PERSON": "people", "PROJECT": "projects"}
    for mem in I.B.enum_members(I, ci_s):
        res = I.run_function(f"{X}._get_selector", [mem], {"alpha_sort": False})
        v = res[0][0] if len(res) == 1 else None
        ok = v is not None and not isinstance(v, Raised)
        run.check("C09.R3", f"_get_selector covers SelectStaticType.{mem.member}", ok, "_get_selector", mem.member, f"no selector for {mem.member}", file=FILE_X)
        if ok and mem.member in sel_want:
            good = isinstance(v, PartialV) and isinstance(v.func, FuncV) and v.func.qualname.endswith("_select_tags") and v.args == (sel_want[mem.member],)
            run.check("C09.R3", f"S {mem.member} selects note.{sel_want[mem.member]}", good, "_get_selector", f"{mem.member} -> {v}",
                      f"selecting {mem.member} reads {getattr(v, 'args', '?')} instead of note.{sel_want[mem.member]}", file=FILE_X)
        if ok and mem.member == "NOTE":
            run.check("C09.R3", "S note renders notes", isinstance(v, FuncV) and v.qualname.endswith("_select_note"), "_get_selector", f"NOTE -> {v}", "NOTE is not rendered by _select_note", file=FILE_X)
    select_eval(run, model, lx_lits=None)

    # ---- R4
    lx = LexerGrammar(run.repo, FILE_LEXER)
    for lvl in (1, 2, 3, 4):
        lit = lx.literal_of(f"H{lvl}_HEADER")
        for k in (1, 4):
            res = I.run_function(f"{X}._get_header", [lvl], {"num_of_levels": k})
            vals = [v for v, _ in res]
            ok = len(vals) == 1 and isinstance(vals[0], str) and vals[0].lstrip("\n") == lit
            run.check("C09.R4", f"level {lvl} header marker (of {k}) is the H{lvl}_HEADER token", ok, "_get_header", f"level {lvl}: {vals}",
                      f"_get_header({lvl}) gives {vals}, the lexer's H{lvl}_HEADER is {lit!r}: the rendered page does not parse into sections", file=FILE_X)
    section_labels(run, model)
    fs = model.func(f"{X}._select")

    # ---- R5
    fa = model.func(f"{T}.SelectAggregation.aggregate")
    rets = [r for r in walk_no_nested(fa.node) if isinstance(r, ast.Return) and r.value is not None]
    ok = len(rets) == 1 and ast.unparse(rets[0].value) == f"len({fa.params()[1].arg})"
    run.check("C09.R5", "count aggregates with len() of its argument", ok, "SelectAggregation.aggregate", rets[0] if rets else "no return", "count() is not len(values)", file=FILE_T, node=fa.node)

    # ---- R6
    ff = model.func(f"{T}._to_comparable_file")
    bad = affix_strip_misuse(ff.node)
    run.check("C09.R6", "the file label removes exactly '.zo'", not bad, "_to_comparable_file", bad[0] if bad else "-",
              f"`{ast.unparse(bad[0]) if bad else ''}` strips a character set: pages whose names end in those characters get a wrong label and distinct pages collapse under one header",
              file=FILE_T, node=ff.node)
    run.units = dict(functions=[f"{X}._group_notes_by", f"{X}._order_notes_by", f"{X}._order_by_keyfunc", f"{X}._select", f"{X}._get_selector", f"{X}._get_header", f"{T}.OrderByType.keyfunc", f"{T}.GroupByType.keyfunc"])
    run.assumptions += ["itertools.groupby groups adjacent equal keys", "sorted() is stable and total on str keys"]


def _alias_of(fn: ast.FunctionDef, expr: ast.expr, name: str, depth: int = 0) -> bool:
    """expr is (a name bound to) an unfiltered, order-preserving image of ``name``."""
    if depth > 4:
        return False
    if isinstance(expr, ast.Name):
        if expr.id == name:
            return True
        defs = [n.value for n in ast.walk(fn) if isinstance(n, ast.Assign) and any(isinstance(t, ast.Name) and t.id == expr.id for t in n.targets)]
        return len(defs) == 1 and _alias_of(fn, defs[0], name, depth + 1)
    if isinstance(expr, (ast.ListComp, ast.GeneratorExp)) and len(expr.generators) == 1 and not expr.generators[0].ifs:
        return _alias_of(fn, expr.generators[0].iter, name, depth + 1)
    if isinstance(expr, ast.Call) and ast.unparse(expr.func) in ("list", "tuple") and len(expr.args) == 1:
        return _alias_of(fn, expr.args[0], name, depth + 1)
    return False


def section_labels(run: Run, model: PyModel) -> None:
    """The SECTION group label of a note under H1 > H2 > H3 > H4 is the non-empty titles joined by the separator:
    evaluated on abstract section objects (titles are opaque markers; only H1's title may be empty -- the section-less part)."""
    Q = "zorg.domain.types._to_comparable_section_from_section"
    if Q not in model.funcs:
        run.undecided("C09.R4", "section label", f"{Q} not found")
        return
    mod = model.funcs[Q].module
    sepn = mod.assigns.get("_SECTION_SEP")
    sep = sepn.value if isinstance(sepn, ast.Constant) else None
    if not isinstance(sep, str):
        run.undecided("C09.R4", "section label", "_SECTION_SEP is not a string constant")
        return
    M = "zorg.domain.models._page"
    I = Interp(model)
    n = 0
    for t1 in ("", "<t1>"):
        for depth in (1, 2, 3, 4):
            st = State()
            titles = [t1, "<t2>", "<t3>", "<t4>"][:depth]
            prev = None
            for lvl, t in enumerate(titles, 1):
                flds = dict(title=t)
                if prev is not None:
                    flds[f"h{lvl - 1}"] = prev
                prev = st.alloc(HObj("obj", cls=f"{M}.H{lvl}", fields=flds))
            res = I.run_function(Q, [prev], st=st)
            want = f" {sep} ".join(t for t in titles if t)
            got = [("raises " + v.exc) if isinstance(v, Raised) else v for v, _ in res]
            imprecise = [x for _, s in res for x in s.imprecise]
            n += 1
            where = " > ".join(t or "(no H1)" for t in titles)
            if imprecise or not all(isinstance(g, str) for g in got):
                run.undecided("C09.R4", "section label", f"{where}: {imprecise[:2] or got}")
                continue
            run.check("C09.R4", f"section label of {where} is {want!r}", got == [want], "_to_comparable_section_from_section", f"{where} -> {got}",
                      f"a note under {where} is grouped / ordered under the label {got} instead of {want!r}"
                      + (" (a stray separator for notes whose page has no H1: the header line and the section order change)" if not t1 else ""), file="src/zorg/domain/types.py", node=model.funcs[Q].node)
    run.floor("section label shapes", n, 8)


def select_eval(run: Run, model: PyModel, lx_lits=None) -> None:
    """Abstract evaluation of `_select` on generic groups of generic notes (marker bodies, tags out of alphabetical order with repeats):
    every selector lists distinct values in first-seen order (sorted only under alpha), NOTE renders through Note.to_string, count(x) is
    the number of values selecting x yields; nested groups get one header per non-empty label, with the lexer's H1..H4 markers in nesting order."""
    from ..absint import State

    I = Interp(model)
    SS = {x.member: x for x in I.B.enum_members(I, model.cls(f"{T}.SelectStaticType"))}
    lx = LexerGrammar(run.repo, FILE_LEXER)
    H = {l: lx.literal_of(f"H{l}_HEADER") for l in (1, 2, 3, 4)}
    st = State()

    def L(*xs):
        return st.alloc(HObj("list", items=list(xs)))

    def N(body, tags, props, links, fp):
        return st.alloc(HObj("obj", cls="zorg.domain.models._page.Note", fields=dict(
            body=body, zid=None, todo_payload=None, areas=L(*tags), contexts=L(*tags), people=L(*tags), projects=L(*tags), properties=st.alloc(HObj("dict", fields=dict(props))),
            links=L(*links), file_path=fp, create_date=None, modify_date=None, line_no=1, block=None)))

    n1 = N("b1 text", ["b", "a"], {"k": "v2", "j": "x"}, ["l2", "l1"], "q.zo")
    n2 = N("b2", ["a", "c"], {"k": "v1"}, ["l1"], "p.zo")
    n3 = N("b3", [], {"k": "v2"}, [], "q.zo")
    n4 = N("b4", [], {"k": ""}, [], "q.zo")
    flat = L(n1, n2, n3)
    grp = st.alloc(HObj("dict", fields={"G1": st.alloc(HObj("dict", fields={"S1": L(n1), "": L(n2)})), "": st.alloc(HObj("dict", fields={"S2": L(n3)}))}))
    want = {"AREA": ["b", "a", "c"], "CONTEXT": ["b", "a", "c"], "PERSON": ["b", "a", "c"], "PROJECT": ["b", "a", "c"], "PROPERTY": ["k", "j"], "LINKS": ["l2", "l1"]}
    fixed = {"FILE": ["p.zo", "q.zo"], "NOTE": ["- b1 text", "- b2", "- b3"]}
    n = 0

    def ev(sel, group, **kw):
        try:
            return I.run_function(f"{X}._select", [sel, group], kw, st=st.fork())
        except Exception as e:
            run.undecided("C09.R3", "_select", f"cannot interpret: {type(e).__name__}: {str(e)[:100]}")
            return []

    for mem in sorted(SS):
        for alpha in (False, True):
            for v, s in ev(SS[mem], flat, alpha_sort=alpha, num_of_levels=0):
                n += 1
                if isinstance(v, Raised) or s.imprecise or not isinstance(v, str):
                    run.undecided("C09.R3", "_select", f"S {mem}: " + (f"raises {v.exc}" if isinstance(v, Raised) else "; ".join(s.imprecise[:2]) or repr(v)))
                    continue
                got = [l for l in v.split("\n") if l]
                exp = fixed.get(mem) or (sorted(want[mem]) if alpha else want[mem])
                run.check("C09.R3", f"S {mem.lower()}{' (alpha)' if alpha else ''} lists {exp}", got == exp, "_select", f"S {mem} alpha={alpha} -> {got}",
                          f"selecting {mem} over notes whose values are b,a / a,c / (none) yields {got}, expected {exp}: values are repeated, dropped or re-ordered "
                          f"({'sorted only when ordered by alpha' if not alpha else 'sorted under alpha'})", file=FILE_X)
    for v, s in ev(SS["NOTE"], grp, alpha_sort=False, num_of_levels=2):
        n += 1
        if isinstance(v, Raised) or s.imprecise or not isinstance(v, str):
            run.undecided("C09.R4", "_select", "nested groups: " + (f"raises {v.exc}" if isinstance(v, Raised) else "; ".join(s.imprecise[:2]) or repr(v)))
            continue
        got = [l for l in v.split("\n") if l.strip()]
        exp = [f"{H[1]} G1", f"{H[2]} S1", "- b1 text", "- b2", f"{H[2]} S2", "- b3"]
        run.check("C09.R4", "nested groups: one header per non-empty label, level markers in nesting order, no header for an empty label", got == exp, "_select", f"nested -> {got}",
                  f"rendering {{G1: {{S1: [b1], '': [b2]}}, '': {{S2: [b3]}}}} gives {got}, expected {exp}", file=FILE_X)
    flat4 = L(n1, n2, n3, n4)
    for q, kw, exp, rid in ((f"{T}.SelectAggregation", dict(func_name="count", select_type=SS["AREA"]), ["3"], "C09.R5"), (f"{T}.SelectAggregation", dict(func_name="count", select_type=SS["NOTE"]), ["4"], "C09.R5"),
                            (f"{T}.SelectPropertyValues", dict(key="k"), ["v2", "v1", ""], "C09.R3")):
        s0 = st.fork()
        for obj, s2 in I.construct(q, [], kw, s0):
            try:
                res = I.run_function(f"{X}._select", [obj, flat4], {"alpha_sort": False, "num_of_levels": 0}, st=s2)
            except Exception as e:
                run.undecided(rid, "_select", f"{q.split('.')[-1]}: cannot interpret: {type(e).__name__}")
                continue
            for v, s in res:
                n += 1
                if isinstance(v, Raised) or s.imprecise or not isinstance(v, str):
                    run.undecided(rid, "_select", f"{q.split('.')[-1]}: " + (f"raises {v.exc}" if isinstance(v, Raised) else "; ".join(s.imprecise[:2]) or repr(v)))
                    continue
                got = v[:-2].split("\n") if v.endswith("\n\n") else [v]
                run.check(rid, f"{q.split('.')[-1]}({', '.join(f'{k}={getattr(x, 'member', x)}' for k, x in kw.items())}) yields {exp}", got == exp, "_select", f"{q.split('.')[-1]} -> {got}",
                          f"{q.split('.')[-1]} over four notes (areas b,a / a,c / - / -; property k = v2, v1, v2, '') yields {got}, expected {exp}" + (" (count(x) must be the number of values selecting x yields)" if "Aggregation" in q else ""), file=FILE_X)
    run.floor("select evaluations", n, 18)
