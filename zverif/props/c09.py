"""C09 -- query output renders the selected notes faithfully."""

from __future__ import annotations

import ast
import re

from ..absint import Interp, PartialV, Raised, State
from ..absval import EnumV, FuncV, HObj, LambdaV, Opaque
from ..core import Run
from ..grammar import FILE_LEXER, LexerGrammar
from ..pymodel import PyModel, walk_no_nested
from ..util import affix_strip_misuse, base_name, find_calls, kwarg, names_loaded

T = "zorg.domain.types"
X = "zorg.service.swog._executor"
FILE_T = "src/zorg/domain/types.py"
FILE_X = "src/zorg/service/swog/_executor.py"


def _int_fields_of_note(model: PyModel) -> set[str]:
    ci = model.cls("zorg.domain.models._page.Note")
    return {k for k, ann in ci.fields.items() if ann is not None and ast.unparse(ann) == "int"}


def check(run: Run) -> None:
    model = PyModel(run.repo)
    I = Interp(model)
    run.rule("C09.R1", "partition and order, by abstract runs of execute_with_session over scenario notes (equal labels not adjacent, an empty label, two dimensions): every selected note is rendered once under its group headers, groups in label order, notes in composite-key order")
    run.rule("C09.R2", "order-key encodings are order-embedding strings: dates via fixed-width strftime, ints via fixed-width zero padding; the composite key joins all component keys positionally")
    run.rule("C09.R3", "exhaustiveness and wiring: keyfunc / _get_selector / _get_header are total over their enums/levels and pair each member with the right note field and sigil")
    run.rule("C09.R4", "header markers equal the H1..H4_HEADER token literals; headers are omitted only for empty labels")
    run.rule("C09.R5", "count(x) is len() of exactly the selector's list")
    run.rule("C09.R6", "labels derive from the page path by exact '.zo' removal")

    # ---- R1
    P = _Pipeline(run, model)
    pipeline_eval(run, model, P)

    # ---- R2
    int_fields = _int_fields_of_note(model)
    run.floor("int fields of Note", len(int_fields), 1)
    ci_o = model.cls(f"{T}.OrderByType")
    fk = model.func(f"{T}.OrderByType.keyfunc")
    n_keys = 0
    for mem in I.B.enum_members(I, ci_o):
        res = I.run_function(fk.qualname, [mem])
        for v, st in res:
            if isinstance(v, Raised) or v is None:
                run.refuted("C09.R3", "OrderByType.keyfunc", f"{mem.member} has no key function", f"OrderByType.{mem.member} yields no key function ({v})", file=FILE_T, node=fk.node)
                continue
            n_keys += 1
            node = v.node if isinstance(v, LambdaV) else (model.funcs[v.qualname].node if isinstance(v, FuncV) else None)
            if node is None:
                run.undecided("C09.R2", f"OrderByType.{mem.member}", f"unrecognised key function {v}")
                continue
            bad = None
            for js in ast.walk(node):
                if isinstance(js, ast.JoinedStr):
                    for fv in js.values:
                        if isinstance(fv, ast.FormattedValue) and isinstance(fv.value, ast.Attribute) and fv.value.attr in int_fields:
                            spec = "".join(x.value for x in fv.format_spec.values if isinstance(x, ast.Constant)) if fv.format_spec is not None else ""
                            m = re.fullmatch(r"0(\d+)d?", spec)
                            if not (m and int(m.group(1)) >= 5):
                                bad = fv
            run.check("C09.R2", f"OrderByType.{mem.member}: integer fields are embedded with fixed-width zero padding", bad is None, f"OrderByType.{mem.member}",
                      bad if bad is not None else "-", f"the {mem.member} ordering key embeds `{ast.unparse(bad.value) if bad is not None else ''}` as an unpadded decimal: "
                      "as strings '10' < '9', so line 10 sorts before line 9", file=FILE_T, node=node)
    run.floor("order key functions", n_keys, 6)
    fd = model.func(f"{T}._to_comparable_date")
    fmts = [c.args[0].value for c in find_calls(fd.node, "strftime") if c.args and isinstance(c.args[0], ast.Constant)]
    run.check("C09.R2", "dates are compared as %Y%m%d strings", fmts == ["%Y%m%d"], "_to_comparable_date", f"formats {fmts}",
              f"dates are keyed with {fmts}, which does not sort chronologically as a string", file=FILE_T, node=fd.node)
    # (that the composite key joins every ORDER BY component positionally, and that every leaf list is sorted by it, is decided by the
    #  multi-component scenarios of pipeline_eval: R1 / "ordered by ...")

    # ---- R3 wiring of GroupByType / selectors
    ci_g = model.cls(f"{T}.GroupByType")
    want = {"AREA": ("areas", "#"), "CONTEXT": ("contexts", "@"), "PERSON": ("people", "%"), "PROJECT": ("projects", "+")}
    modT = (model.module_of(T), None)
    for mem in I.B.enum_members(I, ci_g):
        res = I.run_function(f"{T}.GroupByType.keyfunc", [mem])
        if len(res) != 1 or isinstance(res[0][0], Raised) or res[0][0] is None:
            run.refuted("C09.R3", "GroupByType.keyfunc", f"{mem.member} has no key function", f"GroupByType.{mem.member} yields no key function", file=FILE_T)
            continue
        run.proved("C09.R3", f"GroupByType.{mem.member} has a key function")
        if mem.member in want:
            attr, sig = want[mem.member]
            kf, st = res[0]
            fields = {a: st.alloc(HObj("list", items=[f"<{a}>"])) for a, _ in want.values()}
            note = st.alloc(HObj("obj", cls="zorg.domain.models._page.Note", fields=fields))
            I.ctx_stack.append(modT)
            try:
                out = I.call(kf, [note], {}, st)
            finally:
                I.ctx_stack.pop()
            vals = [v for v, _ in out]
            run.check("C09.R3", f"GroupByType.{mem.member} labels groups with {sig}<{attr}>", vals == [f"{sig}<{attr}>"], f"GroupByType.{mem.member}", f"label {vals}",
                      f"grouping by {mem.member} labels a note whose {attr} are ['<{attr}>'] with {vals}, expected '{sig}<{attr}>'", file=FILE_T)
    ci_s = model.cls(f"{T}.SelectStaticType")
    sel_want = {"AREA": "areas", "CONTEXT": "contexts", "PERSON": "people", "PROJECT": "projects"}
    for mem in I.B.enum_members(I, ci_s):
        res = I.run_function(f"{X}._get_selector", [mem], {"alpha_sort": False})
        v = res[0][0] if len(res) == 1 else None
        ok = v is not None and not isinstance(v, Raised)
        run.check("C09.R3", f"_get_selector covers SelectStaticType.{mem.member}", ok, "_get_selector", mem.member, f"no selector for {mem.member}", file=FILE_X)
        if ok and mem.member in sel_want:
            good = isinstance(v, PartialV) and isinstance(v.func, FuncV) and v.func.qualname.endswith("_select_tags") and v.args == (sel_want[mem.member],)
            run.check("C09.R3", f"S {mem.member} selects note.{sel_want[mem.member]}", good, "_get_selector", f"{mem.member} -> {v}",
                      f"selecting {mem.member} reads {getattr(v, 'args', '?')} instead of note.{sel_want[mem.member]}", file=FILE_X)
        if ok and mem.member == "NOTE":
            run.check("C09.R3", "S note renders notes", isinstance(v, FuncV) and v.qualname.endswith("_select_note"), "_get_selector", f"NOTE -> {v}", "NOTE is not rendered by _select_note", file=FILE_X)
    select_eval(run, model, P)
    run.floor("pipeline evaluations", P.n, 21)

    # ---- R4
    lx = LexerGrammar(run.repo, FILE_LEXER)
    for lvl in (1, 2, 3, 4):
        lit = lx.literal_of(f"H{lvl}_HEADER")
        for k in (1, 4):
            res = I.run_function(f"{X}._get_header", [lvl], {"num_of_levels": k})
            vals = [v for v, _ in res]
            ok = len(vals) == 1 and isinstance(vals[0], str) and vals[0].lstrip("\n") == lit
            run.check("C09.R4", f"level {lvl} header marker (of {k}) is the H{lvl}_HEADER token", ok, "_get_header", f"level {lvl}: {vals}",
                      f"_get_header({lvl}) gives {vals}, the lexer's H{lvl}_HEADER is {lit!r}: the rendered page does not parse into sections", file=FILE_X)
    section_labels(run, model)
    fs = model.func(f"{X}._select")

    # ---- R5
    fa = model.func(f"{T}.SelectAggregation.aggregate")
    rets = [r for r in walk_no_nested(fa.node) if isinstance(r, ast.Return) and r.value is not None]
    ok = len(rets) == 1 and ast.unparse(rets[0].value) == f"len({fa.params()[1].arg})"
    run.check("C09.R5", "count aggregates with len() of its argument", ok, "SelectAggregation.aggregate", rets[0] if rets else "no return", "count() is not len(values)", file=FILE_T, node=fa.node)

    # ---- R6
    ff = model.func(f"{T}._to_comparable_file")
    bad = affix_strip_misuse(ff.node)
    run.check("C09.R6", "the file label removes exactly '.zo'", not bad, "_to_comparable_file", bad[0] if bad else "-",
              f"`{ast.unparse(bad[0]) if bad else ''}` strips a character set: pages whose names end in those characters get a wrong label and distinct pages collapse under one header",
              file=FILE_T, node=ff.node)
    run.units = dict(functions=[f"{X}._group_notes_by", f"{X}._order_notes_by", f"{X}._order_by_keyfunc", f"{X}._select", f"{X}._get_selector", f"{X}._get_header", f"{T}.OrderByType.keyfunc", f"{T}.GroupByType.keyfunc"])
    run.assumptions += ["itertools.groupby groups adjacent equal keys", "sorted() is stable and total on str keys"]


def _alias_of(fn: ast.FunctionDef, expr: ast.expr, name: str, depth: int = 0) -> bool:
    """expr is (a name bound to) an unfiltered, order-preserving image of ``name``."""
    if depth > 4:
        return False
    if isinstance(expr, ast.Name):
        if expr.id == name:
            return True
        defs = [n.value for n in ast.walk(fn) if isinstance(n, ast.Assign) and any(isinstance(t, ast.Name) and t.id == expr.id for t in n.targets)]
        return len(defs) == 1 and _alias_of(fn, defs[0], name, depth + 1)
    if isinstance(expr, (ast.ListComp, ast.GeneratorExp)) and len(expr.generators) == 1 and not expr.generators[0].ifs:
        return _alias_of(fn, expr.generators[0].iter, name, depth + 1)
    if isinstance(expr, ast.Call) and ast.unparse(expr.func) in ("list", "tuple") and len(expr.args) == 1:
        return _alias_of(fn, expr.args[0], name, depth + 1)
    return False


def section_labels(run: Run, model: PyModel) -> None:
    """The SECTION group label of a note under H1 > H2 > H3 > H4 is the non-empty titles joined by the separator:
    evaluated on abstract section objects (titles are opaque markers; only H1's title may be empty -- the section-less part)."""
    Q = "zorg.domain.types._to_comparable_section_from_section"
    if Q not in model.funcs:
        run.undecided("C09.R4", "section label", f"{Q} not found")
        return
    mod = model.funcs[Q].module
    sepn = mod.assigns.get("_SECTION_SEP")
    sep = sepn.value if isinstance(sepn, ast.Constant) else None
    if not isinstance(sep, str):
        run.undecided("C09.R4", "section label", "_SECTION_SEP is not a string constant")
        return
    M = "zorg.domain.models._page"
    I = Interp(model)
    n = 0
    for t1 in ("", "<t1>"):
        for depth in (1, 2, 3, 4):
            st = State()
            titles = [t1, "<t2>", "<t3>", "<t4>"][:depth]
            prev = None
            for lvl, t in enumerate(titles, 1):
                flds = dict(title=t)
                if prev is not None:
                    flds[f"h{lvl - 1}"] = prev
                prev = st.alloc(HObj("obj", cls=f"{M}.H{lvl}", fields=flds))
            res = I.run_function(Q, [prev], st=st)
            want = f" {sep} ".join(t for t in titles if t)
            got = [("raises " + v.exc) if isinstance(v, Raised) else v for v, _ in res]
            imprecise = [x for _, s in res for x in s.imprecise]
            n += 1
            where = " > ".join(t or "(no H1)" for t in titles)
            if imprecise or not all(isinstance(g, str) for g in got):
                run.undecided("C09.R4", "section label", f"{where}: {imprecise[:2] or got}")
                continue
            run.check("C09.R4", f"section label of {where} is {want!r}", got == [want], "_to_comparable_section_from_section", f"{where} -> {got}",
                      f"a note under {where} is grouped / ordered under the label {got} instead of {want!r}"
                      + (" (a stray separator for notes whose page has no H1: the header line and the section order change)" if not t1 else ""), file="src/zorg/domain/types.py", node=model.funcs[Q].node)
    run.floor("section label shapes", n, 8)


class _Pipeline:
    """Abstract runs of execute_with_session: the WHERE result is supplied by the scenario (nothing is queried), saved-query expansion and query compilation are
    replaced by the scenario's Query object; everything behind them -- grouping, ordering, selecting, rendering -- is zorg's own source, interpreted."""

    def __init__(self, run: Run, model: PyModel):
        self.run_, self.model = run, model
        lx = LexerGrammar(run.repo, FILE_LEXER)
        self.H = {l: lx.literal_of(f"H{l}_HEADER") for l in (1, 2, 3, 4)}
        self.fe = model.func(f"{X}.execute_with_session")
        mi = model.module_of(X)
        q_expand = model.resolve_dotted(mi.imports.get("expand_saved_queries", "")) or "zorg.service.swog._saved_queries.expand_saved_queries"
        q_build = model.resolve_dotted(mi.imports.get("build_zorg_query", "")) or "zorg.service.compiler._api.build_zorg_query"
        holder = self.holder = {}

        def expand(I, args, kwargs, st, node):
            return [(args[1] if len(args) > 1 else kwargs.get("qstring", "Q"), st)]

        def build(I, args, kwargs, st, node):
            return [(holder["query"], st)]

        def meth(I, recv, name, args, kwargs, st, node):
            if recv.cls == "vrepo" and name == "get_notes_by_query":
                return [(st.alloc(HObj("list", items=list(holder["notes"]))), st)]
            if recv.cls == "ext:time":
                return [(Opaque("vtime"), st)]
            if recv.cls.startswith("ext:") and ("ogger" in recv.cls or "logrus" in recv.cls) and name in ("debug", "info", "warning", "warn", "error", "exception", "critical", "log", "bind"):
                return [(None, st)]
            return None

        def gattr(I, v, name, st, node):
            if v.cls == "vsession" and name == "repo":
                return [(Opaque("vrepo"), st)]
            if v.cls == "vsession" and name == "zdir":
                return [(Opaque("vpath", "/Z"), st)]
            return None

        def binop(I, op, l, r, st):
            if isinstance(l, Opaque) and isinstance(r, Opaque) and l.cls == r.cls == "vtime":
                return Opaque("vtime")
            return None

        def to_str(I, v, st):
            if isinstance(v, Opaque) and v.cls == "vtime":
                return "0.000"
            if isinstance(v, Opaque) and v.cls == "vpath":
                return v.tag
            return None

        self.I = I = Interp(model, probes={q_expand: expand, q_build: build, "method:*": meth, "getattr:*": gattr, "binop": binop, "str": to_str}, max_states=3000)
        self.G = {x.member: x for x in I.B.enum_members(I, model.cls(f"{T}.GroupByType"))}
        self.O = {x.member: x for x in I.B.enum_members(I, model.cls(f"{T}.OrderByType"))}
        self.SS = {x.member: x for x in I.B.enum_members(I, model.cls(f"{T}.SelectStaticType"))}
        self.modT = (model.module_of(T), None)
        self.n = 0

    def _keys_of(self, st, enum_member, notes):
        """labels / keys the member's key function computes for the notes (None = cannot evaluate)."""
        I = self.I
        res = I.run_function(f"{enum_member.cls}.keyfunc", [enum_member], st=st)
        if len(res) != 1 or isinstance(res[0][0], Raised) or res[0][0] is None:
            return None
        out = []
        for nref in notes:
            I.ctx_stack.append(self.modT)
            try:
                r = I.call(res[0][0], [nref], {}, st)
            finally:
                I.ctx_stack.pop()
            if len(r) != 1 or not isinstance(r[0][0], str):
                return None
            out.append(r[0][0])
        return out

    def go(self, rid: str, label: str, specs: list, select, group_by: list, order_by: list):
        """-> (rendered text, [(group path, [note indices in the order they must be rendered])]) or None (undecided, already recorded).
        A note spec is dict(body=, tags=[...], props={...}, links=[...], fp=, line=)."""
        I, run = self.I, self.run_
        st = State()

        def L(*xs):
            return st.alloc(HObj("list", items=list(xs)))

        NT = {x.member: x for x in I.B.enum_members(I, self.model.cls(f"{T}.NoteType"))}
        secs: dict = {}

        def block_of(title):
            if title is None:
                return None
            if title not in secs:
                h1 = st.alloc(HObj("obj", cls="zorg.domain.models._page.H1", fields=dict(title=title, blocks=L(), page=None, h2s=L())))
                secs[title] = st.alloc(HObj("obj", cls="zorg.domain.models._page.Block", fields=dict(section=h1, notes=L())))
            return secs[title]

        def payload(d):
            if d.get("status") is None:
                return None
            return st.alloc(HObj("obj", cls="zorg.domain.models._page.TodoPayload", fields=dict(priority=d.get("priority", "P2"), status=NT[d["status"]])))

        notes = [st.alloc(HObj("obj", cls="zorg.domain.models._page.Note", fields=dict(
            body=d["body"], zid=None, todo_payload=payload(d), areas=L(*d.get("tags", [])), contexts=L(*d.get("tags", [])), people=L(*d.get("tags", [])), projects=L(*d.get("tags", [])),
            properties=st.alloc(HObj("dict", fields=dict(d.get("props", {})))), links=L(*d.get("links", [])), file_path=Opaque("vpath", d["fp"]), create_date=None, modify_date=None,
            line_no=d.get("line", 1), block=block_of(d.get("section"))))) for d in specs]
        self.holder["notes"] = notes
        sel = select(st) if callable(select) else select
        self.holder["query"] = st.alloc(HObj("obj", cls="zorg.domain.models._query.Query", fields=dict(select=sel, where=None, group_by=tuple(self.G[g] for g in group_by),
                                                                                                      order_by=tuple(self.O[o] for o in order_by))))
        self.holder["rendered"] = self._keys_of(st.fork(), self.O["ALPHA"], notes)
        glabels = [self._keys_of(st.fork(), self.G[g], notes) for g in group_by]
        okeys = [self._keys_of(st.fork(), self.O[o], notes) for o in order_by]
        if any(x is None for x in glabels + okeys):
            run.undecided(rid, "execute_with_session", f"{label}: cannot evaluate the key functions on the scenario's notes")
            return None
        try:
            res = I.run_function(f"{X}.execute_with_session", [Opaque("vsession"), "Q"], st=st)
        except Exception as e:  # noqa: BLE001
            run.undecided(rid, "execute_with_session", f"{label}: cannot interpret: {type(e).__name__}: {str(e)[:100]}")
            return None
        idx = list(range(len(notes)))
        path = {i: tuple(gl[i] for gl in glabels) for i in idx}
        okey = {i: " ".join(ok[i] for ok in okeys) for i in idx}
        groups = [(gp, sorted([i for i in idx if path[i] == gp], key=lambda i: okey[i])) for gp in sorted(set(path.values()))]
        if len(res) != 1:
            run.undecided(rid, "execute_with_session", f"{label}: {len(res)} abstract outcomes on a concrete scenario")
            return None
        v, s = res[0]
        self.n += 1
        if isinstance(v, Raised) or s.imprecise or not isinstance(v, str):
            run.undecided(rid, "execute_with_session", f"{label}: " + (f"raises {v.exc}" if isinstance(v, Raised) else "; ".join(s.imprecise[:2]) or repr(v)))
            return None
        return v, groups

    def headers(self, groups) -> list:
        """[(header lines to print before the group, member indices)] : one header per non-empty label below the point where the path leaves the previous group's."""
        out, last, first = [], (), True
        for gp, members in groups:
            k = 0 if first else next((j for j in range(len(gp)) if j >= len(last) or last[j] != gp[j]), len(gp))
            out.append(([f"{self.H[lvl + 1]} {gp[lvl]}" for lvl in range(k, len(gp)) if gp[lvl]], members))
            first, last = False, gp
        return out


def pipeline_eval(run: Run, model: PyModel, P: "_Pipeline") -> None:
    """Every selected note is rendered exactly once, under one header per non-empty label of its group path, groups in label order at each level,
    notes of a group in composite-key order (stable); count() over an empty selection prints 0.  Labels and order keys are those the enum key
    functions compute for the scenario's notes -- the rule is about partition / order / rendering, whatever data structure carries the groups."""
    fe = P.fe
    # equal labels not adjacent in the WHERE result, an empty label, two dimensions, line 10 vs line 5 of one page
    specs = [dict(body=b, tags=t, fp=fp, line=ln) for b, t, fp, ln in (("b1", ["a2"], "q.zo", 5), ("b2", ["a1"], "p.zo", 3), ("b3", ["a2"], "p.zo", 1), ("b4", [], "p.zo", 2),
                                                                        ("b5", ["a1"], "q.zo", 10), ("b6", ["a2"], "q.zo", 10), ("b7", ["a1"], "p.zo", 30))]
    for label, gb, ob in (("grouped by area then file", ["AREA", "FILE"], ["NONE"]), ("grouped by file", ["FILE"], ["NONE"]), ("not grouped", [], ["NONE"])):
        r = P.go("C09.R1", label, specs, P.SS["NOTE"], gb, ob)
        if r is None:
            continue
        raw, groups = r
        got = [l.strip() for l in raw.split("\n") if l.strip()]
        exp = [x for hs, members in P.headers(groups) for x in hs + ["- " + specs[i]["body"] for i in members]]
        miss = [l for l in exp if l not in got]
        dup = [l for l in set(got) if l.startswith("- ") and got.count(l) > 1]
        why = (f"{miss} missing" if miss else f"{dup} rendered twice" if dup else "order / headers differ")
        run.check("C09.R1", f"{label}: every selected note once, under its group headers, groups and notes in key order", got == exp, "execute_with_session", f"{label}: {got}",
                  f"S note {label} over 7 notes (areas a2,a1,a2,-,a1,a2,a1; pages q,p,p,p,q,q,p) renders {got}, expected {exp}: {why}", file=FILE_X, node=fe.node)

    # a label that extends another label by a word ("Work" / "Work 2024"), second-dimension labels on both sides of that word: tuple order of the group paths, not the order
    # of the labels glued into one string
    specs2 = [dict(body="w1", fp="p.zo", line=1, section="Work", status="OPEN_TODO"), dict(body="w2", fp="p.zo", line=2, section="Work 2024"), dict(body="w3", fp="p.zo", line=3, section="Work"),
              dict(body="w4", fp="p.zo", line=4, section="Work 2024", status="OPEN_TODO")]
    r = P.go("C09.R1", "grouped by section then kind, a section title extending another", specs2, P.SS["NOTE"], ["SECTION", "NOTE_TYPE"], ["NONE"])
    if r is not None:
        raw, groups = r
        got = [l.strip() for l in raw.split("\n") if l.strip()]
        kind = {0: "o P2 w1", 1: "- w2", 2: "- w3", 3: "o P2 w4"}
        exp = [x for hs, members in P.headers(groups) for x in hs + [kind[i] for i in members]]
        run.check("C09.R1", "section then kind: every selected note once, under its group headers, when one section title extends another", got == exp, "execute_with_session", f"section/kind: {got}",
                  f"S note G section type over notes in sections 'Work' (a todo and a note) and 'Work 2024' (a note and a todo) renders {got}, expected {exp}: groups are formed over notes that are not sorted "
                  "by the tuple of group keys (e.g. by the keys glued into one string), so a label occurs twice and the later chunk replaces the earlier one", file=FILE_X, node=fe.node)

    # several ORDER BY components, one of them empty for some notes (a plain note has no priority): the composite key is positional
    specs3 = [dict(body="c", fp="p.zo", line=5, status="OPEN_TODO", priority="P2"), dict(body="a", fp="p.zo", line=1), dict(body="b", fp="q.zo", line=9, status="OPEN_TODO", priority="P1"),
              dict(body="d", fp="p.zo", line=2, status="CLOSED_TODO", priority="P1"), dict(body="e", fp="q.zo", line=3), dict(body="P0", fp="p.zo", line=4), dict(body="f", fp="p.zo", line=7, status="OPEN_TODO", priority="P1")]
    for label, gb, ob in (("ordered by priority then position", [], ["PRIORITY", "NONE"]), ("ordered by kind, priority, text", [], ["NOTE_TYPE", "PRIORITY", "ALPHA"]),
                          ("grouped by file, ordered by priority then text", ["FILE"], ["PRIORITY", "ALPHA"]), ("ordered by text then priority", [], ["ALPHA", "PRIORITY"])):
        r = P.go("C09.R2", label, specs3, P.SS["NOTE"], gb, ob)
        if r is None:
            continue
        raw, groups = r
        rendered = P.holder.get("rendered")
        if rendered is None:
            run.undecided("C09.R2", "execute_with_session", f"{label}: cannot render the scenario's notes")
            continue
        got = [l.strip() for l in raw.split("\n") if l.strip()]
        exp = [x for hs, members in P.headers(groups) for x in hs + [rendered[i].strip() for i in members]]
        run.check("C09.R2", f"{label}: notes of a group come out in the order of the composite key (every ORDER BY component, in order, empty ones keeping their position)", got == exp,
                  "execute_with_session", f"{label}: {got}",
                  f"S note {label} over todos P2/P1/P1(closed)/P1 and three plain notes (one whose text is 'P0') renders {got}, expected {exp}: the leaf lists are not sorted by the "
                  "positional join of all ORDER BY keys (a component dropped, filtered when empty, re-ordered, or the list not sorted at all)", file=FILE_X, node=fe.node)

    def count_sel(st):
        return P.I.construct(f"{T}.SelectAggregation", [], dict(func_name="count", select_type=P.SS["NOTE"]), st)[0][0]

    r = P.go("C09.R5", "count over no notes", [], count_sel, [], ["NONE"])
    if r is not None:
        raw = r[0]
        run.check("C09.R5", "count(note) over an empty selection prints 0", raw.strip() == "0", "execute_with_session", f"empty selection: {raw!r}",
                  f"count(note) with a WHERE clause no note satisfies prints {raw!r}, expected '0' (count(x) is the number of entries selecting x yields)", file=FILE_X, node=fe.node)


def select_eval(run: Run, model: PyModel, P: "_Pipeline") -> None:
    """What each selector renders for a group, through the whole pipeline (notes with marker bodies, tags out of alphabetical order with repeats, an empty
    property value): distinct values in first-seen order of the ORDERED notes (sorted only under `O alpha`), NOTE through Note.to_string, count(x) the
    number of values selecting x yields, a property's values including the empty one."""
    specs = [dict(body="b1 text", tags=["b", "a"], props={"k": "v2", "j": "x"}, links=["l2", "l1"], fp="q.zo", line=1), dict(body="b2", tags=["a", "c"], props={"k": "v1", "j": "w"}, links=["l1"], fp="p.zo", line=1),
             dict(body="b3", tags=[], props={"k": "v2"}, links=[], fp="q.zo", line=2), dict(body="b4", tags=[], props={"k": ""}, links=[], fp="q.zo", line=3), dict(body="b5", tags=[], props={"k": "v3", "j": "y"}, links=[], fp="q.zo", line=4)]

    def distinct(xs):
        return list(dict.fromkeys(xs))

    def values(mem, order):
        if mem in ("AREA", "CONTEXT", "PERSON", "PROJECT"):
            return distinct(t for i in order for t in specs[i]["tags"])
        if mem == "PROPERTY":
            return distinct(k for i in order for k in specs[i]["props"])
        if mem == "LINKS":
            return distinct(l for i in order for l in specs[i]["links"])
        if mem == "FILE":
            return sorted({specs[i]["fp"] for i in order})
        if mem == "NOTE":
            return ["- " + specs[i]["body"] for i in order]
        return None

    for mem in sorted(P.SS):
        for alpha in (False, True):
            r = P.go("C09.R3", f"S {mem.lower()}{' O alpha' if alpha else ''}", specs, P.SS[mem], [], ["ALPHA"] if alpha else ["NONE"])
            if r is None:
                continue
            raw, groups = r
            order = groups[0][1]
            exp = values(mem, order)
            if exp is None:
                run.undecided("C09.R3", "_get_selector", f"no expectation for SelectStaticType.{mem}")
                continue
            if alpha and mem not in ("NOTE", "FILE"):
                exp = sorted(exp)
            got = [l for l in raw.split("\n") if l]
            run.check("C09.R3", f"S {mem.lower()}{' (alpha)' if alpha else ''} lists {exp}", got == exp, "execute_with_session", f"S {mem} alpha={alpha} -> {got}",
                      f"selecting {mem} over notes whose values are b,a / a,c / (none) yields {got}, expected {exp}: values are repeated, dropped or re-ordered "
                      f"({'sorted only when ordered by alpha' if not alpha else 'sorted under alpha'})", file=FILE_X)
    for q, kw, exp, rid in ((f"{T}.SelectAggregation", dict(func_name="count", select_type=P.SS["AREA"]), lambda order: [str(len(values("AREA", order)))], "C09.R5"),
                            (f"{T}.SelectAggregation", dict(func_name="count", select_type=P.SS["NOTE"]), lambda order: [str(len(order))], "C09.R5"),
                            (f"{T}.SelectPropertyValues", dict(key="k"), lambda order: distinct(specs[i]["props"]["k"] for i in order if "k" in specs[i]["props"]), "C09.R3"),
                            # a key two notes in the middle of the ordered selection lack: notes without it contribute nothing (no phantom empty value; the rendering is stripped, so one at either end would not show)
                            (f"{T}.SelectPropertyValues", dict(key="j"), lambda order: distinct(specs[i]["props"]["j"] for i in order if "j" in specs[i]["props"]), "C09.R3"),
                            (f"{T}.SelectAggregation", dict(func_name="count", select_type=("pv", "j")), lambda order: [str(len(distinct(specs[i]["props"]["j"] for i in order if "j" in specs[i]["props"])))], "C09.R5")):
        def build(st, q=q, kw=kw):
            kw = {k: (P.I.construct(f"{T}.SelectPropertyValues", [], dict(key=x[1]), st)[0][0] if isinstance(x, tuple) and x[0] == "pv" else x) for k, x in kw.items()}
            return P.I.construct(q, [], kw, st)[0][0]

        r = P.go(rid, q.split(".")[-1], specs, build, [], ["NONE"])
        if r is None:
            continue
        raw, groups = r
        want = exp(groups[0][1])
        got = raw.split("\n")
        # the pipeline strips the rendering: an empty LAST value cannot be told from the stripped tail, so compare modulo trailing empties
        while got and got[-1] == "":
            got.pop()
        w2 = list(want)
        while w2 and w2[-1] == "":
            w2.pop()
        run.check(rid, f"{q.split('.')[-1]}({', '.join(f'{k}={getattr(x, 'member', x)}' for k, x in kw.items())}) yields {want}", got == w2, "execute_with_session", f"{q.split('.')[-1]} -> {got}",
                  f"{q.split('.')[-1]} over five notes (areas b,a / a,c / - / - / -; property k = v2, v1, v2, '', v3) (and j = x, w, -, -, y) yields {got}, expected {want}" + (" (count(x) must be the number of values selecting x yields)" if "Aggregation" in q else ""), file=FILE_X)


