"""C01 -- compiling a page yields exactly the notes written in it."""

from __future__ import annotations

import ast

from ..absint import Raised, State
from ..absval import EnumV, Opaque, Text
from ..core import Run
from ..filetypestate import COMPILER, NOTE, run_file_typestate, run_handler, set_state_fields, state_fields, token_literal
from ..grammar import FILE_LEXER, FILE_LISTENER, LexerGrammar, listener_methods
from ..listener import labels_in, snap, texts_in
from ..pymodel import PyModel, walk_no_nested

FILE = "src/zorg/service/compiler/_file_compiler.py"
FORBIDDEN_OVERRIDES = ("visitTerminal", "visitErrorNode", "enterEveryRule", "exitEveryRule")


def kind_table(run: Run, model: PyModel, ts, pid: str = "C01", rid: str = "R3") -> dict:
    """literal of todo_prefix -> NoteType member, by interpreting enterTodo_prefix."""
    g = ts.grammar
    lx = LexerGrammar(run.repo, FILE_LEXER)
    lits = {token_literal(g, lx, t): g.token_name(t) for t in g.tokens_of("todo_prefix")}
    tree = set_state_fields(ts.tree0, in_note=True)
    table: dict = {}
    for v, s, root in run_handler(ts, model, "enterTodo_prefix", "todo_prefix", "ITEM", tree):
        if isinstance(v, Raised):
            run.refuted(f"{pid}.{rid}", "enterTodo_prefix", f"raises {v.exc}", f"enterTodo_prefix raises {v.exc} for some prefix the grammar admits ({sorted(lits)})", file=FILE)
            continue
        after = state_fields(snap(root, s))
        # which literal was this branch?  the ctx hook forked over the literals in sorted token order; recover from facts-free run
        table.setdefault(repr(after.get("todo_status")), 0)
        table[repr(after.get("todo_status"))] += 1
    return table


def notes_in_file_order(run: Run, model: PyModel) -> None:
    """`Page.notes` (the observation point of the property) evaluated abstractly on a page whose sections nest unevenly: the section-less part first, then per H1
    its own blocks, then each H2 with its blocks and, below it, its H3s and H4s -- i.e. the order in which the items stand in the file (depth first), each note once."""
    from ..absint import Interp, Raised, State
    from ..absval import HObj, Ref

    P = "zorg.domain.models._page"
    fi = model.func(f"{P}.Page.notes")
    n_eval = 0
    # the part of the page in front of its first H1 (`h0`): loose notes and an early H2 / only an early H2 (no loose block) / only loose notes / nothing at all
    for label, loose, early in (("loose notes and an early H2 in front of the first H1", True, True), ("an H2 section as the very first thing of the page (no loose block)", False, True),
                                ("loose notes only in front of the first H1", True, False), ("nothing in front of the first H1", False, False)):
        st = State()
        counter = [0]

        def L(*xs):
            return st.alloc(HObj("list", items=list(xs)))

        def blk(k):
            ns = []
            for _ in range(k):
                counter[0] += 1
                ns.append(f"n{counter[0]:02d}")
            return st.alloc(HObj("obj", cls=f"{P}.Block", fields=dict(section=None, notes=L(*ns))))

        def sec(level, title, blocks, subs=()):
            fields = dict(title=title, blocks=L(*blocks))
            if level < 4:
                fields[f"h{level + 1}s"] = L(*subs)
            return st.alloc(HObj("obj", cls=f"{P}.H{level}", fields=fields))

        # the construction order below IS the file order (notes are numbered as they are created)
        b0 = [blk(1)] if loose else []
        h0_subs = [(lambda b: sec(2, "early", [b], [(lambda b2: sec(3, "early3", [b2]))(blk(1))]))(blk(1))] if early else []
        h0 = sec(1, "", b0, h0_subs) if (loose or early) else None
        a_blocks = [blk(2), blk(1)]
        a2_b = blk(1)
        a3_b = blk(1)
        a4_b = blk(2)
        a3 = sec(3, "a3", [a3_b], [sec(4, "a4", [a4_b])])
        a3b = (lambda b: sec(3, "a3b", [b]))(blk(1))
        a2 = sec(2, "a2", [a2_b], [a3, a3b])
        a2b_b = blk(1)
        a2b_3 = (lambda b: sec(3, "a2b3", [b]))(blk(1))
        a2b = sec(2, "a2b", [a2b_b], [a2b_3])
        a2c = (lambda b: sec(2, "a2c", [b]))(blk(1))
        A = sec(1, "A", a_blocks, [a2, a2b, a2c])
        B = (lambda b: sec(1, "B", [b]))(blk(1))
        page = st.alloc(HObj("obj", cls=f"{P}.Page", fields=dict(path=None, has_errors=False, events=L(), h0=h0, h1s=L(A, B))))
        want = [f"n{i:02d}" for i in range(1, counter[0] + 1)]
        I = Interp(model)
        try:
            res = I.run_function(f"{P}.Page.notes", [page], st=st)
        except Exception as e:  # noqa: BLE001
            run.undecided("C01.R4", "Page.notes", f"{label}: cannot interpret: {type(e).__name__}: {str(e)[:100]}")
            continue
        for v, s in res:
            n_eval += 1
            if isinstance(v, Raised) or s.imprecise or not isinstance(v, Ref) or s.obj(v).kind != "list" or s.obj(v).setlike:
                run.undecided("C01.R4", "Page.notes", f"{label}: " + (f"raises {v.exc}" if isinstance(v, Raised) else "; ".join(s.imprecise[:2]) or f"returns {v!r}"))
                continue
            got = list(s.obj(v).items)
            run.check("C01.R4", f"Page.notes lists every note once, in file order (sections depth first) [{label}]", got == want, "Page.notes", f"{label}: order {got}",
                      f"for a page with {label} and unevenly nested sections (an H2 with H3/H4 children followed by sibling H2s) Page.notes yields {got}, expected {want}: notes are not in the "
                      "order of the file (or are lost / repeated)", file=fi.file, node=fi.node)
    run.floor("Page.notes evaluations", n_eval, 4)


def built_page_scenarios(run: Run, model: PyModel, tree0, rid: str = "C01.R4") -> None:
    """One note per item, none lost: concrete pages are driven through the listener in ParseTreeWalker order (drive.py) and `Page.notes` is then evaluated on the page object the
    listener built -- the notes it yields are exactly the notes constructed, in file order.  Shapes: the page's body opens with an H2 section (no loose block, no H1 before it);
    loose items, then an H2 section, then H1 sections; H1 sections only, nested down to H4 with sibling sub-sections."""
    from ..absint import Raised, State
    from ..absval import HObj, Opaque, Ref
    from ..drive import Driver, T, header_tree, head_tree, item_tree
    from ..grammar import FILE_LEXER, LexerGrammar

    lx = LexerGrammar(run.repo, FILE_LEXER)
    H = {l: lx.literal_of(f"H{l}_HEADER") for l in (1, 2, 3, 4)}
    if any(v is None for v in H.values()):
        run.undecided(rid, "lexer", "cannot read the section markers from the lexer grammar")
        return
    n_pages = 0
    for label, loose, early in (("an H2 section as the very first thing of the body", False, True), ("loose items, then an H2 section, in front of the first H1", True, True),
                                ("H1 sections only", False, False), ("loose items only in front of the first H1", True, False)):
        ln = [2]

        def it(text):
            ln[0] += 1
            return item_tree("-", f"{text} {ln[0]}", None, ln[0])

        def hd(level, text):
            ln[0] += 1
            return header_tree(level, H[level], text, ln[0])

        def block(*items):
            return T("block", kids=list(items))

        parts = [head_tree("title", 1)]
        if loose:
            parts.append(block(it("loose a"), it("loose b")))
        if early:
            parts.append(T("h2_section", kids=[hd(2, "Early"), block(it("early")), T("h3_section", kids=[hd(3, "Early3"), block(it("early3"))])]))
            parts.append(T("h2_section", kids=[hd(2, "Early again"), block(it("early again"))]))
        parts.append(T("h1_section", kids=[hd(1, "A"), block(it("a1"), it("a2")),
                                           T("h2_section", kids=[hd(2, "A2"), block(it("a2x")), T("h3_section", kids=[hd(3, "A3"), block(it("a3x")), T("h4_section", kids=[hd(4, "A4"), block(it("a4x"), it("a4y"))])]),
                                                                 T("h3_section", kids=[hd(3, "A3b"), block(it("a3b"))])]),
                                           T("h2_section", kids=[hd(2, "A2b"), block(it("a2b"))])]))
        parts.append(T("h1_section", kids=[hd(1, "B"), block(it("b1"))]))
        D = Driver(model)
        st = State()
        try:
            root = D.new_listener(st, tree0)
            pg = st.obj(root).fields.get("page")
            if not isinstance(pg, Ref):
                run.undecided(rid, "ZorgFileCompiler", "the listener has no `page` object")
                return
            for f in ("h1s", "events"):  # the typestate snapshot keeps these as unordered collections; a concrete page has lists
                st.obj(pg).fields[f] = st.alloc(HObj("list"))
            st.obj(pg).fields["h0"] = None
            raised = None
            for part in parts:
                raised = D.walk(st, root, part)
                if raised is not None:
                    break
            res = None if raised is not None or st.imprecise else D.I.run_function("zorg.domain.models._page.Page.notes", [pg], st=st)
        except Exception as e:  # noqa: BLE001
            run.undecided(rid, "ZorgFileCompiler", f"{label}: cannot drive the listener: {type(e).__name__}: {str(e)[:120]}")
            continue
        if res is None or len(res) != 1:
            run.undecided(rid, "ZorgFileCompiler", f"{label}: " + (f"raises {raised.exc}" if raised is not None else "; ".join(st.imprecise[:2]) or "Page.notes forks"))
            continue
        v, s = res[0]
        if isinstance(v, Raised) or s.imprecise or not isinstance(v, Ref) or s.obj(v).kind != "list":
            run.undecided(rid, "Page.notes", f"{label}: " + (f"raises {v.exc}" if isinstance(v, Raised) else "; ".join(s.imprecise[:2]) or f"returns {v!r}"))
            continue
        n_pages += 1
        got = [x.tag if isinstance(x, Opaque) and x.cls == "note" else repr(x) for x in s.obj(v).items]
        want = [str(i) for i in range(len(D.notes))]
        lines = [n.get("line_no") for n in D.notes]
        run.check(rid, f"{label}: every item built one note", len(D.notes) == sum(1 for p in _items_of(parts)), "ZorgFileCompiler", f"{label}: {len(D.notes)} notes built, lines {lines}",
                  f"a page with {label}: {len(D.notes)} notes are built for {sum(1 for p in _items_of(parts))} items (lines {lines})", file="src/zorg/service/compiler/_file_compiler.py")
        run.check(rid, f"{label}: the page holds every note built, once, in file order", got == want, "ZorgFileCompiler", f"{label}: Page.notes -> notes #{got}",
                  f"a page with {label}: the listener builds {len(D.notes)} notes (lines {lines}) but the page's own `notes` yields notes #{got}, expected #{want}: notes of a section that is not attached "
                  "to the page (e.g. the implicit top-level section of an H2 that precedes the first H1) are lost without any error, or notes come out of file order", file="src/zorg/service/compiler/_file_compiler.py")
    run.floor("pages built through the listener and read back through Page.notes", n_pages, 4)


def _items_of(parts):
    for p in parts:
        if hasattr(p, "kids"):
            if getattr(p, "rule", None) == "item":
                yield p
            else:
                yield from _items_of(p.kids)


def check(run: Run) -> None:
    model = PyModel(run.repo)
    run.rule("C01.R1", "handler agreement: every enter*/exit* override names a grammar rule / listener method; the walker hooks are not overridden")
    run.rule("C01.R2", "only items become notes: Note is constructed in one place, reached only from the exit handlers of base_note/base_todo, at most once per item")
    run.rule("C01.R3", "kind table: todo_prefix tokens <-> enterTodo_prefix branches <-> NoteType values is a bijection; a '-' item has no todo payload")
    run.rule("C01.R4", "per-item typestate: kind, priority, ZID, dates, line number and body of a constructed note carry only provenance of the current item (or the constant default)")
    run.rule("C01.R5", "look-alike words: todo_prefix unreachable in bodies, the priority alternative of unquoted_word is shadowed, ids from the third on (second without modify date) write nothing")
    from ..daterules import century_rule

    century_rule(run, model, "C01.R4")
    from ..daterules import short_date_recogniser_agrees

    short_date_recogniser_agrees(run, model, "C01.R4")
    ts = run_file_typestate(run.repo, model)
    g = ts.grammar
    for w in ts.imprecise:
        run.undecided("C01.R4", "typestate", w)
    for h, label, r in ts.raises[:5]:
        run.undecided("C01.R4", h, f"handler raises {r.exc} on an error-free tree at {label}")

    # ---- R1
    ci = model.cls(COMPILER)
    lm = listener_methods(run.repo, FILE_LISTENER)
    n_over = 0
    for nm, m in ci.methods.items():
        if nm.startswith(("enter", "exit")) and nm not in FORBIDDEN_OVERRIDES:
            n_over += 1
            rule = nm[5:] if nm.startswith("enter") else nm[4:]
            rule = rule[0].lower() + rule[1:]
            run.check("C01.R1", f"{nm} overrides a listener method of an existing rule", nm in lm and rule in g.rule_index, "ZorgFileCompiler", nm,
                      f"`{nm}` is not a method of the generated listener (rule `{rule}`): it is never called and whatever it resets never happens", file=FILE, node=m.node)
    run.floor("listener overrides", n_over, 30)
    bad = [nm for nm in FORBIDDEN_OVERRIDES if nm in ci.methods]
    run.check("C01.R1", "walker hooks are not overridden", not bad, "ZorgFileCompiler", str(bad), f"{bad} overridden: the walker contract assumed by the typestate no longer holds", file=FILE)

    # ---- R2
    ctor_sites = []
    for q, fi in model.funcs.items():
        if not q.startswith("zorg.service.compiler._file_compiler"):
            continue
        for c, t in model.calls_in(fi):
            if t == NOTE:
                ctor_sites.append(q)
    run.check("C01.R2", "Note is constructed in exactly one compiler function", len(ctor_sites) == 1, "ZorgFileCompiler", f"constructor sites {ctor_sites}",
              f"Note(...) is constructed in {ctor_sites}", file=FILE)
    handlers = sorted({ev.handler for ev in ts.notes})
    run.check("C01.R2", "notes are constructed only while leaving base_note / base_todo", set(handlers) <= {"base_note", "base_todo"} and bool(handlers), "ZorgFileCompiler",
              f"constructing handlers {handlers}", f"a note can be constructed while the walker is in {handlers}", file=FILE)
    not_item = [ev for ev in ts.notes if "item" not in ev.rule_stack or ("note" not in ev.rule_stack and "todo" not in ev.rule_stack)]
    run.check("C01.R2", "every constructed note lies under item -> note|todo", not not_item, "ZorgFileCompiler", f"stack {not_item[0].rule_stack if not_item else ''}",
              "a note is constructed outside an item (comment / header / head)", file=FILE)
    for rule in ("base_note", "base_todo"):
        callers = g.callers(rule)
        run.check("C01.R2", f"{rule} occurs only under note/todo", callers <= {"note", "todo"}, "ZorgFileParser", f"{rule} called from {sorted(callers)}",
                  f"grammar: {rule} is reachable from {sorted(callers)}", file="src/zorg/grammar/zorg_file/ZorgFileParser.py")
    # at most one construction per exit handler invocation
    add_note = model.func(f"{COMPILER}._add_note")
    n_ctor = sum(1 for c, t in model.calls_in(add_note) if t == NOTE)
    loops = [n for n in walk_no_nested(add_note.node) if isinstance(n, (ast.For, ast.While)) and any(isinstance(c, ast.Call) and model.callee(add_note, c) == NOTE for c in ast.walk(n))]
    run.check("C01.R2", "one item yields at most one note", n_ctor == 1 and not loops, "_add_note", "single construction outside loops", "an item can yield several notes", file=FILE, node=add_note.node)
    for rule in ("base_note", "base_todo"):
        hs = ts.handlers.get(rule, {})
        calls = 0
        for kind, q in hs.items():
            calls += sum(1 for c, t in model.calls_in(model.funcs[q]) if t == add_note.qualname)
        run.check("C01.R2", f"{rule}: _add_note is called exactly once per item", calls == 1, "ZorgFileCompiler", f"{rule}: {calls} calls", f"handlers of {rule} call _add_note {calls} times", file=FILE)
    inner = set()
    for rule in g.reach_rules("item") - {"base_note", "base_todo"}:
        for kind, q in ts.handlers.get(rule, {}).items():
            if any(t == add_note.qualname for c, t in model.calls_in(model.funcs[q])):
                inner.add(q.split(".")[-1])
    run.check("C01.R2", "no other handler inside an item constructs notes", not inner, "ZorgFileCompiler", str(sorted(inner)), f"{sorted(inner)} also construct notes", file=FILE)

    # ---- R3 kind table (semantic): interpret enterTodo_prefix per literal
    lx = LexerGrammar(run.repo, FILE_LEXER)
    nt = model.cls("zorg.domain.types.NoteType")
    members = {m.value: m for m in ts.interp.B.enum_members(ts.interp, nt)}
    lits = sorted(token_literal(g, lx, t) or "?" for t in g.tokens_of("todo_prefix"))
    run.floor("todo_prefix tokens", len(lits), 5)
    from ..itemscen import item_rules

    # kind, priority, identity, body and look-alike words: generic items driven through the listener in walker order
    item_rules(run, model, ts.tree0, "C01.R3", "C01.R4", "C01.R5")
    built_page_scenarios(run, model, ts.tree0)
    notes_in_file_order(run, model)
    todo_values = sorted(v for v in members if v != "-")
    run.check("C01.R3", "todo_prefix tokens == NoteType todo values", lits == todo_values, "ZorgFileParser/NoteType", f"{lits} vs {todo_values}",
              f"the grammar's todo prefixes {lits} differ from NoteType's todo values {todo_values}", file=FILE)
    note_first = {g.token_name(l[1]) for l in g.child_at("note", 0) if l[0] == "tok"}
    run.check("C01.R3", "a plain note starts with DASH ('-')", note_first == {"DASH"} and members.get("-") is not None and members["-"].member == "BASIC", "ZorgFileParser", f"note starts with {note_first}",
              "the plain-note prefix is not '-' / NoteType.BASIC", file=FILE)
    base_note_events = [ev for ev in ts.notes if ev.handler == "base_note"]
    run.check("C01.R3", "a '-' item has no todo payload", bool(base_note_events) and all(ev.kwargs.get("todo_payload") is None for ev in base_note_events), "exitBase_note", "todo_payload of plain notes",
              "a plain note is constructed with a todo payload", file=FILE)
    run.sample(dict(rule="C01.R3", prefixes=lits))

    # ---- R4 provenance of the item's own fields
    problems: dict = {}
    n_leaf = 0
    for ev in ts.notes:
        fields = dict(zid=ev.kwargs.get("zid"), modify_date=ev.kwargs.get("modify_date"), line_no=ev.kwargs.get("line_no"), body=ev.body, create_date=None)
        pay = ev.kwargs.get("todo_payload")
        if pay is not None:
            fields["todo_payload"] = pay
        for f, tree in fields.items():
            if tree is None:
                continue
            for leaf in texts_in(tree):
                labels = leaf[1] if leaf[0] == "text" else set(leaf[2].split(",")) - {""}
                for lab in labels:
                    n_leaf += 1
                    base = lab[:-2] if lab.endswith(":Q") else lab
                    ok = base == "ITEM" or (f == "modify_date" and (base in ("TODAY", "TITLE") or base in ("H1", "H2", "H3", "H4")))
                    if f == "modify_date" and base in ("H1", "H2", "H3", "H4"):
                        from ..filetypestate import SECTION_RULES

                        ok = base in {SECTION_RULES[r] for r in ev.rule_stack if r in SECTION_RULES}
                    if not ok:
                        problems.setdefault((f, base), ev)
        # line number and body come from the note_body of this very item
        ln = ev.kwargs.get("line_no")
        if not (isinstance(ln, tuple) and ln[0] == "opaque" and ln[1].startswith("ctx:note_body") and ln[1].endswith("start.line")):
            problems.setdefault(("line_no", repr(ln)[:60]), ev)
        if not (isinstance(ev.body, tuple) and ev.body[0] == "text" and ev.body[2].startswith("note_body")):
            problems.setdefault(("body", repr(ev.body)[:60]), ev)
    for (f, what), ev in sorted(problems.items(), key=repr):
        msg = {"todo_payload": "the priority/status", "zid": "the ZID", "modify_date": "the modification date", "line_no": "the line number", "body": "the body"}.get(f, f)
        run.refuted("C01.R4", "ZorgFileCompiler", f"{f} of a note can carry {what}",
                    f"{msg} of a constructed note can come from {what} instead of the item itself"
                    + (" (a previous item's value is still in the listener state: a reset is missing)" if str(what).startswith("CLOSED") else ""), file=FILE,
                    detail=dict(field=f, source=what, stack=ev.rule_stack))
    if not problems:
        run.proved("C01.R4", f"kind/priority/ZID/dates/line/body of all {len(ts.notes)} abstract note constructions carry only the current item's provenance ({n_leaf} label occurrences)")
    # default priority when the slot is empty: constant from the module, reachable
    prios = set()
    for ev in ts.notes:
        pay = ev.kwargs.get("todo_payload")
        if pay is not None:
            p = dict(pay[2]).get("priority")
            alts = p[1] if isinstance(p, tuple) and p and p[0] == "maybe" else [p]
            for a in alts:
                if isinstance(a, str):
                    prios.add(a)
    mod = model.module_of("zorg.service.compiler._file_compiler")
    dflt = mod.assigns.get("_DEFAULT_PRIORITY")
    dv = dflt.value if isinstance(dflt, ast.Constant) else None
    run.check("C01.R4", "a todo without Pn gets the constant default priority", prios == {dv} and dv is not None, "ZorgFileCompiler", f"constant priorities {sorted(prios)}",
              f"constant priorities reaching a note are {sorted(prios)}, the declared default is {dv!r}", file=FILE)

    # ---- R5
    run.check("C01.R5", "todo_prefix cannot occur inside a body", "todo_prefix" not in g.reach_rules("note_body"), "ZorgFileParser", "note_body reaches todo_prefix",
              "grammar: a todo prefix can be derived inside a note body", file="src/zorg/grammar/zorg_file/ZorgFileParser.py")
    run.check("C01.R5", "the priority alternative of unquoted_word is shadowed by id_group", ("unquoted_word", "priority") in set(map(tuple, ts.dead_edges)), "ZorgFileParser",
              "unquoted_word -> priority is live", "grammar: a Pn word inside a body is parsed as `priority` and changes the todo's priority", file="src/zorg/grammar/zorg_file/ZorgFileParser.py")
    id_scenarios(run, ts, model)
    id_scenarios(run, ts, model, quoted_first=True, dates=False)
    run.units = dict(typestate=ts.stats, handlers=n_over, note_events=len(ts.notes), shadowed_alternatives=[list(x) for x in ts.dead_edges])
    run.trusted = ["CPython ast", "antlr4 ATNDeserializer", "ParseTreeWalker contract", "ANTLR resolves ambiguity to the lowest alternative"]
    run.assumptions += ["notes appear in file order and bodies are verbatim: properties of the ANTLR runtime/getText, not decided", "creation date = today() fallback is a run-time value"]


def _chain(ts, model, tree, steps):
    """Run listener methods in walker order on one abstract state; a missing override is the inherited no-op."""
    from ..filetypestate import COMPILER

    for method, rule, label in steps:
        if f"{COMPILER}.{method}" not in model.funcs:
            continue
        res = [(v, s, root) for v, s, root in run_handler(ts, model, method, rule, label, tree) if not isinstance(v, Raised)]
        trees = {snap(root, s) for v, s, root in res}
        if len(trees) != 1:
            return None
        tree = trees.pop()
    return tree


def _answers(s) -> dict:
    out = {}
    for (tid, name), val in ((k, v) for k, v in s.facts.items() if len(k) == 2):
        if name in ("is_short_date_spec", "is_zid", "is_long_date_spec"):
            if name in out and out[name] != val:
                out[name] = "mixed"
            else:
                out[name] = val
    return out


def id_scenarios(run: Run, ts, model: PyModel, quoted_first: bool = False, dates: bool = True) -> None:
    """Which id-like word of an item may reach the note: scenarios built from the listener's own methods
    (enterItem, enterBase_note, then enterId per word with distinct provenance labels), so the rule does not
    depend on how the state object names its fields.  The recognisers are uninterpreted predicates whose
    answers index the scenario."""
    pre = _chain(ts, model, ts.tree0, [("exitComment", "comment", "HEAD"), ("exitHead", "head", "HEAD"), ("enterItem", "item", "ITEM0"), ("enterBase_note", "base_note", "ITEM0")])
    if pre is None:
        run.undecided("C01.R5", "enterItem/enterBase_note", "cannot establish the state at the start of an item body")
        return
    IDS = ("ID1", "ID2", "ID3")
    tag = " (first word quoted)" if quoted_first else ""
    frontier = [(pre, ())]
    for k in (1, 2, 3):
        nxt = {}
        if quoted_first and k in (1, 2):
            # ids are counted wherever they occur in the item: a quoted first word still is the first word
            step = ("enterQuoted_word", "quoted_word", "ID1") if k == 1 else ("exitQuoted_word", "quoted_word", "ID1")
            frontier = [(t2, h) for t, h in frontier for t2 in [_chain(ts, model, t, [step])] if t2 is not None]
        for tree, hist in frontier:
            for v, s, root in run_handler(ts, model, "enterId", "id", IDS[k - 1], tree):
                if isinstance(v, Raised):
                    continue  # strptime on a non-date: C08's subject
                if s.imprecise:
                    run.undecided("C01.R5", "enterId", "; ".join(s.imprecise[:2]))
                    return
                a = _answers(s)
                key = (snap(root, s), hist + ((a.get("is_short_date_spec"), a.get("is_zid")),))
                nxt[key] = True
        frontier = list(nxt)
        if len(frontier) > 400:
            run.undecided("C01.R5", "enterId", "scenario explosion")
            return
    n = 0
    for tree, hist in frontier:
        n += 1
        present = labels_in(tree) & set(IDS)
        (sd1, z1), (sd2, z2), (sd3, z3) = hist
        desc = " ; ".join(f"word {i + 1}: YYMMDD={h[0]} ZID={h[1]}" for i, h in enumerate(hist))
        exp = set()
        if sd1 is True or z1 is True:
            exp.add("ID1")
        if sd1 is True and z2 is True:
            exp.add("ID2")
        if "mixed" in (sd1, z1, sd2, z2, sd3, z3):
            run.undecided("C01.R5", "enterId", "recogniser consulted twice with different answers")
            continue
        extra, missing = present - exp, exp - present
        what = []
        if "ID3" in extra:
            what.append("the third id-like word of an item reaches the note's identity/dates")
        if "ID2" in extra:
            what.append("the second id-like word is taken as ZID/date although the first word was not a YYMMDD modify date")
        if "ID1" in extra:
            what.append("the first word reaches the note although neither recogniser accepted it")
        if "ID1" in missing:
            what.append("the first word was recognised (modify date or ZID) but does not reach the note")
        if "ID2" in missing:
            what.append("a ZID that follows the YYMMDD modify date does not reach the note")
        run.check("C01.R5", f"id words{tag} [{desc}] -> provenance {sorted(exp)}", not what, "enterId", f"[{desc}] -> {sorted(present)}",
                  "; ".join(what) + f" (scenario {desc}; words reaching the state: {sorted(present)}, expected {sorted(exp)})", file=FILE, node=model.func("zorg.service.compiler._file_compiler.ZorgFileCompiler.enterId").node)
    run.floor("id-word scenarios" + tag, n, 4)
    if not dates:
        return
    # a long date is the create date only as the first id word
    for k in (1, 2, 3):
        frontier = [pre]
        ok_chain = True
        for j in range(1, k + 1):
            nxt = set()
            for tree in frontier:
                for v, s, root in run_handler(ts, model, "enterId", "id", IDS[j - 1], tree):
                    a = _answers(s)
                    if isinstance(v, Raised) or a.get("is_short_date_spec") is True or a.get("is_zid") is True:
                        continue  # the word is YYYY-MM-DD (or a plain word before it): neither recogniser accepts it
                    nxt.add(snap(root, s))
            frontier = list(nxt)
        wrote = set()
        nres = 0
        for tree in frontier:
            for v, s, root in run_handler(ts, model, "enterDate", "date", "DATE" + str(k), tree):
                if isinstance(v, Raised):
                    continue
                a = _answers(s)
                if a.get("is_long_date_spec") is False:
                    continue
                nres += 1
                if ("DATE" + str(k)) in labels_in(snap(root, s)):
                    wrote.add(k)
        if not nres:
            run.undecided("C01.R5", "enterDate", f"no result for a long date as id #{k}")
        elif k == 1:
            run.check("C01.R5", "a YYYY-MM-DD first word is the note's create date", wrote == {1}, "enterDate", "id #1: not recorded", "a long date as first word of an item is not recorded as its create date", file=FILE)
        else:
            run.check("C01.R5", f"a YYYY-MM-DD word as id #{k} is not the create date", not wrote, "enterDate", f"id #{k}: reaches the state",
                      f"a long date that is word #{k} of an item reaches the note's dates", file=FILE)
