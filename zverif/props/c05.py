"""C05 -- after `db create` index and files agree; files change only to gain ZIDs."""

from __future__ import annotations

import ast

from ..core import Run
from ..effects import Effects
from ..indexing import event_wiring, page_then_hashmap, writeback_conservation, zids_before_index
from ..pymodel import PyModel, walk_no_nested

PC = "zorg.storage.sql._page_converters"
FILE = "src/zorg/storage/sql/_page_converters.py"
RENAMES = {"file_path": {"page_path"}, "todo_payload": {"todo_status", "todo_priority"}, "properties": {"property_links"}}


def converter_coverage(run: Run, model: PyModel) -> None:
    note = model.cls("zorg.domain.models._page.Note")
    fields = [k for k, a in note.fields.items() if a is not None]
    run.floor("Note fields", len(fields), 14)
    ffrom = model.func(f"{PC}.NoteConverter._from_entity_with_session")
    fto = model.func(f"{PC}.NoteConverter.to_entity")
    read_from = {n.attr for n in ast.walk(ffrom.node) if isinstance(n, ast.Attribute) and isinstance(n.value, ast.Name) and n.value.id == "note"}
    # getattr(note, attr) over a literal table
    for n in ast.walk(ffrom.node):
        if isinstance(n, ast.For) and isinstance(n.iter, ast.List) and any(isinstance(c, ast.Call) and ast.unparse(c.func) == "getattr" and c.args and ast.unparse(c.args[0]) == "note" for c in ast.walk(n)):
            for elt in n.iter.elts:
                if isinstance(elt, ast.Tuple) and isinstance(elt.elts[0], ast.Constant):
                    read_from.add(elt.elts[0].value)
    ctor = [c for c in ast.walk(fto.node) if isinstance(c, ast.Call) and model.callee(fto, c) == note.qualname]
    set_to = set()
    src_to: dict[str, str] = {}
    if len(ctor) == 1:
        set_to = {k.arg for k in ctor[0].keywords if k.arg}
        src_to = {k.arg: ast.unparse(k.value) for k in ctor[0].keywords if k.arg}
        if ctor[0].args:
            set_to.add("body")
            src_to["body"] = ast.unparse(ctor[0].args[0])
    else:
        run.undecided("C05.R1", "NoteConverter.to_entity", "expected exactly one Note(...) construction")
    bc = model.func(f"{PC}._BlockConverter.to_entity")
    block_set = any(isinstance(s, ast.Assign) and ast.unparse(s.targets[0]) == "note.block" for s in ast.walk(bc.node))
    for f in fields:
        if f == "block":
            run.check("C05.R1", "note.block is restored by the block converter", block_set, "_BlockConverter.to_entity", "note.block", "notes read back from the index have no block", file=FILE, node=bc.node)
            continue
        run.check("C05.R1", f"Note.{f} is stored in the index", f in read_from, "NoteConverter.from_entity", f"{f} not read", f"Note.{f} is never written to the SQL model: it is lost when the page is indexed", file=FILE, node=ffrom.node)
        run.check("C05.R1", f"Note.{f} is restored from the index", f in set_to, "NoteConverter.to_entity", f"{f} not set", f"Note.{f} is not restored when a note is read back from the index", file=FILE, node=fto.node)
        if f in src_to:
            cols = RENAMES.get(f, {f})
            src = src_to[f]
            if f == "todo_payload":
                ok = "todo_payload" in src or all(c in ast.unparse(fto.node) for c in cols)
            else:
                ok = any(f"sql_note.{c}" in src or (f == "properties" and "properties" in src) for c in cols)
            run.check("C05.R1", f"Note.{f} is restored from its own column", ok, "NoteConverter.to_entity", f"{f} <- {src}", f"Note.{f} is restored from `{src}`, not from the column(s) {sorted(cols)} it was stored in", file=FILE, node=fto.node)
    # stored under its own column
    kw = [n for n in ast.walk(ffrom.node) if isinstance(n, ast.Dict)]
    for d in kw:
        for k, v in zip(d.keys, d.values):
            if isinstance(k, ast.Constant) and isinstance(v, ast.Attribute) and isinstance(v.value, ast.Name) and v.value.id == "note":
                run.check("C05.R1", f"column {k.value} receives note.{k.value}", k.value == v.attr, "NoteConverter.from_entity", f"{k.value} <- note.{v.attr}", f"SQL column `{k.value}` is filled from note.{v.attr}", file=FILE, node=d)
    # section converters map each child collection both ways
    for cls, kids in (("_H1Converter", ("h2s", "blocks", "title")), ("_H2Converter", ("h3s", "blocks", "title")), ("_H3Converter", ("h4s", "blocks", "title")), ("_H4Converter", ("blocks", "title")), ("_BlockConverter", ("notes",))):
        for meth in ("from_entity", "to_entity"):
            f = model.func(f"{PC}.{cls}.{meth}")
            txt = ast.unparse(f.node)
            missing = [k for k in kids if k not in txt]
            run.check("C05.R1", f"{cls}.{meth} maps {', '.join(kids)}", not missing, f"{cls}.{meth}", f"missing {missing}", f"{cls}.{meth} does not map {missing}: that part of the page structure is lost in the index", file=FILE, node=f.node)
    fp = model.func(f"{PC}.PageConverter.from_entity")
    run.check("C05.R1", "the page converter stores the section-less notes (h0) as well", "h0" in ast.unparse(fp.node), "PageConverter.from_entity", "h0", "notes outside any H1 section are not indexed", file=FILE, node=fp.node)
    # inclusion is unconditional: the only admissible condition on h0 is its presence; child loops do not filter
    param = fp.params()[1].arg if len(fp.params()) > 1 else "page"
    n_h0 = 0
    for n in ast.walk(fp.node):
        test = n.test if isinstance(n, (ast.If, ast.IfExp, ast.While)) else None
        if test is None or f"{param}.h0" not in ast.unparse(test):
            continue
        n_h0 += 1
        t = test
        if isinstance(t, ast.Compare) and len(t.ops) == 1 and isinstance(t.ops[0], (ast.IsNot, ast.Is)) and isinstance(t.comparators[0], ast.Constant) and t.comparators[0].value is None:
            t = t.left
        if isinstance(t, ast.UnaryOp) and isinstance(t.op, ast.Not):
            t = t.operand
        run.check("C05.R1", "the section-less part of a page (h0) is indexed whenever it exists", ast.unparse(t) == f"{param}.h0", "PageConverter.from_entity", test,
                  f"h0 is stored only when `{ast.unparse(test)}`: a page whose section-less part fails the extra condition (e.g. top-level H2 sections without loose items) loses those notes in the index",
                  file=FILE, node=n)
    run.floor("h0 inclusion conditions", n_h0, 1)
    n_loops = 0
    for cls in ("PageConverter", "_H1Converter", "_H2Converter", "_H3Converter", "_H4Converter", "_BlockConverter"):
        for meth in ("from_entity", "to_entity"):
            f = model.func(f"{PC}.{cls}.{meth}")
            for n in walk_no_nested(f.node):
                if isinstance(n, ast.For):
                    n_loops += 1
                    skips = [x for x in ast.walk(n) if isinstance(x, (ast.Continue, ast.Break))]
                    run.check("C05.R1", f"{cls}.{meth}: the loop over `{ast.unparse(n.iter)[:40]}` converts every element", not skips, f"{cls}.{meth}", n.iter,
                              f"the loop over `{ast.unparse(n.iter)}` skips elements (continue/break): part of the page is not carried over", file=FILE, node=n)
                elif isinstance(n, (ast.ListComp, ast.GeneratorExp, ast.SetComp)):
                    n_loops += 1
                    flt = [g for g in n.generators if g.ifs]
                    run.check("C05.R1", f"{cls}.{meth}: `{ast.unparse(n)[:50]}` converts every element", not flt, f"{cls}.{meth}", n,
                              f"`{ast.unparse(n)}` filters elements: part of the page is not carried over", file=FILE, node=n)
                elif isinstance(n, ast.Subscript) and isinstance(n.slice, ast.Slice) and isinstance(n.ctx, ast.Load):
                    base = ast.unparse(n.value)
                    if any(base.endswith(k) for k in ("h1s", "h2s", "h3s", "h4s", "blocks", "notes")):
                        run.refuted("C05.R1", f"{cls}.{meth}", n, f"`{ast.unparse(n)}` takes a slice of a child collection: the rest is not carried over", file=FILE, node=n)
    run.floor("converter child loops", n_loops, 8)


def check(run: Run) -> None:
    model = PyModel(run.repo)
    eff = Effects(model)
    run.rule("C05.R1", "converter coverage: every field of the domain Note is written to the SQL model and restored from the same column; section/block converters map every child collection both ways")
    run.rule("C05.R2", "every indexed note has a ZID: _add_zids dominates the conversion, gives every ZID-less note a fresh one and queues the write-back; index-side and file-side drop the same leading word")
    run.rule("C05.R3", "write-back conservation, by abstract runs of _update_zo_file over virtual pages (adjacent multi-line notes; U+2028 / form feed / CR above the notes; first and last line): the text written is the page text with only the first line of each listed note replaced")
    run.rule("C05.R4", "wiring: every constructed message class has a registered handler; NewZorgNotesEvent reaches the page write, which is followed by the hash refresh")
    run.rule("C05.R5", "running the commands again changes no indexed note: an unchanged page is skipped, a processed page first loses its previous rows (also when file_hash.json does not "
                       "know it: lost map, restricted reindex), by the abstract reindex runs of C06.R1 / C06.R2, adopted here")
    from ..core import Run as _Run
    from ..indexscen import reindex_rules

    sub = _Run("C06", run.tier, run.repo)
    reindex_rules(sub, model, dict(change="C06.R1", order="C06.R2", stale="C06.R3", ack="C06.R4"))
    run.floor("adopted reindex obligations", run.adopt(sub, ("C06.R1", "C06.R2"), "C05.R5"), 4)
    converter_coverage(run, model)
    zids_before_index(run, model, "C05.R2")
    from .c07 import allocated_zids_lex_as_zids

    allocated_zids_lex_as_zids(run, model, "C05.R2")
    writeback_conservation(run, model, "C05.R3")
    event_wiring(run, model, eff, "C05.R4", "NewZorgNotesEvent")
    page_then_hashmap(run, model, eff, "C05.R4")
    run.units = dict(modules=["zorg.storage.sql._page_converters", "zorg.storage.sql._repo", "zorg.service.handlers", "zorg.service.messagebus"])
    run.assumptions += ["where in the line the ZID lands and byte-level diffs are value-level (not decided)", "SQLModel relationship semantics"]
