"""C14 -- `file rename` retargets every link to the page and nothing else."""

from __future__ import annotations

import ast

from ..core import Run
from ..effects import Effects
from ..flatten import flat_info
from ..absint import Raised
from ..paths import enum_paths, first_index
from ..pymodel import PyModel, walk_no_nested
from ..shapes import Const, Hole, ShapeEval, render
from ..util import affix_strip_misuse, base_name, find_calls, int_eval

F_RENAME = "zorg.app.runners._run_file.run_file_rename"
F_SIMPLIFY = "zorg.shared.common.simplify_fname"
F_ALL = "zorg.shared.common.get_all_zfiles"
FILE = "src/zorg/app/runners/_run_file.py"


def _pairs(run: Run, model: PyModel, fi) -> list[tuple[ast.expr, ast.expr, ast.AST]]:
    """(old, new, site) expression pairs of every textual replacement applied to file contents."""
    fn = fi.node
    out = []
    dicts = {}
    for n in walk_no_nested(fn):
        if isinstance(n, ast.Assign) and isinstance(n.value, ast.Dict) and isinstance(n.targets[0], ast.Name):
            dicts[n.targets[0].id] = n.value
    for n in walk_no_nested(fn):
        if isinstance(n, ast.Call) and isinstance(n.func, ast.Attribute) and n.func.attr == "replace" and len(n.args) >= 2:
            a, b = n.args[0], n.args[1]
            if isinstance(a, ast.Name) and isinstance(b, ast.Name):
                # for a, b in M.items()
                loop = None
                for f in walk_no_nested(fn):
                    if isinstance(f, ast.For) and isinstance(f.target, ast.Tuple) and [getattr(e, "id", None) for e in f.target.elts] == [a.id, b.id] and any(x is n for x in ast.walk(f)):
                        loop = f
                if loop is not None and isinstance(loop.iter, ast.Call) and isinstance(loop.iter.func, ast.Attribute) and loop.iter.func.attr == "items":
                    m = base_name(loop.iter.func.value)
                    if m in dicts:
                        for k, v in zip(dicts[m].keys, dicts[m].values):
                            out.append((k, v, n))
                        continue
            out.append((a, b, n))
    return out


SCENARIOS = [("SRCo", "DSTz", "SRCo", "DSTz"), ("SRC.zo", "DST.zo", "SRC", "DST"), ("sub/SRCz", "sub2/DSTo", "sub/SRCz", "sub2/DSTo"), ("pa.ge", "qu.ux", "pa.ge", "qu.ux"),
             # templates and saved-query pages are linked WITH their extension; a page of the same base name is a different target
             ("day.zot", "daily.zot", "day.zot", "daily.zot"), ("zoq/open.zoq", "zoq/todo.zoq", "zoq/open.zoq", "zoq/todo.zoq")]


def concrete_rename(run: Run, model: PyModel) -> int:
    """Abstract runs of run_file_rename over a virtual notes directory with CONCRETE page texts (files the run writes or renames are read back as such; nothing touches a
    disk; `re` on constants is a library fact): afterwards every *.zo / *.zot / *.zoq file holds its old text with exactly the links [[A]] and [[A#x]] retargeted to B --
    look-alikes ([[Ax]], [[xA]], [[A/sub]], [[A.zot]], [[A-y]], [A], links to B) untouched, other files not visited -- and the page itself has moved.  This also decides
    rewrites done with regular expressions, which the replacement-chain evaluation cannot."""
    import fnmatch

    from ..absint import Interp, State
    from ..absval import HObj, Opaque
    from ..virtual import World, vpath

    fi = model.func(F_RENAME)
    n = 0
    for src, dest, S, D in SCENARIOS:
        def texts(name):
            return (f"# page [[{name}]]\n\n- see [[{name}]] and [[{name}#anchor]] and ([[{name}]]), [[{name}#a b]].\n"
                    f"- look-alikes [[{name}x]] [[x{name}]] [[{name}/sub]] [[{name}.zot]] [[{name}-y]] [[{name} x]] [{name}] [[ {name}]] [#{name}] {name}\n")

        other = texts(S) + f"- destination links [[{D}]] [[{D}#a]]\n"
        if "." in S.rsplit("/", 1)[-1]:
            base = S.rsplit(".", 1)[0]
            other += f"- the page of the same base name is somebody else: [[{base}]] [[{base}#a]] [[{base}.zo]]\n"
        sfile, dfile = (src if "." in src else src + ".zo"), (dest if "." in dest else dest + ".zo")
        files = {f"/Z/{sfile}": f"# the page itself links to [[{S}]]\n", "/Z/other.zo": other, "/Z/sub/deep/t.zot": texts(S), "/Z/zoq/q.zoq": f"# W [[{S}#x]]\n", "/Z/readme.txt": texts(S),
                 "/Z/plain.zo": "# nothing to retarget here\n- [[unrelated]]\n"}

        def expect(t):
            return t.replace(f"[[{S}]]", f"[[{D}]]").replace(f"[[{S}#", f"[[{D}#")

        W = World(model, files={}, old_map=None, indexed=set(), errors=set(), whitelist=[], contents=dict(files), missing="all-but-contents")
        probes = W.probes()
        base_m = probes["method:*"]

        def current(st):
            cur = dict(files)
            cur.update(st.meta.get("vfiles", {}))
            for g in st.meta.get("vgone", ()):
                cur.pop(g, None)
            return cur

        def meth(I, recv, name, args, kwargs, st, node):
            if recv.cls == "vpath" and name in ("rename", "replace") and args and isinstance(args[0], Opaque) and args[0].cls == "vpath":
                cur = current(st)
                if recv.tag not in cur:
                    from ..absint import Raised as _R
                    return [(_R("FileNotFoundError", node, recv.tag), st)]
                st.trace.append(("rename", recv.tag, args[0].tag))
                st.meta["vfiles"] = {**st.meta.get("vfiles", {}), args[0].tag: cur[recv.tag]}
                st.meta["vgone"] = tuple(set(st.meta.get("vgone", ())) | {recv.tag})
                return [(args[0], st)]
            if recv.cls == "vpath" and name in ("rglob", "glob") and args and isinstance(args[0], str):
                cur = current(st)
                pre = recv.tag.rstrip("/") + "/"
                hits = [p for p in sorted(cur) if p.startswith(pre) and fnmatch.fnmatch(p.rsplit("/", 1)[-1], args[0]) and (name == "rglob" or "/" not in p[len(pre):])]
                return [(st.alloc(HObj("list", items=[vpath(p) for p in hits])), st)]
            if recv.cls == "vpath" and name in ("read_text", "exists", "is_file") and recv.tag in st.meta.get("vgone", ()):
                if name != "read_text":
                    return [(False, st)]
                from ..absint import Raised as _R
                return [(_R("FileNotFoundError", node, recv.tag), st)]
            return base_m(I, recv, name, args, kwargs, st, node)

        probes["method:*"] = meth
        I = Interp(model, probes=probes, max_states=3000)
        st = State()
        cfg = st.alloc(HObj("obj", cls="zorg.app.config.FileRenameConfig", fields=dict(src_name=src, dest_name=dest, zettel_dir=vpath("/Z"), command="rename", verbose=0)))
        try:
            res = I.run_function(F_RENAME, [cfg], st=st)
        except Exception as e:  # noqa: BLE001
            run.undecided("C14.R1", "run_file_rename", f"rename {src} -> {dest} on concrete pages: cannot interpret: {type(e).__name__}: {str(e)[:100]}")
            continue
        if len(res) != 1:
            run.undecided("C14.R1", "run_file_rename", f"rename {src} -> {dest} on concrete pages: {len(res)} abstract outcomes")
            continue
        v, s = res[0]
        if isinstance(v, Raised) or s.imprecise:
            run.undecided("C14.R1", "run_file_rename", f"rename {src} -> {dest} on concrete pages: " + (f"raises {v.exc}" if isinstance(v, Raised) else "; ".join(s.imprecise[:2])))
            continue
        n += 1
        cur = current(s)
        want = {(f"/Z/{dfile}" if p == f"/Z/{sfile}" else p): (expect(t) if p.endswith((".zo", ".zot", ".zoq")) else t) for p, t in files.items()}
        moved = f"/Z/{dfile}" in cur and f"/Z/{sfile}" not in cur
        run.check("C14.R3", f"{src} -> {dest}: the page file moves from {sfile} to {dfile}", moved, "run_file_rename", f"files afterwards: {sorted(cur)}"[:200],
                  f"after renaming {src!r} to {dest!r} the directory holds {sorted(cur)}: the page did not move from {sfile} to {dfile}", file=FILE, node=fi.node)
        for pth in sorted(want):
            got = cur.get(pth)
            if got == want[pth]:
                run.proved("C14.R1" if pth.endswith((".zo", ".zot", ".zoq")) else "C14.R2", f"{src} -> {dest}: {pth} holds exactly its old text with [[{S}]] / [[{S}# retargeted")
                continue
            d = "the file is missing"
            if isinstance(got, str):
                gl, wl = got.split("\n"), want[pth].split("\n")
                k = next((i for i in range(min(len(gl), len(wl))) if gl[i] != wl[i]), min(len(gl), len(wl)))
                d = f"line {k + 1} is {gl[k]!r}, expected {wl[k]!r}" if k < min(len(gl), len(wl)) else f"{len(gl)} lines, expected {len(wl)}"
            rid = "C14.R1" if pth.endswith((".zo", ".zot", ".zoq")) else "C14.R2"
            run.refuted(rid, "run_file_rename", f"{src} -> {dest}: {pth}: {d}"[:200],
                        f"after renaming {src!r} to {dest!r}, {pth}: {d}: links to the page are left behind, or links to OTHER pages whose names merely contain / extend {S!r} "
                        f"(e.g. [[{S}/sub]], [[{S}.zot]], [[{S}-y]]) are rewritten" + (" -- a file outside *.zo / *.zot / *.zoq is touched" if rid == "C14.R2" else ""), file=FILE, node=fi.node)
    return n


def check(run: Run) -> None:
    model = PyModel(run.repo)
    run.rule("C14.R1", "abstract run of the rename on generic names (with / without .zo, in sub-directories, ending in o / z, containing a dot): the text written back is the text read from the "
                       "same file with exactly the replacements '[[A]' -> '[[B]' and '[[A#' -> '[[B#' applied (A, B = the names without the .zo suffix); names are never treated as character "
                       "sets or regular expressions")
    run.rule("C14.R2", "scope: get_all_zfiles globs exactly *.zo, *.zot, *.zoq recursively, hands on everything it found, and is what the rewrite visits; each file is rewritten from its own content")
    run.rule("C14.R3", "order: the rename of the page precedes the rewrites and goes from the source name to the destination name")
    fi = model.func(F_RENAME)
    slice_ = [model.funcs[q] for q in sorted(model.reachable([F_RENAME])) if q.startswith(("zorg.app.runners._run_file.", "zorg.shared.common."))]
    run.floor("functions of the rename operation", len(slice_), 3)

    # ---- names as character sets / regular expressions (structural, over the whole operation)
    uses_regex = False
    for f in slice_:
        se = ShapeEval(model, f)
        for n in walk_no_nested(f.node):
            if isinstance(n, ast.Call) and ast.unparse(n.func) in ("re.compile", "re.sub", "re.subn", "re.search", "re.match", "re.findall", "re.finditer") and n.args:
                for sh in se.eval(n.args[0]):
                    for p in sh:
                        if isinstance(p, Hole):
                            uses_regex = True
                            if not p.source.startswith("re.escape("):
                                run.refuted("C14.R1", f.name, n, f"the page name `{p.source}` is interpolated into a regular expression without re.escape: "
                                            "'.', '+', '(' ... in a page name change what is matched", file=f.file, node=n)
        if f.name in ("run_file_rename", "simplify_fname", "strip_zdir") or f.qualname.startswith("zorg.app.runners._run_file."):
            for bad in affix_strip_misuse(f.node):
                run.refuted("C14.R1", f.name, bad, f"`{ast.unparse(bad)}` strips a character set, not the suffix: page names ending in those characters are mangled "
                            "and links are rewritten from/to the wrong name", file=f.file, node=bad)
    run.floor("renames evaluated on concrete pages", concrete_rename(run, model), len(SCENARIOS))
    if uses_regex:
        # the replacement-chain evaluation below is about str.replace chains; a regex rewrite is decided by the concrete-page runs above (and the missing-re.escape rule)
        return

    # ---- R1 / R2b / R3: abstract run
    n_writes = 0
    for src, dest, S, D in SCENARIOS:
        try:
            results = abstract_rename(model, src, dest)
        except Exception as e:
            run.undecided("C14.R1", "run_file_rename", f"cannot interpret the rename abstractly: {type(e).__name__}: {e}")
            return
        want = {(f"[[{S}]", f"[[{D}]"), (f"[[{S}#", f"[[{D}#")}
        want_alt = {(f"[[{S}]]", f"[[{D}]]"), (f"[[{S}#", f"[[{D}#")}
        seen_write = False
        for v, trace, imprecise, derived, s in results:
            if isinstance(v, Raised):
                run.undecided("C14.R1", "run_file_rename", f"rename {src} -> {dest}: raises {v.exc}")
                continue
            if imprecise:
                run.undecided("C14.R1", "run_file_rename", f"rename {src} -> {dest}: " + "; ".join(imprecise[:2]))
                continue
            reads = {e[1]: e[2] for e in trace if e[0] == "read"}
            renames = [i for i, e in enumerate(trace) if e[0] == "rename"]
            for i, e in enumerate(trace):
                if e[0] != "write":
                    continue
                seen_write = True
                n_writes += 1
                run.check("C14.R3", f"{src} -> {dest}: the page is renamed before links are rewritten", bool(renames) and renames[0] < i, "run_file_rename", "rename order",
                          "links are rewritten before / without renaming the page", file=FILE, node=fi.node)
                t = e[2]
                chain = []
                cur = getattr(t, "tid", None)
                ok_src = True
                while cur is not None and cur != reads.get(e[1]):
                    d = derived.get(cur)
                    if d is None:
                        ok_src = False
                        break
                    chain.append((d[1], d[2]))
                    cur = d[0]
                run.check("C14.R2", f"{src} -> {dest}: a file is rewritten from its own content", ok_src and e[1] in reads, "run_file_rename", "write source",
                          "the text written to a file does not derive from the text read from that same file", file=FILE, node=fi.node)
                ops = {c[0] for c in chain}
                pairs = {tuple(c[1][:2]) for c in chain if c[0] == "replace" and len(c[1]) >= 2}
                only_replace = ops <= {"replace"}
                good = only_replace and pairs in (want, want_alt)
                why = []
                if not only_replace:
                    why.append(f"operations {sorted(ops)} are applied to the content besides str.replace")
                for k, v2 in sorted(pairs - want - want_alt):
                    if not (k.startswith("[[") and k[2:].startswith(S) and k[2 + len(S):] != ""):
                        why.append(f"key {k!r} is not '[[' + {S!r} + a link delimiter (links to pages whose names merely contain, extend or end with the name are rewritten, or none are)")
                    elif not (v2.startswith("[[" + D) and v2[2 + len(D):] == k[2 + len(S):]):
                        why.append(f"{k!r} is replaced by {v2!r}, which does not mirror it with the destination name {D!r}")
                    else:
                        why.append(f"unexpected replacement {k!r} -> {v2!r}")
                for k, v2 in sorted((want - pairs) if not (pairs & (want_alt - want)) else (want_alt - pairs)):
                    why.append(f"links of the form {k!r}... are not rewritten")
                run.check("C14.R1", f"{src} -> {dest}: replacements are exactly {sorted(want)}", good, "run_file_rename", f"{src}->{dest}: {sorted(pairs)}",
                          f"renaming {src!r} to {dest!r} rewrites file contents with {sorted(pairs)}: " + "; ".join(why), file=FILE, node=fi.node)
            for i in renames:
                _, a, b = trace[i]
                ok = src.split(".")[0].split("/")[-1] in repr(a) and dest.split(".")[0].split("/")[-1] in repr(b) and dest.split("/")[-1].split(".")[0] not in repr(a)
                run.check("C14.R3", f"{src} -> {dest}: the page moves from the source to the destination name", ok, "run_file_rename", f"rename {repr(a)[:40]} -> {repr(b)[:40]}",
                          f"the rename goes from {a!r} to {b!r}", file=FILE, node=fi.node)
        if not seen_write:
            run.undecided("C14.R1", "run_file_rename", f"rename {src} -> {dest}: no abstract path writes a file back")
    run.floor("abstract rewrites observed", n_writes, 4)

    # ---- R2: which files
    fa = model.func(F_ALL)
    # by an abstract run: the directory object answers every (r)glob with one marker path per pattern and records the pattern; what the function yields is compared with the markers
    from ..absint import Interp as _I, Raised as _R, State as _S
    from ..absval import HObj as _H, Opaque as _O, Ref as _Ref

    asked: list = []

    def _pm(I2, recv, name, args, kwargs, st, node):
        if recv.cls == "vdir" and name in ("rglob", "glob") and args and isinstance(args[0], str):
            asked.append((name, args[0]))
            return [(st.alloc(_H("list", items=[_O("vfile", f"{name}:{args[0]}")])), st)]
        if recv.cls == "vdir" and name in ("resolve", "absolute", "expanduser"):
            return [(recv, st)]
        return None

    def _call_any(I2, fv, args, kwargs, st, node):
        if fv.cls in ("ext:pathlib.Path", "ext:pathlib.PurePath") and args and isinstance(args[0], _O) and args[0].cls == "vdir":
            return [(args[0], st)]
        return None

    I_all = _I(model, probes={"method:vdir": _pm, "method:*": _pm, "call:*": _call_any})
    globs, nonrec, yielded = None, [], None
    try:
        res_all = I_all.run_function(F_ALL, [_O("vdir", "/Z")], st=_S())
    except Exception as e:  # noqa: BLE001
        res_all = None
        run.undecided("C14.R2", "get_all_zfiles", f"cannot interpret: {type(e).__name__}: {str(e)[:100]}")
    if res_all is not None:
        if len(res_all) != 1 or isinstance(res_all[0][0], _R):
            run.undecided("C14.R2", "get_all_zfiles", f"{len(res_all)} outcomes / raises on a concrete directory")
        else:
            v_all, st_all = res_all[0]
            items = I_all.B.iter_values(I_all, v_all, st_all)
            if items is None or st_all.imprecise:
                run.undecided("C14.R2", "get_all_zfiles", "; ".join(st_all.imprecise[:2]) or f"returns {v_all!r}, which cannot be iterated abstractly")
            else:
                yielded = sorted(x.tag if isinstance(x, _O) else repr(x) for x in items)
                pats = sorted(p[3:] if (n == "glob" and p.startswith("**/")) else p for n, p in asked)
                nonrec = [p for n, p in asked if n == "glob" and not p.startswith("**/")]
                globs = pats
                run.check("C14.R2", "all *.zo, *.zot and *.zoq files are visited recursively", globs == ["*.zo", "*.zoq", "*.zot"] and not nonrec, "get_all_zfiles", f"globs {globs}",
                          f"get_all_zfiles visits {globs}{' (non-recursive glob used)' if nonrec else ''}, not exactly *.zo, *.zot, *.zoq recursively", file=fa.file, node=fa.node)
                want_y = sorted(f"{n}:{p}" for n, p in asked)
                run.check("C14.R2", "get_all_zfiles yields every file its globs found, once", yielded == want_y, "get_all_zfiles", f"yields {yielded}",
                          f"get_all_zfiles yields {yielded} for globs answering {want_y}: files found are dropped or repeated (links inside dropped files keep the old name)", file=fa.file, node=fa.node)
    from ..util import filtering_constructs

    flt = [x for x in filtering_constructs(fa.node)]
    run.check("C14.R2", "get_all_zfiles hands on every file the globs found", not flt, "get_all_zfiles", flt[0] if flt else "unfiltered",
              f"get_all_zfiles drops some of the files it found (`{ast.unparse(flt[0])[:80] if flt else ''}`): links to the renamed page inside those files keep the old name", file=fa.file, node=flt[0] if flt else fa.node)
    run.check("C14.R2", "the rewrite visits get_all_zfiles", F_ALL in model.reachable([F_RENAME]), "run_file_rename", "rewrite loop", "the rename operation never calls get_all_zfiles()", file=FILE, node=fi.node)
    fl = flat_info(model, F_RENAME)
    loops = [n for n in walk_no_nested(fl.node) if isinstance(n, ast.For) and any(model.callee(fl, c) == F_ALL for c in ast.walk(n.iter) if isinstance(c, ast.Call))]
    if loops:
        flt2 = [x for x in filtering_constructs(ast.Module(body=[ast.Expr(value=loops[0].iter)], type_ignores=[]))]
        run.check("C14.R2", "the rewrite loop iterates get_all_zfiles unfiltered", not flt2, "run_file_rename", loops[0].iter, f"the rewrite loop iterates `{ast.unparse(loops[0].iter)[:80]}`", file=FILE, node=loops[0])
    run.units = dict(functions=[f.qualname for f in slice_], scenarios=len(SCENARIOS))
    run.assumptions += ["str.replace replaces every non-overlapping occurrence and nothing else", "Path.rglob semantics",
                        "the abstract run is parametric in the page names (markers); name-dependent mistakes are covered by the strip / regex rules and by markers ending in o, z and containing a dot"]


def _norm_t(h: Hole) -> tuple:
    return tuple(t.replace("dest", "X").replace("src", "X") for t in h.transforms)


def _derives_by_replace(loop: ast.For, written: ast.expr, read_call: ast.Call) -> bool:
    """written name <- (name.replace(..))* <- read_text() within the loop body."""
    if not isinstance(written, ast.Name):
        return False
    cur = {written.id}
    read_var = None
    for n in ast.walk(loop):
        if isinstance(n, ast.Assign) and n.value is read_call and isinstance(n.targets[0], ast.Name):
            read_var = n.targets[0].id
    if read_var is None:
        return False
    for _ in range(6):
        nxt = set(cur)
        for n in ast.walk(loop):
            if isinstance(n, ast.Assign) and isinstance(n.targets[0], ast.Name) and n.targets[0].id in cur:
                v = n.value
                if v is read_call:
                    continue
                if isinstance(v, ast.Name):
                    nxt.add(v.id)
                elif isinstance(v, ast.Call) and isinstance(v.func, ast.Attribute) and v.func.attr == "replace" and isinstance(v.func.value, ast.Name):
                    nxt.add(v.func.value.id)
                else:
                    return False
        if nxt == cur:
            break
        cur = nxt
    return read_var in cur


def _cfg_deps(fn: ast.FunctionDef, expr: ast.expr) -> set[str]:
    """cfg.<attr> names an expression depends on through local assignments."""
    assigns: dict[str, list[ast.expr]] = {}
    for n in walk_no_nested(fn):
        if isinstance(n, ast.Assign) and len(n.targets) == 1 and isinstance(n.targets[0], ast.Name):
            assigns.setdefault(n.targets[0].id, []).append(n.value)
    seen: set[str] = set()
    out: set[str] = set()
    stack = [expr]
    while stack:
        e = stack.pop()
        for n in ast.walk(e):
            if isinstance(n, ast.Attribute) and isinstance(n.value, ast.Name) and n.value.id == "cfg":
                out.add(n.attr)
            elif isinstance(n, ast.Name) and n.id in assigns and n.id not in seen:
                seen.add(n.id)
                stack.extend(assigns[n.id])
    return out


# --------------------------------------------------------------------------------------------------------------
# Abstract run of the rename operation: page names are concrete markers, the notes directory is "/Z", every file's
# content is an opaque text.  Library objects (Path, logging) are uninterpreted terms; what is observed is the
# sequence of effects: rename(src -> dest), and for the visited file the chain of str.replace calls between the
# text that was read and the text that is written back.
def abstract_rename(model: PyModel, src: str, dest: str):
    from ..absint import Interp, Raised, State
    from ..absval import HObj, Opaque, Ref, Term, Text, new_text

    events: list = []

    def fz(I, v, st):
        return I.B.freeze_term(I, v, st)

    def call_any(I, fv, args, kwargs, st, node):
        if fv.cls.startswith("ext:"):
            return [(Term(fv.cls[4:].split(".")[-1], tuple(fz(I, a, st) for a in args)), st)]
        return None

    def meth_opaque(I, recv, name, args, kwargs, st, node):
        if recv.cls == "zfile":
            if name in ("read_text",):
                t = new_text({"CONTENT"}, "content")
                st.trace.append(("read", recv.tag, t.tid))
                return [(t, st)]
            if name == "write_text":
                st.trace.append(("write", recv.tag, args[0]))
                return [(None, st)]
            return [(Opaque("zfile." + name, recv.tag), st)]
        if recv.cls.startswith("ext:"):
            is_log = ("ogger" in recv.cls or "logrus" in recv.cls) and name in ("debug", "info", "warning", "warn", "error", "exception", "critical", "log", "bind")
            return [(None if is_log else Term(recv.cls[4:] + "." + name, tuple(fz(I, a, st) for a in args)), st)]
        return None

    def all_files(I, args, kwargs, st, node):
        return [(st.alloc(HObj("list", items=[Opaque("zfile", "F1")])), st)]

    def term_method_hook(I, recv, name, args, kwargs, st, node):
        return None

    def term_method(I, recv, name, args, kwargs, st, node):
        if name == "rename" and args:
            st.trace.append(("rename", recv, fz(I, args[0], st)))
            return [(None, st)]
        return None

    probes = {"method:*": meth_opaque, "call:*": call_any, F_ALL: all_files, "method:term": term_method,
              "binop": lambda I, op, l, r, st: Term({ast.Div: "/"}.get(type(op), type(op).__name__), (fz(I, l, st), fz(I, r, st)))}
    I = Interp(model, probes=probes, max_states=4000)
    st = State()
    cfg = st.alloc(HObj("obj", cls="zorg.app.config.FileRenameConfig", fields=dict(src_name=src, dest_name=dest, zettel_dir="/Z", command="rename")))
    out = []
    for v, s in I.run_function(F_RENAME, [cfg], st=st):
        out.append((v, list(s.trace), list(s.imprecise), dict(s.meta.get("derived", {})), s))
    return out
