"""C14 -- `file rename` retargets every link to the page and nothing else."""

from __future__ import annotations

import ast

from ..core import Run
from ..effects import Effects
from ..paths import enum_paths, first_index
from ..pymodel import PyModel, walk_no_nested
from ..shapes import Const, Hole, ShapeEval, render
from ..util import affix_strip_misuse, base_name, find_calls, int_eval

F_RENAME = "zorg.app.runners._run_file.run_file_rename"
F_SIMPLIFY = "zorg.shared.common.simplify_fname"
F_ALL = "zorg.shared.common.get_all_zfiles"
FILE = "src/zorg/app/runners/_run_file.py"


def _pairs(run: Run, model: PyModel, fi) -> list[tuple[ast.expr, ast.expr, ast.AST]]:
    """(old, new, site) expression pairs of every textual replacement applied to file contents."""
    fn = fi.node
    out = []
    dicts = {}
    for n in walk_no_nested(fn):
        if isinstance(n, ast.Assign) and isinstance(n.value, ast.Dict) and isinstance(n.targets[0], ast.Name):
            dicts[n.targets[0].id] = n.value
    for n in walk_no_nested(fn):
        if isinstance(n, ast.Call) and isinstance(n.func, ast.Attribute) and n.func.attr == "replace" and len(n.args) >= 2:
            a, b = n.args[0], n.args[1]
            if isinstance(a, ast.Name) and isinstance(b, ast.Name):
                # for a, b in M.items()
                loop = None
                for f in walk_no_nested(fn):
                    if isinstance(f, ast.For) and isinstance(f.target, ast.Tuple) and [getattr(e, "id", None) for e in f.target.elts] == [a.id, b.id] and any(x is n for x in ast.walk(f)):
                        loop = f
                if loop is not None and isinstance(loop.iter, ast.Call) and isinstance(loop.iter.func, ast.Attribute) and loop.iter.func.attr == "items":
                    m = base_name(loop.iter.func.value)
                    if m in dicts:
                        for k, v in zip(dicts[m].keys, dicts[m].values):
                            out.append((k, v, n))
                        continue
            out.append((a, b, n))
    return out


def check(run: Run) -> None:
    model = PyModel(run.repo)
    eff = Effects(model)
    run.rule("C14.R1", "every replacement key is '[[' + <source link name> + <non-empty delimiter>, the delimiters cover ']' and '#', the value mirrors the key with the destination name; names are derived by exact suffix removal; regex patterns must escape the name")
    run.rule("C14.R2", "scope: get_all_zfiles globs exactly *.zo, *.zot, *.zoq recursively and the rewrite loop iterates it; each file is rewritten from its own content")
    run.rule("C14.R3", "order: the rename of the page precedes the rewrites and goes from the source name to the destination name")
    fi = model.func(F_RENAME)
    fn = fi.node
    se = ShapeEval(model, fi)

    # regexes built from the page name
    for n in walk_no_nested(fn):
        if isinstance(n, ast.Call) and ast.unparse(n.func) in ("re.compile", "re.sub", "re.subn", "re.search", "re.match", "re.findall", "re.finditer"):
            for sh in se.eval(n.args[0]):
                for p in sh:
                    if isinstance(p, Hole) and not p.source.startswith("re.escape("):
                        run.refuted("C14.R1", "run_file_rename", n, f"the page name `{p.source}` is interpolated into a regular expression without re.escape: "
                                    "'.', '+', '(' ... in a page name change what is matched", file=FILE, node=n)
    uses_regex = any(isinstance(n, ast.Call) and ast.unparse(n.func).startswith("re.") for n in walk_no_nested(fn))
    if uses_regex:
        # a regex-based rewrite may be perfectly fine (with re.escape); its matching
        # behaviour is outside what the str.replace shape rules can decide.
        run.undecided("C14.R1", "run_file_rename", "link rewriting through regular expressions is outside the recognised (str.replace) shape; "
                      "only the missing-re.escape rule is decided")
        return

    pairs = _pairs(run, model, fi)
    run.floor("replacement pairs", len(pairs), 2)
    delims = set()
    for old, new, site in pairs:
        olds, news = se.eval(old), se.eval(new)
        for osh in olds:
            ok_shape = len(osh) == 3 and isinstance(osh[0], Const) and osh[0].text == "[[" and isinstance(osh[1], Hole) and isinstance(osh[2], Const) and osh[2].text != ""
            if not ok_shape:
                run.refuted("C14.R1", "run_file_rename", old, f"replacement key `{render(osh)}` is not '[[' + name + delimiter: without a closing delimiter "
                            "links to pages whose names merely start with the old name are rewritten too", file=FILE, node=site)
                continue
            d = osh[2].text
            run.check("C14.R1", f"key {render(osh)!r} ends in a link delimiter", d[0] in "]#", "run_file_rename", old,
                      f"delimiter {d!r} after the page name is neither ']' nor '#'", file=FILE, node=site)
            run.check("C14.R1", f"key {render(osh)!r} is built from the source name", "src" in osh[1].source and "dest" not in osh[1].source, "run_file_rename", old,
                      f"replacement key uses `{osh[1].source}` instead of the source page name", file=FILE, node=site)
            delims.add(d[0])
            mirrored = False
            for nsh in news:
                if len(nsh) == 3 and isinstance(nsh[0], Const) and nsh[0].text == "[[" and isinstance(nsh[1], Hole) and isinstance(nsh[2], Const) and nsh[2].text == d:
                    same_chain = nsh[1].transforms == osh[1].transforms or _norm_t(nsh[1]) == _norm_t(osh[1])
                    if "dest" in nsh[1].source and same_chain:
                        mirrored = True
            run.check("C14.R1", f"value of {render(osh)!r} mirrors the key with the destination name", mirrored, "run_file_rename", new,
                      f"replacement `{render(osh)}` -> `{', '.join(render(x) for x in news)}` does not mirror the key (same delimiter, destination name derived the same way)",
                      file=FILE, node=site)
    run.check("C14.R1", "both link forms [[A]] and [[A#anchor]] are covered", {"]", "#"} <= delims, "run_file_rename", f"delimiters {sorted(delims)}",
              f"only the delimiters {sorted(delims)} are rewritten: links of the other form keep pointing at the old name", file=FILE, node=fn)
    # exact suffix removal
    fs = model.func(F_SIMPLIFY)
    for f in (fi, fs):
        for bad in affix_strip_misuse(f.node):
            run.refuted("C14.R1", f.name, bad, f"`{ast.unparse(bad)}` strips a character set, not the suffix: page names ending in those characters are mangled "
                        "and links are rewritten from/to the wrong name", file=f.file, node=bad)
    guards = [n for n in walk_no_nested(fs.node) if isinstance(n, ast.If) and find_calls(n.test, "endswith")]
    ok = False
    for g in guards:
        suf = find_calls(g.test, "endswith")[0].args[0]
        if isinstance(suf, ast.Constant):
            for s in ast.walk(g):
                if isinstance(s, ast.Subscript) and isinstance(s.slice, ast.Slice) and s.slice.upper is not None and s.slice.lower is None:
                    if int_eval(s.slice.upper, {}) == -len(suf.value):
                        ok = True
                if isinstance(s, ast.Call) and isinstance(s.func, ast.Attribute) and s.func.attr == "removesuffix" and s.args and isinstance(s.args[0], ast.Constant) and s.args[0].value == suf.value:
                    ok = True
    if not guards:
        ok = any(isinstance(s, ast.Call) and isinstance(s.func, ast.Attribute) and s.func.attr == "removesuffix" for s in ast.walk(fs.node))
    run.check("C14.R1", "simplify_fname removes exactly the '.zo' suffix", ok, "simplify_fname", "suffix removal",
              "simplify_fname does not remove exactly the tested suffix", file=fs.file, node=fs.node)
    run.sample(dict(rule="C14.R1", pairs=[(render(se.eval(o)[0]), render(se.eval(n)[0])) for o, n, _ in pairs]))

    # ---- R2
    fa = model.func(F_ALL)
    globs = sorted(c.args[0].value for c in find_calls(fa.node, "rglob") if c.args and isinstance(c.args[0], ast.Constant))
    nonrec = find_calls(fa.node, "glob")
    run.check("C14.R2", "all *.zo, *.zot and *.zoq files are visited recursively", globs == ["*.zo", "*.zoq", "*.zot"] and not nonrec, "get_all_zfiles", f"globs {globs}",
              f"get_all_zfiles visits {globs}{' (non-recursive glob used)' if nonrec else ''}, not exactly *.zo, *.zot, *.zoq recursively", file=fa.file, node=fa.node)
    from ..util import filtering_constructs

    flt = filtering_constructs(fa.node)
    run.check("C14.R2", "get_all_zfiles hands on every file the globs found", not flt, "get_all_zfiles", flt[0] if flt else "unfiltered",
              f"get_all_zfiles drops some of the files it found (`{ast.unparse(flt[0])[:80] if flt else ''}`): links to the renamed page inside those files keep the old name", file=fa.file, node=flt[0] if flt else fa.node)
    loops = [n for n in walk_no_nested(fn) if isinstance(n, ast.For) and any(model.callee(fi, c) == F_ALL for c in ast.walk(n.iter) if isinstance(c, ast.Call))]
    run.check("C14.R2", "the rewrite loop iterates get_all_zfiles", len(loops) == 1, "run_file_rename", "rewrite loop", "the rewrite loop does not iterate get_all_zfiles()", file=FILE, node=fn)
    if len(loops) == 1:
        loop = loops[0]
        var = loop.target.id if isinstance(loop.target, ast.Name) else None
        reads = [c for c in find_calls(loop, "read_text") if base_name(c.func.value) == var]
        writes = [c for c in find_calls(loop, "write_text")]
        ok = bool(reads) and len(writes) == 1 and base_name(writes[0].func.value) == var
        run.check("C14.R2", "each file is read and written back in place", ok, "run_file_rename", writes[0] if writes else "no write",
                  "a file is not rewritten in place from its own content", file=FILE, node=loop)
        if ok:
            # the written text derives from the read text through replace() only
            w = writes[0].args[0]
            chain_ok = _derives_by_replace(loop, w, reads[0])
            run.check("C14.R2", "the written text is the read text with only the link replacements applied", chain_ok, "run_file_rename", w,
                      "the text written back is not the file's own content with only str.replace applied", file=FILE, node=writes[0])
    # ---- R3
    n_p = 0
    for p in enum_paths(fn):
        r = first_index(p, lambda n: isinstance(n, ast.Call) and isinstance(n.func, ast.Attribute) and n.func.attr == "rename")
        w = first_index(p, lambda n: isinstance(n, ast.Call) and isinstance(n.func, ast.Attribute) and n.func.attr == "write_text")
        if w >= 0:
            n_p += 1
            run.check("C14.R3", "rename precedes link rewriting", 0 <= r < w, "run_file_rename", "rename order", "links are rewritten before/without renaming the page", file=FILE, node=fn)
    ren = find_calls(fn, "rename")
    if len(ren) == 1:
        s_deps = _cfg_deps(fn, ren[0].func.value)
        d_deps = _cfg_deps(fn, ren[0].args[0])
        s_ok = "src_name" in s_deps and "dest_name" not in s_deps
        d_ok = "dest_name" in d_deps and "src_name" not in d_deps
        run.check("C14.R3", "the page moves from the source name to the destination name", s_ok and d_ok, "run_file_rename", ren[0],
                  "the rename does not go from cfg.src_name to cfg.dest_name", file=FILE, node=ren[0])
    else:
        run.undecided("C14.R3", "run_file_rename", f"expected one rename, found {len(ren)}")
    run.units = dict(functions=[F_RENAME, F_SIMPLIFY, F_ALL], pairs=len(pairs))
    run.assumptions += ["str.replace replaces every non-overlapping occurrence and nothing else", "Path.rglob semantics"]


def _norm_t(h: Hole) -> tuple:
    return tuple(t.replace("dest", "X").replace("src", "X") for t in h.transforms)


def _derives_by_replace(loop: ast.For, written: ast.expr, read_call: ast.Call) -> bool:
    """written name <- (name.replace(..))* <- read_text() within the loop body."""
    if not isinstance(written, ast.Name):
        return False
    cur = {written.id}
    read_var = None
    for n in ast.walk(loop):
        if isinstance(n, ast.Assign) and n.value is read_call and isinstance(n.targets[0], ast.Name):
            read_var = n.targets[0].id
    if read_var is None:
        return False
    for _ in range(6):
        nxt = set(cur)
        for n in ast.walk(loop):
            if isinstance(n, ast.Assign) and isinstance(n.targets[0], ast.Name) and n.targets[0].id in cur:
                v = n.value
                if v is read_call:
                    continue
                if isinstance(v, ast.Name):
                    nxt.add(v.id)
                elif isinstance(v, ast.Call) and isinstance(v.func, ast.Attribute) and v.func.attr == "replace" and isinstance(v.func.value, ast.Name):
                    nxt.add(v.func.value.id)
                else:
                    return False
        if nxt == cur:
            break
        cur = nxt
    return read_var in cur


def _cfg_deps(fn: ast.FunctionDef, expr: ast.expr) -> set[str]:
    """cfg.<attr> names an expression depends on through local assignments."""
    assigns: dict[str, list[ast.expr]] = {}
    for n in walk_no_nested(fn):
        if isinstance(n, ast.Assign) and len(n.targets) == 1 and isinstance(n.targets[0], ast.Name):
            assigns.setdefault(n.targets[0].id, []).append(n.value)
    seen: set[str] = set()
    out: set[str] = set()
    stack = [expr]
    while stack:
        e = stack.pop()
        for n in ast.walk(e):
            if isinstance(n, ast.Attribute) and isinstance(n.value, ast.Name) and n.value.id == "cfg":
                out.add(n.attr)
            elif isinstance(n, ast.Name) and n.id in assigns and n.id not in seen:
                seen.add(n.id)
                stack.extend(assigns[n.id])
    return out
