"""C03 -- a WHERE filter returns exactly the indexed notes that satisfy it."""

from __future__ import annotations

import ast

from ..absint import Raised, State
from ..absval import EnumV, HObj, Opaque, Term, Text, new_text
from ..core import Run
from ..pymodel import PyModel, walk_no_nested
from ..shapes import Const, Hole, ShapeEval, render
from ..sqlterms import AF, FIELDS, QC, and_filter, connective_args, converter, find, heads, make_interp, norm, obj, run_helper, subterms
from ..util import find_calls, kwarg

FILE = "src/zorg/storage/sql/_query_converter.py"
T = "zorg.domain.types"
NEG_PAIRS = {".in_": ".not_in", ".like": ".not_like", ".ilike": ".not_ilike"}
NEG_INV = {v: k for k, v in NEG_PAIRS.items()}


def E(cls: str, name: str, value=None) -> EnumV:
    return EnumV(f"{T}.{cls}", name, value)


def _single(run: Run, rule: str, what: str, res) -> list:
    out = []
    for v, s in res:
        noise = [x for x in s.imprecise if "abstract iterable" not in x]
        if noise:
            run.undecided(rule, what, "; ".join(noise[:2]))
        if isinstance(v, Raised):
            run.undecided(rule, what, f"raises {v.exc}")
        else:
            out.append(norm(v))
    return out


def _outer(t):
    """(membership head, receiver, rest) of `col.in_(...)`-like atoms."""
    if isinstance(t, Term) and t.head in list(NEG_PAIRS) + list(NEG_INV):
        return t.head, t.args
    return None, None


def _invoked_helpers(run: Run, model: PyModel) -> list[str]:
    """Abstract run of to_sql_where with every other converter method replaced by a marker clause: which helpers are invoked on the converter
    (whatever holds the registry: decorator list, tuple of methods, explicit calls), each once, and every clause ends up under the AND."""
    I = make_interp(model)
    called: list[str] = []
    for m in model.cls(AF).methods.values():
        if m.name == "to_sql_where" or m.name.startswith("__"):
            continue

        def hook(I2, args, kwargs, st, node, _q=m.qualname):
            called.append(_q)
            return [(Term("clause", (_q.split(".")[-1],)), st)]

        I.probes[m.qualname] = hook
    st = State()
    self_ = converter(st, and_filter(st))
    try:
        res = I.run_function(f"{AF}.to_sql_where", [self_], st=st)
    except Exception as e:  # noqa: BLE001
        run.undecided("C03.R1", "to_sql_where", f"cannot interpret: {type(e).__name__}: {str(e)[:100]}")
        return []
    tw = model.func(f"{AF}.to_sql_where")
    if len(res) != 1 or res[0][1].imprecise or isinstance(res[0][0], Raised):
        run.undecided("C03.R1", "to_sql_where", ("; ".join(res[0][1].imprecise[:2]) or repr(res[0][0])) if res else "no result")
        return list(dict.fromkeys(called))
    v = res[0][0]
    marks = [t.args[0] for t in subterms(v) if isinstance(t, Term) and t.head == "clause"]
    top = [v] if isinstance(v, Term) and v.head == "clause" else connective_args(v, "and_")
    ok = len(called) == len(set(called)) and sorted(marks) == sorted(q.split(".")[-1] for q in called) and top is not None and len(top) == len(marks)
    run.check("C03.R1", "to_sql_where invokes every helper once and ANDs all their clauses", ok, "to_sql_where", f"invoked {[q.split('.')[-1] for q in called]} -> {v!r}"[:200],
              f"to_sql_where invokes {[q.split('.')[-1] for q in called]} and returns `{v!r}`"[:400] + ": a helper's clause is dropped, duplicated or not AND-ed", file=FILE, node=tw.node)
    return list(dict.fromkeys(called))


def check(run: Run) -> None:
    model = PyModel(run.repo)
    run.rule("C03.R1", "field coverage: every WhereAndFilter field is read by exactly one registered helper; to_sql_where iterates the registry; a helper returns None only when its fields are empty")
    run.rule("C03.R2", "connective structure and column pairing, by symbolic evaluation of each helper: OR over kinds/priorities/alternatives/link forms, AND over everything else; right columns, models and operators")
    run.rule("C03.R3", "negation is complement: the negated form differs from the positive form in exactly the outermost membership operator; negated comparisons use the complementary operator and keep `in_`")
    run.rule("C03.R4", "LIKE literalness: every pattern built from query text escapes backslash, % and _ (minus the granted glob) and passes escape=")
    run.rule("C03.R5", "typed comparison table: DATE/INTEGER/STRING pair a column cast with the matching value conversion; BASIC maps to NULL and is compared with ==")
    run.rule("C03.R6", "what the converter is handed: the query compiler's atom tables (tag / property / text / file / link atoms: negation bit, operator, case flag, value as written) "
                       "are the C04.R1 and C04.R4 obligations, adopted here because `returns exactly the matching notes` starts from the query text")
    from . import c04

    sub = Run("C04", run.tier, run.repo)
    c04.check(sub)
    run.floor("adopted compiler obligations", run.adopt(sub, ("C04.R1", "C04.R4"), "C03.R6"), 40)
    I = make_interp(model)
    run.watch(I)
    helpers = _invoked_helpers(run, model)
    run.floor("SQL helpers invoked by to_sql_where", len(helpers), 9)

    # ---------------------------------------------------------------- R1
    waf = model.cls("zorg.domain.models._query.WhereAndFilter")
    fields = [k for k, a in waf.fields.items() if a is not None]
    run.floor("WhereAndFilter fields", len(fields), 13)
    readers: dict[str, list[str]] = {f: [] for f in fields}
    for q in model.cls(AF).methods.values():
        if q.name in ("to_sql_where",):
            continue
        reads = {n.attr for n in ast.walk(q.node) if isinstance(n, ast.Attribute) and isinstance(n.value, ast.Attribute) and n.value.attr == "and_filter"}
        for f in reads:
            if f in readers:
                readers[f].append(q.qualname)
    for f in fields:
        rs = readers[f]
        reg = [r for r in rs if r in helpers]
        run.check("C03.R1", f"`{f}` is translated by exactly one helper that to_sql_where invokes", len(rs) == 1 and len(reg) == 1, "_AndFilterToSqlWhere", f"{f}: readers {[r.split('.')[-1] for r in rs]}, invoked {[r.split('.')[-1] for r in reg]}",
                  f"filter field `{f}` is read by {[r.split('.')[-1] for r in rs]} of which {[r.split('.')[-1] for r in reg]} are invoked by to_sql_where (registered with @_to_sql_where_helper): "
                  + ("the filter is silently ignored" if not reg else "it is applied more than once / by the wrong helper"), file=FILE)
    for h in helpers:
        res = run_helper(I, h.split(".")[-1])
        vals = [v for v, _ in res]
        run.check("C03.R1", f"{h.split('.')[-1]} contributes nothing for an empty filter", all(v is None for v in vals) and bool(vals), h.split(".")[-1], f"empty filter -> {vals[:2]}",
                  f"{h.split('.')[-1]} returns {vals[:2]} for a filter with no such atoms", file=FILE)

    # ---------------------------------------------------------------- R2 / R5
    nt = {m.member: m for m in I.B.enum_members(I, model.cls(f"{T}.NoteType"))}
    ts = _single(run, "C03.R2", "note_type", run_helper(I, "note_type", allowed_note_types=[nt["BASIC"], nt["OPEN_TODO"], nt["CLOSED_TODO"]]))
    for t in ts:
        args = connective_args(t, "or_")
        want = {Term("==", (Term("col", ("Note", "todo_status")), None)), Term("==", (Term("col", ("Note", "todo_status")), nt["OPEN_TODO"])),
                Term("==", (Term("col", ("Note", "todo_status")), nt["CLOSED_TODO"]))}
        run.check("C03.R2", "kinds: OR of `todo_status == kind`, a plain note being `todo_status IS NULL`", args is not None and set(args) == want, "note_type", repr(t)[:160],
                  f"kinds {{-, o, x}} translate to `{t!r}`"[:400] + ": expected todo_status == NULL OR == OPEN OR == CLOSED (an IN list never matches NULL, i.e. plain notes)", file=FILE)
    ts = _single(run, "C03.R2", "priority_range", run_helper(I, "priority_range", priorities=["P1", "P2"]))
    for t in ts:
        want = {Term("==", (Term("col", ("Note", "todo_priority")), p)) for p in ("P1", "P2")}
        args = connective_args(t, "or_")
        run.check("C03.R2", "priorities: OR of `todo_priority == Pn`", args is not None and set(args) == want, "priority_range", repr(t)[:160],
                  f"priorities {{P1,P2}} translate to `{t!r}`"[:300], file=FILE)
    pairing = {"areas": ("AreaLink", "Area"), "contexts": ("ContextLink", "Context"), "people": ("PersonLink", "Person"), "projects": ("ProjectLink", "Project")}
    for f, (link, mdl) in pairing.items():
        for neg in (False, True):
            ts = _single(run, "C03.R2", "tags", run_helper(I, "tags", **{f: ["-x" if neg else "x", "y"]}))
            for t in ts:
                args = connective_args(t, "and_")
                ok = args is not None and len(args) == 2
                detail = repr(t)[:300]
                if ok:
                    hs = sorted(a.head for a in args)
                    ok = hs == sorted([".not_in" if neg else ".in_", ".in_"])
                    for a in args:
                        classes = [c.qualname.split(".")[-1] for c in subterms(a) if hasattr(c, "qualname")]
                        eqs = [e for e in find(a, "==") if e.args[0] == Term("col", (mdl, "name"))]
                        names = {e.args[1] for e in eqs}
                        ok = ok and classes == [link, mdl] and len(eqs) == 1 and names <= {"x", "y"} and a.args[0] == Term("col", ("Note", "id"))
                run.check("C03.R2", f"{f} ({'negated' if neg else 'positive'}): AND of presence tests through {link}/{mdl}.name", ok, "tags", f"{f} neg={neg}: {detail}",
                          f"`{f}` filter {{{'-x' if neg else 'x'}, y}} translates to `{detail}`: expected Note.id {'NOT IN' if neg else 'IN'} (..{link}..{mdl}.name == 'x') AND Note.id IN (.. == 'y')", file=FILE)
    dr = lambda s, e: (lambda st: [obj(st, "DateRange", start=Opaque(s), end=(Opaque(e) if e else None))])
    for f, col in (("create_date_ranges", "create_date"), ("modify_date_ranges", "modify_date")):
        for end in (None, "E"):
            ts = _single(run, "C03.R2", "date_ranges", run_helper(I, "date_ranges", **{f: dr("S", end)}))
            for t in ts:
                want = {Term(">=", (Term("col", ("Note", col)), Opaque("S"))), Term("<=", (Term("col", ("Note", col)), Opaque(end or "S")))}
                args = connective_args(t, "and_")
                run.check("C03.R2", f"{f}: start <= Note.{col} <= {'end' if end else 'start (single day)'}", args is not None and set(args) == want, "date_ranges", f"{f} end={end}: {t!r}"[:200],
                          f"`{f}` [S..{end or 'S'}] translates to `{t!r}`"[:300] + f": expected Note.{col} >= S AND Note.{col} <= {end or 'S'}", file=FILE)
    # nested OR groups and the top-level select
    def nested(st):
        a1 = and_filter(st, priorities=["P1"])
        a2 = and_filter(st, priorities=["P2"])
        return [obj(st, "zorg.domain.models._query.WhereOrFilter", and_filters=st.alloc(HObj("list", items=[a1, a2])))]
    ts = _single(run, "C03.R2", "or_filters", run_helper(I, "or_filters", or_filters=nested))
    p1, p2 = (Term("==", (Term("col", ("Note", "todo_priority")), p)) for p in ("P1", "P2"))
    for t in ts:
        run.check("C03.R2", "a parenthesised group is the OR of its alternatives", t == Term("or_", tuple(sorted((p1, p2), key=repr))), "or_filters", repr(t)[:200],
                  f"(P1 | P2) translates to `{t!r}`"[:300], file=FILE)
    # two parenthesised groups juxtaposed in one conjunction: (P1 | P2) (P3 | P4) is the AND of the two ORs
    def two_groups(st):
        mk = lambda ps: obj(st, "zorg.domain.models._query.WhereOrFilter", and_filters=st.alloc(HObj("list", items=[and_filter(st, priorities=[p]) for p in ps])))
        return [mk(("P1", "P2")), mk(("P3", "P4"))]
    ts = _single(run, "C03.R2", "or_filters", run_helper(I, "or_filters", or_filters=two_groups))
    P = {p: Term("==", (Term("col", ("Note", "todo_priority")), p)) for p in ("P1", "P2", "P3", "P4")}
    for t in ts:
        args = connective_args(t, "and_")
        got = None if args is None else sorted((sorted(repr(x) for x in (connective_args(a, "or_") or [])) for a in args))
        want = sorted([sorted([repr(P["P1"]), repr(P["P2"])]), sorted([repr(P["P3"]), repr(P["P4"])])])
        run.check("C03.R2", "two juxtaposed groups are the AND of their ORs", got == want, "or_filters", repr(t)[:200],
                  f"(P1 | P2) (P3 | P4) translates to `{t!r}`"[:400] + ": expected (P1 OR P2) AND (P3 OR P4) -- juxtaposition of groups is no longer AND", file=FILE)
    st = State()
    af1 = and_filter(st, priorities=["P1"], areas=["a"])
    af2 = and_filter(st, priorities=["P2"])
    orf = obj(st, "zorg.domain.models._query.WhereOrFilter", and_filters=st.alloc(HObj("list", items=[af1, af2])))
    res = I.run_function(f"{QC}.to_sql_select", [orf, Opaque("session")], st=st)
    for t in _single(run, "C03.R2", "to_sql_select", res):
        ors = find(t, "or_")
        ok = False
        if ors:
            top = max(ors, key=lambda x: len(repr(x)))
            alts = list(top.args)
            ok = len(alts) == 2 and p2 in alts and any(isinstance(a, Term) and a.head == "and_" and p1 in a.args and len(a.args) == 2 for a in alts)
        run.check("C03.R2", "W a b | c  ==  (a AND b) OR c", ok, "to_sql_select", repr(t)[:200], f"`P1 #a | P2` translates to `{t!r}`"[:400], file=FILE)

    # property filters: operator table, casts, negation
    PO = {m.member: m for m in I.B.enum_members(I, model.cls(f"{T}.PropertyOperator"))}
    PV = {m.member: m for m in I.B.enum_members(I, model.cls(f"{T}.PropertyValueType"))}
    run.floor("property operators", len(PO), 6)
    expect_op = {("EQ", False): "eq", ("EQ", True): "ne", ("LT", False): "lt", ("LT", True): "ge", ("GT", False): "gt", ("GT", True): "le",
                 ("LE", False): "le", ("LE", True): "gt", ("GE", False): "ge", ("GE", True): "lt"}
    pf = lambda **kw: (lambda st: [obj(st, "PropertyFilter", **kw)])
    for (opn, neg), want in expect_op.items():
        ts = _single(run, "C03.R3", "property_filters", run_helper(I, "property_filters", property_filters=pf(key="k", value="5", op=PO[opn], value_type=PV["INTEGER"], negated=neg)))
        for t in ts:
            outer, _ = _outer(t)
            cmps = [h for h in heads(t) if h in ("eq", "ne", "lt", "le", "gt", "ge")]
            keyeq = Term("==", (Term("col", ("Property", "name")), "k")) in list(subterms(t))
            run.check("C03.R3", f"k:{opn} {'negated' if neg else 'plain'} compares with `{want}` and keeps the existence requirement", outer == ".in_" and cmps == [want] and keyeq, "property_filters",
                      f"{opn} neg={neg}: outer {outer}, comparison {cmps}",
                      f"property filter {opn} (negated={neg}) translates to outer `{outer}` with comparison {cmps} (key test present: {keyeq}); expected Note.id IN (... name == key AND value {want} ...)", file=FILE)
    for neg in (False, True):
        ts = _single(run, "C03.R3", "property_filters", run_helper(I, "property_filters", property_filters=pf(key="k", value="", op=PO["EXISTS"], value_type=PV["STRING"], negated=neg)))
        for t in ts:
            outer, _ = _outer(t)
            run.check("C03.R3", f"k:* {'negated' if neg else 'plain'} is {'NOT IN' if neg else 'IN'} the notes having the key", outer == (".not_in" if neg else ".in_"), "property_filters", f"EXISTS neg={neg}: {outer}",
                      f"existence filter (negated={neg}) uses `{outer}`", file=FILE)
    # several property filters in one AND group, in both iteration orders (the group is a set: the order is arbitrary at run time): each keeps ITS OWN membership operator and key
    def two(order):
        def mk(st):
            a = obj(st, "PropertyFilter", key="k", value="", op=PO["EXISTS"], value_type=PV["STRING"], negated=True)
            b = obj(st, "PropertyFilter", key="m", value="2", op=PO["GE"], value_type=PV["INTEGER"], negated=False)
            c = obj(st, "PropertyFilter", key="e", value="", op=PO["EXISTS"], value_type=PV["STRING"], negated=False)
            return [(a, b, c), (b, c, a), (c, a, b), (a, c, b)][order]
        return mk

    for order in range(4):
        ts = _single(run, "C03.R2", "property_filters", run_helper(I, "property_filters", property_filters=two(order)))
        for t in ts:
            args = connective_args(t, "and_")
            got = None
            if args is not None:
                got = set()
                for a in args:
                    keys = [e.args[1] for e in find(a, "==") if e.args[0] == Term("col", ("Property", "name"))]
                    got.add((a.head if isinstance(a, Term) else "?", keys[0] if len(keys) == 1 else None))
            want = {(".not_in", "k"), (".in_", "m"), (".in_", "e")}
            run.check("C03.R2", f"!k:* m:>=2 e:* (iteration order {order}): AND of `NOT IN (has k)`, `IN (m >= 2)`, `IN (has e)`", got == want, "property_filters", f"order {order}: {sorted(got, key=repr) if got else t!r}"[:200],
                      f"the property filters `!k:* m:>=2 e:*` of one AND group (iterated in order {order}) translate to {sorted(got, key=repr) if got else repr(t)[:200]}, expected {sorted(want)}: a filter's membership "
                      "operator depends on the filters processed before it (juxtaposition is no longer AND of the individual filters, and the result depends on the set's iteration order)", file=FILE)
    casts = {"DATE": ("date", "from_date_spec"), "INTEGER": ("cast", None), "STRING": (None, None)}
    for vt, (colcast, valconv) in casts.items():
        val = new_text({"V"}, "value") if vt != "INTEGER" else "7"
        ts = _single(run, "C03.R5", "property_filters", run_helper(I, "property_filters", property_filters=pf(key="k", value=val, op=PO["EQ"], value_type=PV[vt], negated=False)))
        for t in ts:
            eqs = find(t, "eq")
            ok = len(eqs) == 1
            if ok:
                l, r = eqs[0].args[0], eqs[0].args[1]
                lcast = l.head.split(".")[-1] if isinstance(l, Term) and l.head != "col" else None
                rconv = r.head if isinstance(r, Term) and r.head not in ("text",) else None
                ok = lcast == colcast and rconv == valconv and Term("col", ("PropertyLink", "value")) in list(subterms(l)) and (vt != "INTEGER" or r == 7)
            run.check("C03.R5", f"{vt} values compare as {vt.lower()}", ok, "property_filters", f"{vt}: {eqs[0] if eqs else t!r}"[:200],
                      f"a {vt} property comparison translates to `{eqs[0] if eqs else t!r}`"[:300] + f": expected column cast {colcast} and value conversion {valconv or ('int' if vt == 'INTEGER' else 'none')}", file=FILE)

    # ---------------------------------------------------------------- R3 text / file / link negation
    DOp = {m.member: m for m in I.B.enum_members(I, model.cls(f"{T}.DescOperator"))}
    def pair(helper: str, mk):
        outs = []
        for neg in (False, True):
            outs.append(_single(run, "C03.R3", helper, run_helper(I, helper, **mk(neg))))
        return outs
    def complement(name: str, pos: list, negs: list, symbol: str) -> None:
        if len(pos) != len(negs) or not pos:
            run.undecided("C03.R3", symbol, f"{name}: {len(pos)} positive vs {len(negs)} negated forms")
            return
        for a, b in zip(sorted(pos, key=repr), sorted(negs, key=repr)):
            ha, aa = _outer(a)
            hb, ab = _outer(b)
            ok = ha is not None and hb == NEG_PAIRS.get(ha) and aa == ab
            run.check("C03.R3", f"!{name} is the complement of {name}", ok, symbol, f"{name}: {ha} vs {hb}; arguments equal: {aa == ab}",
                      f"negating a {name} filter changes `{ha}` into `{hb}` and the rest {'stays equal' if aa == ab else 'CHANGES TOO'}: the negated form must be the positive form "
                      "with only the outermost membership/LIKE operator negated (otherwise it is not the complement)", file=FILE, detail=dict(positive=repr(a)[:300], negated=repr(b)[:300]))
    vtxt = lambda: new_text({"U"}, "user")
    # description filters: case-insensitive path (ilike) and case-sensitive path (post-filtered id list)
    for cs in (False, True):
        p, n = pair("desc_filters", lambda neg: dict(desc_filters=lambda st, neg=neg: [obj(st, "DescFilter", value=vtxt(), case_sensitive=cs, op=DOp["NOT_CONTAINS" if neg else "CONTAINS"])]))
        complement(f"{'c' if cs else ''}'text'", p, n, "desc_filters")
        want_head = ".in_" if cs else ".ilike"
        run.check("C03.R2", f"text filter ({'case-sensitive' if cs else 'case-insensitive'}) uses {want_head}", bool(p) and all(_outer(t)[0] == want_head for t in p), "desc_filters", f"cs={cs}: {[_outer(t)[0] for t in p]}",
                  f"text filter (case_sensitive={cs}) uses {[_outer(t)[0] for t in p]}", file=FILE)
    # smart case (no `c` prefix: case_sensitive is None): text containing an upper-case letter is matched case-sensitively -- all-upper AND mixed case --, all-lower text is not
    for text, want_cs in (("alice", False), ("ALICE", True), ("Alice", True), ("mcDonald 2", True), ("plain text_1", False)):
        ts = _single(run, "C03.R2", "desc_filters", run_helper(I, "desc_filters", desc_filters=lambda st, text=text: [obj(st, "DescFilter", value=text, case_sensitive=None, op=DOp["CONTAINS"])]))
        for t in ts:
            head = _outer(t)[0]
            run.check("C03.R2", f"smart case: '{text}' is matched {'case-sensitively' if want_cs else 'case-insensitively'}", head == (".in_" if want_cs else ".ilike"), "desc_filters", f"'{text}' -> {head}",
                      f"the quoted text '{text}' (no c prefix) is translated through `{head}`, i.e. matched {'case-insensitively' if head == '.ilike' else 'case-sensitively'}; smart case means case-sensitive "
                      "iff the text contains an upper-case letter", file=FILE)
    p, n = pair("file_filters", lambda neg: dict(file_filters=lambda st, neg=neg: [obj(st, "FileFilter", path_glob=vtxt(), negated=neg)]))
    complement("f=glob", p, n, "file_filters")
    run.check("C03.R2", "f= matches Page.path with LIKE", bool(p) and all(_outer(t)[0] == ".like" and _outer(t)[1][0] == Term("col", ("Page", "path")) for t in p), "file_filters", "file filter column",
              "the file filter does not LIKE-match Page.path", file=FILE)

    def notes_probe(I2, args, kwargs, st, node):
        pl = lambda name, v: obj(st, "PropertyLink", prop=obj(st, "Property", name=name), value=new_text({v}, "propvalue"))
        n1 = obj(st, "SqlNote", zid=new_text({"ZID1"}, "zid"), property_links=st.alloc(HObj("list", items=[pl("ID", "ID1"), pl("RID", "RID1"), pl("other", "X")])))
        n2 = obj(st, "SqlNote", zid=new_text({"ZID2"}, "zid"), property_links=st.alloc(HObj("list", items=[pl("RID", "RID2")])))
        return [(st.alloc(HObj("list", items=[n1, n2])), st)]
    I2 = make_interp(model, notes_in_file=notes_probe)
    outs = []
    for neg in (False, True):
        outs.append(_single(run, "C03.R3", "link_filters", run_helper(I2, "link_filters", link_filters=lambda st, neg=neg: [obj(st, "LinkFilter", link=vtxt(), negated=neg)])))
    complement("[[page]]", outs[0], outs[1], "link_filters")
    for t in outs[0]:
        inner = find(t, "or_")
        forms = set()
        if inner:
            for a in max(inner, key=lambda x: len(repr(x))).args:
                if isinstance(a, Term) and a.head == "==" and a.args[0] == Term("col", ("Link", "name")):
                    r = a.args[1]
                    labels = set()
                    for x in subterms(r):
                        if isinstance(x, Term) and x.head == "text":
                            labels |= set(x.args[0])
                    forms.add(("name==", tuple(sorted(labels))))
                elif isinstance(a, Term) and a.head == ".in_" and a.args[0] == Term("col", ("Link", "name")) and len(a.args) == 2 and isinstance(a.args[1], tuple) and a.args[1][:1] == ("list",):
                    for r in a.args[1][1:]:
                        labels = set()
                        for x in subterms(r):
                            if isinstance(x, Term) and x.head == "text":
                                labels |= set(x.args[0])
                        forms.add(("name==", tuple(sorted(labels))))
                elif isinstance(a, Term) and a.head == ".like":
                    forms.add(("like", ()))
        want = {("name==", ("U",)), ("like", ()), ("name==", ("ID1",)), ("name==", ("RID1",)), ("name==", ("RID2",)), ("name==", ("ZID1",)), ("name==", ("ZID2",))}
        missing = sorted(want - forms)
        extra = sorted(forms - want)
        run.check("C03.R2", "[[page]] = name OR name#anchor OR the ID / RID / ZID of every note of the page", not missing and not extra, "link_filters", f"missing {missing}, extra {extra}",
                  f"for a page whose notes are (ID1+RID1, ZID1) and (RID2, ZID2) the link filter lacks the forms {missing} and has the unexpected forms {extra}: "
                  "a note that refers to the page through that handle is not matched", file=FILE)
    # templates of the indirect link names
    for fn, pre in (("_global_link_conds", "global:"), ("_ref_link_conds", "ref:"), ("_zid_link_conds", "zid:")):
        if not model.has_func(f"{QC}.{fn}"):
            continue
        f = model.func(f"{QC}.{fn}")
        se = ShapeEval(model, f)
        shapes = [sh for j in ast.walk(f.node) if isinstance(j, ast.JoinedStr) for sh in se.eval(j)]
        run.check("C03.R2", f"{fn} builds `{pre}<handle>` names", any(sh and isinstance(sh[0], Const) and sh[0].text == pre and len(sh) == 2 for sh in shapes), fn, f"shapes {[render(s) for s in shapes]}",
                  f"{fn} does not build link names of the form {pre}<handle>", file=FILE, node=f.node)

    # ---------------------------------------------------------------- R4 (LIKE literalness, by evaluating the helpers on generic texts)
    like_literalness(run, model, I, I2, DOp)
    ft = model.func(f"{QC}._to_todo_status")
    vals = {m: [v for v, _ in I.run_function(ft.qualname, [nt[m]])] for m in nt}
    ok = all(vals[m] == ([None] if m == "BASIC" else [nt[m]]) for m in nt)
    run.check("C03.R5", "_to_todo_status maps BASIC to NULL and every todo kind to itself", ok, "_to_todo_status", str({k: str(v) for k, v in vals.items()})[:200], f"_to_todo_status gives {vals}", file=FILE)
    run.units = dict(helpers=[h.split(".")[-1] for h in helpers], fields=fields)
    run.trusted = ["SQLAlchemy meaning of and_/or_/in_/not_in/like/ilike/==", "metaman.register_function_factory appends the decorated function to the list"]
    run.assumptions += ["SQL evaluation over index contents is not modelled", "get_only_item uniqueness, smart-case on Unicode not decided"]


def like_literalness(run: Run, model: PyModel, I, I2, DOp) -> None:
    """Each helper that builds a LIKE / ILIKE pattern from query text is evaluated on concrete texts: a neutral one fixes the
    fixed prefix / suffix of the pattern, then texts made of the LIKE metacharacters (% _ and the escape character) must come out
    escaped with the escape character the call passes as `escape=`, and the one granted glob (`*` in f=) must become `%`."""
    LIKE_HEADS = (".like", ".ilike", ".not_like", ".not_ilike", ".notlike", ".notilike")

    def patterns(t):
        out = []
        for x in subterms(t):
            if isinstance(x, Term) and x.head in LIKE_HEADS and len(x.args) >= 2:
                esc = None
                for a in x.args[2:]:
                    if isinstance(a, tuple) and a and a[0] == "kw":
                        esc = dict(a[1:]).get("escape")
                out.append((x.args[1], esc))
            if isinstance(x, Term) and x.head in ("partial",) and x.args and isinstance(x.args[0], Term):
                pass
        return out

    cases = [
        ("text filter (case-insensitive)", I, "desc_filters", lambda v: dict(desc_filters=lambda st: [obj(st, "DescFilter", value=v, case_sensitive=False, op=DOp["CONTAINS"])]), False),
        ("text filter (case-sensitive)", I, "desc_filters", lambda v: dict(desc_filters=lambda st: [obj(st, "DescFilter", value=v, case_sensitive=True, op=DOp["CONTAINS"])]), False),
        ("file filter", I, "file_filters", lambda v: dict(file_filters=lambda st: [obj(st, "FileFilter", path_glob=v, negated=False)]), True),
        ("link filter", I2, "link_filters", lambda v: dict(link_filters=lambda st: [obj(st, "LinkFilter", link=v, negated=False)]), False),
    ]
    n = 0
    for label, interp, helper, mk, glob in cases:
        def pats_for(v, interp=interp, helper=helper, mk=mk):
            def rec(I3, recv, name, args, kwargs, st, node):
                if "." + name in LIKE_HEADS:
                    st.trace.append(("like", args[0] if args else None, kwargs.get("escape")))
                return None

            old = interp.probes.get("method:term")
            interp.probes["method:term"] = rec
            try:
                res = run_helper(interp, helper, **mk(v))
            finally:
                if old is None:
                    interp.probes.pop("method:term", None)
                else:
                    interp.probes["method:term"] = old
            out = []
            for t, s in res:
                if isinstance(t, Raised) or [x for x in s.imprecise if "abstract iterable" not in x]:
                    return None, (f"raises {t.exc}" if isinstance(t, Raised) else "; ".join(s.imprecise[:2]))
                out.append([(p, e) for k, p, e in s.trace if k == "like"])
            return out, None

        base, err = pats_for("a")
        if base is None or not base or not all(base):
            run.undecided("C03.R4", helper, f"{label}: " + (err or "no LIKE pattern found for a neutral text"))
            continue
        # one LIKE pattern per result state is compared position-wise
        for probe_text, what in (("%", "a percent sign"), ("_", "an underscore"), ("\\", "the escape character"), ("x%y_z\\w", "a mix of %, _ and the escape character")) + ((("p*q", "the granted glob *"),) if glob else ()):
            got, err = pats_for(probe_text)
            if got is None or len(got) != len(base):
                run.undecided("C03.R4", helper, f"{label} with {what}: " + (err or "different number of result forms"))
                continue
            for gb, bb in zip(got, base):
                for (gp, gesc), (bp, besc) in zip(gb, bb):
                    n += 1
                    if not (isinstance(gp, str) and isinstance(bp, str) and bp.count("a") == 1):
                        run.undecided("C03.R4", helper, f"{label}: pattern is not a concrete string ({gp!r} / {bp!r})")
                        continue
                    pre, suf = bp.split("a")
                    esc = gesc if isinstance(gesc, str) and len(gesc) == 1 else None
                    if esc is None:
                        run.refuted("C03.R4", helper, f"{label}: LIKE without escape=", f"the {label} builds the LIKE pattern {gp!r} without passing escape=: no metacharacter of the query text can be taken literally "
                                    "(SQLite has no default escape character)", file=FILE)
                        continue
                    want = pre + "".join((esc + ch) if ch in ("%", "_", esc) else ("%" if (glob and ch == "*") else ch) for ch in probe_text) + suf
                    run.check("C03.R4", f"{label}: {what} is taken literally", gp == want, helper, f"{label}: {probe_text!r} -> {gp!r}",
                              f"for the query text {probe_text!r} the {label} builds the LIKE pattern {gp!r} (escape={esc!r}); taking every character literally requires {want!r}: "
                              "'%', '_' or the escape character act as wildcards / swallow the next character", file=FILE)
    run.floor("LIKE patterns evaluated", n, 12)
