"""C08 -- indexing never crashes on any file and never silently drops a broken one."""

from __future__ import annotations

import ast
from typing import Optional

from ..core import Run
from ..decide import formula, single_bool_defs, truth_table
from ..filetypestate import COMPILER, NOTE, run_file_typestate
from ..paths import Path, enum_paths, first_index
from ..pymodel import FuncInfo, PyModel, walk_no_nested
from ..util import base_name, find_calls, kwarg, names_loaded

API = "zorg.service.compiler._api.walk_zorg_page"
FC = "zorg.service.compiler._file_compiler"
H = "zorg.service.handlers"
D = "zorg.shared.dates"
FILE_C = "src/zorg/service/compiler/_file_compiler.py"
FILE_A = "src/zorg/service/compiler/_api.py"

# Reviewed sites: (function, normalised construct) -> why it cannot raise.  One line of reason each.
REVIEWED = {
    "words[0]": "words = text.split(' ') with an explicit separator is never empty",
    "words.pop(0)": "words = text.split(' ') with an explicit separator is never empty",
    "key, value = words[0][1:-1].split('::', maxsplit=1)": "the inline_prop rule contains the tokens COLON COLON, so '::' occurs in its text and maxsplit=1 yields exactly two parts",
}


def _reviewed(fi: FuncInfo, construct: str):
    """Reasons that do not depend on which function the construct lives in (a refactor may move it)."""
    if construct in ("words[0]", "words.pop(0)") and fi.name != "enterInline_prop" and not _never_empty_def(fi.node, "words"):
        return None
    return REVIEWED.get(construct)


def _ctx_rule_of(fi: FuncInfo, e: ast.expr):
    """Grammar rule of an expression denoting a parse-tree context: a parameter annotated `ZorgFileParser.<Rule>Context`, or `<ctx>.<rule>()`."""
    if isinstance(e, ast.Name):
        for a in fi.params():
            if a.arg == e.id and a.annotation is not None:
                import re

                # `ZorgFileParser.<Rule>Context`, possibly wrapped: Optional[...], "...", X | None
                ms = set(re.findall(r"\.(\w+)Context\b", ast.unparse(a.annotation)))
                if len(ms) == 1:
                    r = ms.pop()
                    return r[0].lower() + r[1:]
    if isinstance(e, ast.Call) and isinstance(e.func, ast.Attribute) and not e.args:
        return e.func.attr.rstrip("_")
    return None


def _slice(model: PyModel) -> list[FuncInfo]:
    qs = model.reachable([API])
    return [model.funcs[q] for q in sorted(qs) if q.startswith(("zorg.service.compiler", "zorg.shared.dates"))]


# ------------------------------------------------------------------ N facts along paths
def _use_sites(node: ast.AST):
    """(kind, receiver name, node) for raise-prone list/str operations on a plain variable."""
    for n in ast.walk(node):
        if isinstance(n, ast.Subscript) and isinstance(n.ctx, ast.Load) and not isinstance(n.slice, ast.Slice) and isinstance(n.value, ast.Name):
            if isinstance(n.slice, ast.Constant) and isinstance(n.slice.value, int) or (isinstance(n.slice, ast.UnaryOp) and isinstance(n.slice.operand, ast.Constant)):
                idx = n.slice.value if isinstance(n.slice, ast.Constant) else -n.slice.operand.value
                yield ("index", n.value.id, idx, n)
        if isinstance(n, ast.Call) and isinstance(n.func, ast.Attribute) and n.func.attr == "pop" and isinstance(n.func.value, ast.Name):
            yield ("pop", n.func.value.id, 0, n)


def _never_empty_def(fn: ast.FunctionDef, name: str) -> bool:
    """name is assigned exactly once, from `X.split(<sep>)` (explicit separator => at least one element)."""
    defs = [n.value for n in walk_no_nested(fn) if isinstance(n, ast.Assign) and any(isinstance(t, ast.Name) and t.id == name for t in n.targets)]
    return len(defs) == 1 and isinstance(defs[0], ast.Call) and isinstance(defs[0].func, ast.Attribute) and defs[0].func.attr == "split" and bool(defs[0].args)


_MODULE_CONSTS: dict = {}  # module-level constant tuples / lists of the function being analysed (set by local_obligations)


def _len_fact(e: ast.expr, pol: bool) -> Optional[tuple[str, int]]:
    """Lower bound on len(x) implied by assuming the comparison `e` has truth value `pol`:
    `len(x) == k`, `len(x) in (a, b)`, `len(x) > k`, `k <= len(x) <= m` (chains), the mirrored forms, and the negations of single comparisons."""
    if not isinstance(e, ast.Compare):
        return None
    if not pol and len(e.ops) != 1:
        return None  # a false chain says nothing about either end

    def len_of(x: ast.expr) -> Optional[str]:
        if isinstance(x, ast.Call) and isinstance(x.func, ast.Name) and x.func.id == "len" and len(x.args) == 1 and isinstance(x.args[0], ast.Name):
            return x.args[0].id
        return None

    def const(x: ast.expr) -> Optional[int]:
        return x.value if isinstance(x, ast.Constant) and isinstance(x.value, int) and not isinstance(x.value, bool) else None

    NEG = {ast.Eq: ast.NotEq, ast.NotEq: ast.Eq, ast.Lt: ast.GtE, ast.GtE: ast.Lt, ast.Gt: ast.LtE, ast.LtE: ast.Gt, ast.In: ast.NotIn, ast.NotIn: ast.In}
    MIRROR = {ast.Eq: ast.Eq, ast.NotEq: ast.NotEq, ast.Lt: ast.Gt, ast.Gt: ast.Lt, ast.LtE: ast.GtE, ast.GtE: ast.LtE}
    operands = [e.left] + list(e.comparators)
    best: Optional[tuple[str, int]] = None
    for l, op, r in zip(operands, e.ops, operands[1:]):
        ot = type(op)
        if not pol:
            ot = NEG.get(ot)
            if ot is None:
                continue
        x = len_of(l)
        other = r
        if isinstance(other, ast.Name) and isinstance(_MODULE_CONSTS.get(other.id), (ast.Tuple, ast.List, ast.Set)):
            other = _MODULE_CONSTS[other.id]  # `len(x) in _VALID_LENGTHS`
        if x is None and len_of(r) is not None and ot in MIRROR:
            x, other, ot = len_of(r), l, MIRROR[ot]
        if x is None:
            continue
        bound = None
        k = const(other)
        if ot is ast.Eq and k is not None:
            bound = k
        elif ot is ast.Gt and k is not None:
            bound = k + 1
        elif ot is ast.GtE and k is not None:
            bound = k
        elif ot is ast.In and isinstance(other, (ast.Tuple, ast.List, ast.Set)) and other.elts and all(const(c) is not None for c in other.elts):
            bound = min(const(c) for c in other.elts)
        elif ot is ast.In and isinstance(other, ast.Call) and isinstance(other.func, ast.Name) and other.func.id == "range" and len(other.args) in (2, 3) and const(other.args[0]) is not None \
                and (len(other.args) == 2 or (const(other.args[2]) or 0) > 0):
            bound = const(other.args[0])
        if bound is not None and (best is None or (best[0] == x and bound > best[1])):
            best = (x, bound)
    return best


def _syntactic_guard(fn: ast.FunctionDef, site: ast.AST, name: str, need: int) -> bool:
    """`x[0] if x else d`  /  `x and f(x[0])`  /  `len(x) == k and x[j]` inside ONE expression."""
    from ..util import parent_map

    pm = parent_map(fn)
    cur = site
    while cur in pm:
        par = pm[cur]
        if isinstance(par, ast.IfExp) and cur is par.body:
            t = par.test
            if isinstance(t, ast.Name) and t.id == name and need <= 1:
                return True
            lf = _len_fact(t, True)
            if lf and lf[0] == name and lf[1] >= need:
                return True
        if isinstance(par, ast.BoolOp) and isinstance(par.op, ast.And):
            idx = par.values.index(cur) if cur in par.values else -1
            for earlier in par.values[:max(idx, 0)]:
                if isinstance(earlier, ast.Name) and earlier.id == name and need <= 1:
                    return True
                lf = _len_fact(earlier, True)
                if lf and lf[0] == name and lf[1] >= need:
                    return True
        if isinstance(par, (ast.FunctionDef, ast.Lambda)):
            break
        cur = par
    return False


def local_obligations(run: Run, fi: FuncInfo) -> int:
    """Every `name[k]` / `name.pop()` on a local list/str is dominated by a non-emptiness / length fact."""
    fn = fi.node
    _MODULE_CONSTS.clear()
    stored = {t.id for t in ast.walk(fn) if isinstance(t, ast.Name) and isinstance(t.ctx, ast.Store)} | {a.arg for a in ast.walk(fn) if isinstance(a, ast.arg)}
    _MODULE_CONSTS.update({k: v for k, v in fi.module.assigns.items() if k not in stored and isinstance(v, (ast.Tuple, ast.List, ast.Set))})
    sites_total = {id(n): (k, nm, idx, n) for k, nm, idx, n in _use_sites(fn)}
    if not sites_total:
        return 0
    proved: set[int] = set()
    failed: dict[int, Path] = {}
    try:
        paths = enum_paths(fn, unroll=1)
    except Exception:
        run.undecided("C08.R1", fi.name, "path explosion")
        return 0
    for p in paths:
        nonempty: set[str] = set()
        minlen: dict[str, int] = {}
        for ev in p.events:
            node = ev[1] if ev[0] in ("stmt", "assume", "return", "raise") else (ev[1].iter if ev[0] == "iter" else None)
            if node is None:
                continue
            for k, nm, idx, n in _use_sites(node):
                need = (idx + 1) if idx >= 0 else -idx
                ok = nm in nonempty and need <= 1 or minlen.get(nm, 0) >= need or (_never_empty_def(fn, nm) and need <= 1 and not _popped_before(p, ev, nm)) \
                    or _syntactic_guard(fn, n, nm, need)
                if ok:
                    proved.add(id(n))
                else:
                    failed.setdefault(id(n), p)
                if k == "pop":
                    nonempty.discard(nm)
                    minlen.pop(nm, None)
            if ev[0] == "assume":
                e, pol = ev[1], ev[2]
                if isinstance(e, ast.Name) and pol:
                    nonempty.add(e.id)
                lf = _len_fact(e, pol)
                if lf:
                    minlen[lf[0]] = max(minlen.get(lf[0], 0), lf[1])
            if ev[0] == "stmt" and isinstance(ev[1], (ast.Assign, ast.AugAssign, ast.AnnAssign)):
                for t in ast.walk(ev[1]):
                    if isinstance(t, ast.Name) and isinstance(t.ctx, ast.Store):
                        nonempty.discard(t.id)
                        minlen.pop(t.id, None)
            if ev[0] == "iter":
                for t in ast.walk(ev[1].target):
                    if isinstance(t, ast.Name):
                        nonempty.discard(t.id)
                        minlen.pop(t.id, None)
    n_ob = 0
    for sid, (k, nm, idx, n) in sites_total.items():
        n_ob += 1
        key = (fi.name, " ".join(ast.unparse(n).split()))
        if sid in failed:
            if _reviewed(fi, key[1]):
                run.proved("C08.R1", f"{fi.name}: `{key[1]}` (reviewed: {_reviewed(fi, key[1])})")
                continue
            mod_def = fi.module.assigns.get(nm)
            if k == "index" and isinstance(mod_def, (ast.Tuple, ast.List)) and not any(isinstance(x, ast.Starred) for x in mod_def.elts) and (idx < len(mod_def.elts) if idx >= 0 else -idx <= len(mod_def.elts)) \
                    and nm not in {t.id for t in ast.walk(fi.node) if isinstance(t, ast.Name) and isinstance(t.ctx, ast.Store)}:
                run.proved("C08.R1", f"{fi.name}: `{key[1]}` indexes the module-level constant `{nm}` within its length")
                continue
            run.refuted("C08.R1", fi.name, n, f"`{ast.unparse(n)}` can raise IndexError: on some path `{nm}` is not known to have {'an element' if k == 'pop' or idx in (0, -1) else f'{idx + 1} elements'} "
                        "(no dominating emptiness/length test) -- compiling a page with such a line dies with an internal exception", file=fi.file, node=n,
                        detail=dict(path=failed[sid].describe(10)))
        elif sid in proved:
            run.proved("C08.R1", f"{fi.name}: `{ast.unparse(n)}` is dominated by a non-emptiness/length fact")
        else:
            run.proved("C08.R1", f"{fi.name}: `{ast.unparse(n)}` lies on no feasible path")
    return n_ob


def _popped_before(p: Path, ev, name: str) -> bool:
    for e in p.events:
        if e is ev:
            return False
        node = e[1] if e[0] in ("stmt", "assume") else None
        if node is not None and any(isinstance(c, ast.Call) and isinstance(c.func, ast.Attribute) and c.func.attr in ("pop", "remove", "clear") and base_name(c.func.value) == name for c in ast.walk(node)):
            return True
    return False


def other_sites(run: Run, fi: FuncInfo, g) -> int:
    """Subscripts / unpackings whose receiver is an expression (not a plain local)."""
    n_ob = 0
    for n in walk_no_nested(fi.node):
        cons = None
        why = None
        if isinstance(n, ast.Subscript) and isinstance(n.ctx, ast.Load) and not isinstance(n.slice, ast.Slice) and not isinstance(n.value, ast.Name):
            if not (isinstance(n.slice, ast.Constant) and isinstance(n.slice.value, int)):
                continue
            cons = n
            v = n.value
            if isinstance(v, ast.Call) and isinstance(v.func, ast.Attribute) and v.func.attr == "split" and v.args and n.slice.value == 0:
                why = "split with a separator has an element 0"
            elif isinstance(v, ast.Call) and isinstance(v.func, ast.Attribute) and v.func.attr == "getText" and n.slice.value == 0 and _ctx_rule_of(fi, v.func.value) in g.rule_index \
                    and not g.nullable(_ctx_rule_of(fi, v.func.value)):
                why = f"the text of a `{_ctx_rule_of(fi, v.func.value)}` context is never empty (the rule cannot derive the empty string)"
            elif isinstance(v, ast.Attribute) and v.attr == "children":
                why = "ctx.children[k]: decided by the typestate walk (k < min_children on error-free trees; recovered trees are fenced by walk_zorg_page)"
            elif isinstance(v, ast.Subscript) and isinstance(v.slice, ast.Slice):
                why = None
        elif isinstance(n, ast.Assign) and isinstance(n.targets[0], ast.Tuple) and isinstance(n.value, ast.Call):
            cons = n
            f = n.value.func
            if isinstance(f, ast.Attribute) and f.attr == "split":
                why = None
            else:
                why = "tuple-unpacking of a non-split call"
        if cons is None:
            continue
        n_ob += 1
        key = (fi.name, " ".join(ast.unparse(cons).split()))
        if why:
            run.proved("C08.R1", f"{fi.name}: `{key[1][:60]}` ({why})")
        elif _reviewed(fi, key[1]):
            run.proved("C08.R1", f"{fi.name}: `{key[1][:60]}` (reviewed: {_reviewed(fi, key[1])})")
        else:
            run.refuted("C08.R1", fi.name, cons, f"`{key[1]}` can raise (IndexError / ValueError from unpacking) and nothing establishes its precondition; "
                        "it is not among the reviewed sites either", file=fi.file, node=cons)
    return n_ob


def recogniser_try_parses(model: PyModel, q: str, callee_names: tuple) -> bool:
    """The recogniser decides by attempting the very parse it guards (try ... except ValueError: return False)."""
    f = model.func(q)
    for t in walk_no_nested(f.node):
        if isinstance(t, ast.Try):
            body_calls = {ast.unparse(c.func).split(".")[-1] for s in t.body for c in ast.walk(s) if isinstance(c, ast.Call)}
            # ... or any other function of zorg.shared.dates that lets strptime's ValueError through (a renamed / public parser)
            raisers = strptime_raisers(model)
            body_calls |= {"strptime" for s in t.body for c in ast.walk(s) if isinstance(c, ast.Call) and model.callee(f, c) in raisers}
            catches = any(h.type is None or "ValueError" in ast.unparse(h.type) or "Exception" in ast.unparse(h.type) for h in t.handlers)
            returns_false = any(isinstance(r, ast.Return) and isinstance(r.value, ast.Constant) and r.value.value is False for h in t.handlers for r in ast.walk(h))
            if body_calls & set(callee_names) and catches and returns_false:
                return True
    return False


def _unprotected_calls(f):
    prot: set[int] = set()
    for t in ast.walk(f.node):
        if isinstance(t, ast.Try) and any(h.type is None or any(x in ast.unparse(h.type) for x in ("ValueError", "Exception")) for h in t.handlers):
            for b in t.body:
                prot.update(id(c) for c in ast.walk(b))
    return [c for c in walk_no_nested(f.node) if isinstance(c, ast.Call) and id(c) not in prot]


def strptime_raisers(model: PyModel) -> dict:
    """zorg.shared.dates functions that let a strptime ValueError escape -> the set of strptime formats (constants resolved) they can reach."""
    cache = getattr(model, "_strptime_raisers", None)
    if cache is not None:
        return cache
    raisers: dict = {}
    changed = True
    while changed:
        changed = False
        for q, f in model.funcs.items():
            if not q.startswith("zorg.shared.dates."):
                continue
            fmts = set(raisers.get(q, ()))
            for c in _unprotected_calls(f):
                if ast.unparse(c.func).split(".")[-1] == "strptime":
                    a = c.args[1] if len(c.args) > 1 else None
                    if isinstance(a, ast.Name) and isinstance(f.module.assigns.get(a.id), ast.Constant):
                        a = f.module.assigns[a.id]
                    fmts.add(a.value if isinstance(a, ast.Constant) and isinstance(a.value, str) else "?")
                else:
                    t = model.callee(f, c)
                    if t in raisers:
                        fmts |= raisers[t]
            if fmts and fmts != raisers.get(q):
                raisers[q] = fmts
                changed = True
    model._strptime_raisers = raisers
    return raisers


def strptime_guards(run: Run, model: PyModel) -> None:
    """Every strptime on item text is guarded by a recogniser that itself try-parses (calendar validity)."""
    def try_parses(q: str, callee_names: tuple) -> bool:
        return recogniser_try_parses(model, q, callee_names)

    def _unused(q: str, callee_names: tuple) -> bool:
        f = model.func(q)
        for t in walk_no_nested(f.node):
            if isinstance(t, ast.Try):
                body_calls = {ast.unparse(c.func).split(".")[-1] for s in t.body for c in ast.walk(s) if isinstance(c, ast.Call)}
                catches = any(h.type is None or "ValueError" in ast.unparse(h.type) or "Exception" in ast.unparse(h.type) for h in t.handlers)
                returns_false = any(isinstance(r, ast.Return) and isinstance(r.value, ast.Constant) and r.value.value is False for h in t.handlers for r in ast.walk(h))
                if body_calls & set(callee_names) and catches and returns_false:
                    return True
        return False

    short_ok = try_parses(f"{D}.is_short_date_spec", ("from_short_date_spec", "strptime"))
    long_ok = try_parses(f"{D}.is_long_date_spec", ("_from_long_date_spec", "strptime"))
    fz = model.func(f"{D}.is_zid")
    zid_ok = _true_implies_call(fz.node, "is_short_date_spec")
    from ..daterules import short_date_recogniser_agrees

    short_ok = short_date_recogniser_agrees(run, model, "C08.R1")
    run.check("C08.R1", "is_long_date_spec accepts only strings strptime can parse", long_ok, "is_long_date_spec", "no try/parse/except ValueError -> False",
              "is_long_date_spec accepts strings that are not calendar dates: a DATE token such as 2024-02-30 reaches strptime in enterDate", file="src/zorg/shared/dates.py", node=model.func(f"{D}.is_long_date_spec").node)
    run.check("C08.R1", "is_zid is True only when is_short_date_spec accepted the date part", zid_ok, "is_zid", "date part unchecked", "is_zid does not validate the date part of a ZID", file="src/zorg/shared/dates.py", node=fz.node)
    # the call sites: each strptime / from_short_date_spec in the compiler is dominated by the matching recogniser
    ci = model.cls(f"{FC}.ZorgFileCompiler")
    raisers = strptime_raisers(model)
    n = 0
    for m in ci.methods.values():
        sites = [c for c in ast.walk(m.node) if isinstance(c, ast.Call) and (ast.unparse(c.func).split(".")[-1] == "strptime" or model.callee(m, c) in raisers)]
        if not sites:
            continue
        for p in enum_paths(m.node):
            guards: set[str] = set()
            for ev in p.events:
                node = ev[1] if ev[0] in ("stmt", "assume", "return") else None
                if node is None:
                    continue
                if ev[0] == "stmt":
                    for c in ast.walk(node):
                        if c in sites and not isinstance(_enclosing_partial(node, c), ast.Call):
                            n += 1
                            arg = ast.unparse(c)
                            for a in c.args[1:2]:  # the format may be a module-level constant
                                if isinstance(a, ast.Name) and isinstance(m.module.assigns.get(a.id), ast.Constant):
                                    arg += " " + repr(m.module.assigns[a.id].value)
                            fmts = raisers.get(model.callee(m, c) or "", set())
                            is_long = "%Y-%m-%d" in arg or any("-" in x for x in fmts)
                            need = "is_long_date_spec" if is_long else ("is_zid" if "zid" in arg else "is_short_date_spec")
                            run.check("C08.R1", f"{m.name}: strptime site guarded by {need}", need in guards or (need == "is_short_date_spec" and "is_zid" in guards), m.name, c,
                                      f"`{ast.unparse(c)[:70]}` is reached on a path that has not established `{need}(...)`: a date-shaped word that is not a calendar date raises ValueError",
                                      file=FILE_C, node=c)
                if ev[0] == "assume":
                    txt = ast.unparse(ev[1])
                    for gname in ("is_long_date_spec", "is_short_date_spec", "is_zid"):
                        if gname in txt and ev[2] is True:
                            guards.add(gname)
                        if gname in txt and ev[2] is False and isinstance(ev[1], ast.UnaryOp):
                            guards.add(gname)
                        if gname in txt and ev[2] is False and not isinstance(ev[1], ast.UnaryOp):
                            pass
                    # `if not is_long(...): return` -> on the continuing path the atom is_long(...) is True
    run.floor("strptime sites in the compiler", n, 2)


def _enclosing_partial(stmt: ast.AST, call: ast.Call):
    for c in ast.walk(stmt):
        if isinstance(c, ast.Call) and ast.unparse(c.func) == "partial" and call in list(ast.walk(c)) and c is not call:
            return c
    return None


def refusal_tables(run: Run, model: PyModel) -> None:
    for fname, atoms_want in (("create_database", ("has_errors", "whitelisted", "update")), ("reindex_database", ("has_errors", "whitelisted"))):
        fi = model.func(f"{H}.{fname}")

        def matcher(e: ast.expr):
            t = ast.unparse(e)
            if t.endswith(".has_errors"):
                return ("has_errors", True)
            if isinstance(e, ast.Compare) and isinstance(e.ops[0], (ast.In, ast.NotIn)) and "error_files" in ast.unparse(e.comparators[0]):
                return ("whitelisted", isinstance(e.ops[0], ast.In))
            if t.endswith("update_error_file_whitelist"):
                return ("update", True)
            return None

        raising = []
        for p in enum_paths(fi.node, unroll=1):
            if p.outcome == "raise" and isinstance(p.events[-1][1], ast.Raise) and "RuntimeError" in ast.unparse(p.events[-1][1]):
                raising.append(p)
        if not raising:
            run.refuted("C08.R4", fname, "no refusal", f"{fname} never refuses a page with errors", file="src/zorg/service/handlers.py", node=fi.node)
            continue
        # condition of the raise = disjunction over raising paths of the conjunction of matched atoms since the page was walked
        defs = single_bool_defs(fi.node)
        table = {}
        import itertools

        for bits in itertools.product([False, True], repeat=len(atoms_want)):
            val = dict(zip(atoms_want, bits))
            hit = False
            for p in raising:
                w = first_index(p, lambda x: isinstance(x, ast.Call) and isinstance(x.func, ast.Name) and x.func.id == "walk_zorg_page")
                ok = True
                for ev in p.events[w + 1:]:
                    if ev[0] != "assume":
                        continue
                    f = formula(ev[1], matcher, defs)
                    from ..decide import atoms as _atoms, evaluate

                    names = _atoms(f)
                    if not names <= set(atoms_want):
                        continue  # unrelated atom (loop guards etc.)
                    if evaluate(f, val) != ev[2]:
                        ok = False
                        break
                hit = hit or ok
            table[bits] = hit
        want = {bits: (dict(zip(atoms_want, bits))["has_errors"] and not dict(zip(atoms_want, bits))["whitelisted"] and not dict(zip(atoms_want, bits)).get("update", False)) for bits in table}
        bad = [b for b in table if table[b] != want[b]]
        run.check("C08.R4", f"{fname} refuses exactly has_errors and not whitelisted" + (" and not --update" if "update" in atoms_want else ""), not bad, fname, f"wrong for {bad}",
                  f"{fname} raises for {atoms_want} in { [b for b in table if table[b]] } -- wrong for {bad}: a newly broken page is indexed silently, or a whitelisted one is refused",
                  file="src/zorg/service/handlers.py", node=fi.node, detail=dict(table={str(k): v for k, v in table.items()}))
        # the refusal precedes any commit that covers the page
        for p in raising:
            w = first_index(p, lambda x: isinstance(x, ast.Call) and isinstance(x.func, ast.Name) and x.func.id == "walk_zorg_page")
            late = [ev for ev in p.events[w + 1:] if ev[0] == "stmt" and any(isinstance(c, ast.Call) and isinstance(c.func, ast.Attribute) and c.func.attr == "commit" for c in ast.walk(ev[1]))]
            run.check("C08.R4", f"{fname}: the refusal comes before the page is committed", not late, fname, "commit before refusal", f"{fname} commits a page and only then refuses it", file="src/zorg/service/handlers.py", node=fi.node)


def check(run: Run) -> None:
    model = PyModel(run.repo)
    run.rule("C08.R1", "exception-escape obligations: no listener method raises on any error-free tree (typestate walk); every local index/pop is dominated by a non-emptiness/length fact; "
             "strptime is only reached behind a recogniser that try-parses; recovered trees are fenced by walk_zorg_page; remaining sites are in a reviewed table")
    run.rule("C08.R2", "termination: no while loop and no recursion in the compile slice")
    run.rule("C08.R3", "honest flag: whenever the parser reported an error, has_errors is set before walk_zorg_page returns")
    run.rule("C08.R4", "refusal tables: create/reindex raise exactly for has_errors and not whitelisted (and not --update), before committing the page")
    run.rule("C08.R5", "all-or-nothing: parsing precedes the walk; with errors no note is appended; every reported syntax error is recorded")
    run.rule("C08.R7", "whose errors count: the error collector that decides has_errors is attached to the parser only (a lexer 'token recognition error' is not a syntax error of the page)")
    run.rule("C08.R6", "a valid page is indexable: the tag lists handed to the index are duplicate-free (its link tables are unique per note and tag, a duplicate aborts `db create` on a page "
             "without syntax errors) -- the scope scenario of C02.R2, adopted")
    ts = run_file_typestate(run.repo, model)
    from .c02 import scope_scenarios

    sub2 = Run("C02", run.tier, run.repo)
    scope_scenarios(sub2, model, ts.tree0)
    run.floor("adopted scope-scenario obligations", run.adopt(sub2, ("C02.R2",), "C08.R6"), 10)
    # "... all of its notes are indexed": what is indexed are the notes the page object yields -- pages driven through the listener, read back through Page.notes (C01.R4's scenario)
    from .c01 import built_page_scenarios

    built_page_scenarios(run, model, ts.tree0, rid="C08.R5")
    for w in ts.imprecise:
        run.undecided("C08.R1", "typestate", w)
    by = {}
    for h, label, r in ts.raises:
        by.setdefault((h, r.exc, (r.msg or "")[:60]), label)
    for (h, exc, msg), label in sorted(by.items()):
        run.refuted("C08.R1", h, f"raises {exc} {msg}".strip(), f"{h} can raise {exc} ({msg}) on an ERROR-FREE parse tree (abstract position {label}): compiling a valid page dies with an internal exception", file=FILE_C)
    if not by:
        run.proved("C08.R1", f"no listener method raises on any error-free tree ({ts.stats.get('handler_calls')} abstract handler runs, {len(ts.notes)} note constructions)")
    funcs = _slice(model)
    run.floor("functions in the compile slice", len(funcs), 40)
    n_ob = 0
    for fi in funcs:
        n_ob += local_obligations(run, fi)
        n_ob += other_sites(run, fi, ts.grammar)
    run.floor("index/pop/unpack obligations in the compile slice", n_ob, 15)
    strptime_guards(run, model)
    # dict lookups by tag name: literal keys passed by the callers are keys of the default map
    dm = model.func(f"{FC}._get_default_tags_map")
    keys = sorted(k.value for d in ast.walk(dm.node) if isinstance(d, ast.Dict) for k in d.keys if isinstance(k, ast.Constant))
    passed = set()
    ci = model.cls(f"{FC}.ZorgFileCompiler")
    for m in ci.methods.values():
        for c in find_calls(m.node, "_add_tag"):
            if c.args and isinstance(c.args[0], ast.Constant):
                passed.add(c.args[0].value)
    st_cls = model.cls(f"{FC}._ZorgFileCompilerState")
    for m in st_cls.methods.values():
        for c in find_calls(m.node, "_get_current_tags"):
            if c.args and isinstance(c.args[0], ast.Constant):
                passed.add(c.args[0].value)
    run.check("C08.R1", "every tag name used as a store key exists in the default tag map", passed <= set(keys) and bool(passed), "_add_tag", f"{sorted(passed - set(keys))}",
              f"tag names {sorted(passed - set(keys))} are used as keys but the default map only has {keys}: KeyError while compiling", file=FILE_C)
    # recovered trees: walker.walk is fenced
    fa = model.func(API)
    from ..flatten import flat_info as _flat_info

    fa_flat = _flat_info(model, fa.qualname)  # `prog()` may live in an extracted `_parse_zorg_file` helper
    walk_calls = [c for c in ast.walk(fa_flat.node) if isinstance(c, ast.Call) and isinstance(c.func, ast.Attribute) and c.func.attr == "walk"]
    run.floor("walker.walk calls in walk_zorg_page (helpers folded in)", len(walk_calls), 1)
    fenced = False
    for t in walk_no_nested(fa_flat.node):
        if isinstance(t, ast.Try) and any(w in list(ast.walk(s)) for s in t.body for w in walk_calls):
            for h in t.handlers:
                broad = h.type is None or ast.unparse(h.type) in ("Exception", "BaseException")
                txt = ast.unparse(h)
                reraises_when_clean = any(isinstance(i, ast.If) and "errors" in ast.unparse(i.test) and any(isinstance(r, ast.Raise) for r in i.body) for i in h.body)
                flags = "has_errors = True" in txt
                fenced = fenced or (broad and reraises_when_clean and flags)
    run.check("C08.R1", "listener failures on error-recovery trees are turned into a flagged page", fenced, "walk_zorg_page", "walker.walk not fenced",
              "walk_zorg_page lets exceptions of the listener escape when the parser reported errors: handlers index ctx.children on recovered trees that lack those children "
              "(e.g. a line containing '[@ ') and indexing dies with IndexError", file=FILE_A, node=fa.node)

    # ---- R2
    loops = [(fi.name, n) for fi in funcs for n in walk_no_nested(fi.node) if isinstance(n, ast.While)]
    run.check("C08.R2", "no while loop in the compile slice", not loops, "compile slice", f"{[l[0] for l in loops]}", f"while loops in {[l[0] for l in loops]}: termination is no longer structural", file=FILE_C)
    cg = model.callgraph()
    qs = {fi.qualname for fi in funcs}
    rec = []
    for q in qs:
        seen, stack = set(), [t for _, t in cg.get(q, []) if t in qs]
        while stack:
            x = stack.pop()
            if x == q:
                rec.append(q)
                break
            if x in seen:
                continue
            seen.add(x)
            stack.extend(t for _, t in cg.get(x, []) if t in qs)
    run.check("C08.R2", "no recursion in the compile slice", not rec, "compile slice", f"{rec}", f"recursive functions {rec}", file=FILE_C)

    # ---- R3
    honest = True
    n_ret = 0
    for p in enum_paths(fa.node):
        if p.outcome != "return":
            continue
        n_ret += 1
        pr = first_index(p, lambda x: isinstance(x, ast.Call) and isinstance(x.func, ast.Attribute) and x.func.attr == "prog")
        sets_flag_if_errors = False
        for i, ev in enumerate(p.events):
            if ev[0] == "assume" and "errors" in ast.unparse(ev[1]) and i > pr:
                # a test of the error list after parsing: on the True branch the flag must be set
                pass
        # structural: some statement after prog() of the form  if <errors>: page.has_errors = True  that is not inside an except handler
    post = False
    for s in fa_flat.node.body:
        if isinstance(s, ast.If) and "errors" in ast.unparse(s.test) and any("has_errors" in ast.unparse(x) and isinstance(x, ast.Assign) for x in ast.walk(s)):
            post = True
        if isinstance(s, ast.Assign) and "has_errors" in ast.unparse(s.targets[0]) and "errors" in ast.unparse(s.value):
            post = True
    run.check("C08.R3", "a page whose parse reported errors is always flagged", post, "walk_zorg_page", "has_errors only set inside _add_note / the except handler",
              "walk_zorg_page returns a page whose parse reported syntax errors without setting has_errors unless some item reaches _add_note (or the listener crashed): a broken page "
              "in which no item survives is indexed as an empty, error-free page", file=FILE_A, node=fa.node)

    # ---- R7: whose errors count.  "If the parser reports none, the page is not flagged": the object whose `errors` decide the flag (the one handed to the compiler / consulted in
    #      walk_zorg_page) listens to the PARSER only.  Characters the lexer has no token for (TAB, form feed, other control characters) are dropped by the lexer with a
    #      "token recognition error" that is not a syntax error of the page; a manager that also listens to the lexer flags such a page and the index refuses it.
    mi_api = fa.module
    listeners = [c for c in ast.walk(fa_flat.node) if isinstance(c, ast.Call) and isinstance(c.func, ast.Attribute) and c.func.attr == "addErrorListener" and c.args]
    run.floor("addErrorListener calls in walk_zorg_page (helpers folded in)", len(listeners), 1)
    ctor: dict[str, ast.Call] = {}
    for t in ast.walk(fa_flat.node):
        if isinstance(t, (ast.Assign, ast.AnnAssign)) and isinstance(t.value, ast.Call):
            for tg in (t.targets if isinstance(t, ast.Assign) else [t.target]):
                if isinstance(tg, ast.Name):
                    ctor.setdefault(tg.id, t.value)

    def antlr_kind(call: ast.Call):
        """'Parser' / 'Lexer' for a constructor call of a generated (or antlr4) recogniser class, else None."""
        nm = ast.unparse(call.func).split(".")[-1]
        src = mi_api.imports.get(ast.unparse(call.func).split(".")[0], "")
        mod = src.rsplit(".", 1)[0] if src.endswith("." + nm) else src
        rel = "src/" + mod.replace(".", "/") + ".py"
        if mod and run.repo.exists(rel):
            for n in ast.walk(run.repo.tree(rel)):
                if isinstance(n, ast.ClassDef) and n.name == nm:
                    bases = {ast.unparse(b).split(".")[-1] for b in n.bases}
                    return "Parser" if "Parser" in bases else "Lexer" if "Lexer" in bases else None
        return "Parser" if nm == "Parser" else "Lexer" if nm == "Lexer" else None

    for c in listeners:
        recv = c.func.value
        kind = None
        if isinstance(recv, ast.Name) and recv.id in ctor:
            kind = antlr_kind(ctor[recv.id])
        elif isinstance(recv, ast.Call):
            kind = antlr_kind(recv)
        arg = ast.unparse(c.args[0])
        if kind is None:
            run.undecided("C08.R7", "walk_zorg_page", f"cannot tell what `{ast.unparse(recv)}` is in `{ast.unparse(c)[:80]}` (neither a lexer nor a parser constructed in the function)")
            continue
        collects = isinstance(c.args[0], ast.Name) and any(isinstance(x, ast.Attribute) and x.attr == "errors" and isinstance(x.value, ast.Name) and x.value.id == arg for x in ast.walk(fa_flat.node)) \
            or any(isinstance(k, ast.Call) and ast.unparse(k.func).split(".")[-1] == "ZorgFileCompiler" and any(isinstance(a, ast.Name) and a.id == arg for a in k.args + [kw.value for kw in k.keywords]) for k in ast.walk(fa_flat.node))
        if kind != "Parser" and collects:
            # a collector that looks at the recogniser it is called by (isinstance test, ...) may keep the lexer's reports apart: not decided here
            filt = [f2.name for f2 in model.funcs.values() if f2.node.name == "syntaxError" and f2.qualname.startswith("zorg.") and any(
                isinstance(x, ast.Name) and isinstance(x.ctx, ast.Load) and x.id in [a.arg for a in f2.node.args.args[1:2]] for x in ast.walk(f2.node))]
            if filt:
                run.undecided("C08.R7", "walk_zorg_page", f"`{ast.unparse(c)[:80]}` attaches the error collector to a {kind}, and {filt} inspect the recogniser they are called by")
                continue
        run.check("C08.R7", f"`{arg}` listens to a parser", kind == "Parser" or not collects, "walk_zorg_page", f"{ast.unparse(c)[:80]}: a {kind}",
                  f"`{ast.unparse(c)[:80]}` attaches the object whose errors decide has_errors to the {kind}: a page with a character the lexer has no token for (TAB, form feed ...) is flagged and refused "
                  "although the parser reports no syntax error", file=FILE_A, node=c)

    # ---- R4
    from ..indexscen import create_rules, reindex_rules, writeback_rules

    reindex_rules(run, model, dict(refuse="C08.R4"))
    from ..indexscen import bus_rules

    bus_rules(run, model, "C08.R4")
    create_rules(run, model, "C08.R4")
    writeback_rules(run, model, "C08.R4")

    # ---- R5
    pr_ok = True
    for p in enum_paths(fa_flat.node):
        pr = first_index(p, lambda x: isinstance(x, ast.Call) and isinstance(x.func, ast.Attribute) and x.func.attr == "prog")
        wk = first_index(p, lambda x: isinstance(x, ast.Call) and isinstance(x.func, ast.Attribute) and x.func.attr == "walk")
        if wk >= 0 and not (0 <= pr < wk):
            pr_ok = False
    run.check("C08.R5", "the whole page is parsed before the listener runs", pr_ok, "walk_zorg_page", "walk before prog", "the listener walk can start before parsing finished: errors found later do not suppress earlier notes", file=FILE_A, node=fa.node)
    an = model.func(f"{FC}.ZorgFileCompiler._add_note")
    leak = False
    n_err_paths = 0
    for p in enum_paths(an.node):
        assumed_err = any(ev[0] == "assume" and ev[2] is True and ast.unparse(ev[1]).endswith("error_manager.errors") for ev in p.events)
        if assumed_err:
            n_err_paths += 1
            if first_index(p, lambda x: isinstance(x, ast.Call) and model.callee(an, x) == NOTE) >= 0:
                leak = True
    run.check("C08.R5", "with syntax errors no note is appended", not leak and n_err_paths > 0, "_add_note", "Note constructed although errors were reported",
              "a note can be constructed although the parser reported errors (or the error test vanished): a broken page is indexed partially", file=FILE_C, node=an.node)
    se = model.func(f"{FC}.ErrorManager.syntaxError")
    all_rec = True
    k = 0
    for p in enum_paths(se.node):
        if p.outcome == "raise":
            continue
        k += 1
        if first_index(p, lambda x: isinstance(x, ast.Call) and isinstance(x.func, ast.Attribute) and x.func.attr == "append" and "errors" in ast.unparse(x.func.value)) < 0:
            all_rec = False
    # the callback itself must not raise: ANTLR calls it with e=None for the errors it repairs inline (a missing / an extraneous token) -- an exception here escapes from parser.prog(),
    # which no handler fences, so compiling the page dies instead of flagging it
    from ..absint import Interp as _I8, Raised as _R8, State as _S8
    from ..absval import HObj as _H8, Opaque as _O8

    st8 = _S8()
    errs = st8.alloc(_H8("list"))
    em8 = st8.alloc(_H8("obj", cls=f"{FC}.ErrorManager", fields=dict(errors=errs)))
    try:
        res8 = _I8(model).run_function(f"{FC}.ErrorManager.syntaxError", [em8, _O8("vparser"), _O8("vtoken"), 3, 7, "missing ']]' at '\\n'", None], st=st8)
    except Exception as ex8:  # noqa: BLE001
        res8 = None
        run.undecided("C08.R1", "ErrorManager.syntaxError", f"cannot interpret: {type(ex8).__name__}: {str(ex8)[:100]}")
    for v8, s8 in res8 or []:
        if isinstance(v8, _R8):
            run.refuted("C08.R1", "ErrorManager.syntaxError", f"raises {v8.exc} when called without an exception object",
                        f"ErrorManager.syntaxError raises {v8.exc} ({v8.msg}) when ANTLR reports an error it repaired inline (e is None: a missing or an extraneous token): the exception escapes from "
                        "parser.prog() and compiling the damaged page dies with an internal error instead of returning a flagged page", file=FILE_C, node=v8.node or se.node)
        elif s8.imprecise:
            run.undecided("C08.R1", "ErrorManager.syntaxError", "; ".join(s8.imprecise[:2]))
        else:
            run.check("C08.R5", "an inline-repaired syntax error (no exception object) is recorded", len(s8.obj(errs).items) == 1, "ErrorManager.syntaxError", f"records {len(s8.obj(errs).items)} entries",
                      f"ErrorManager.syntaxError records {len(s8.obj(errs).items)} entries for one reported error", file=FILE_C, node=se.node)
    run.check("C08.R5", "every syntax error reported by the parser is recorded", all_rec and k > 0, "ErrorManager.syntaxError", "a path returns without recording the error",
              "ErrorManager.syntaxError can return without appending to `errors`: some syntax errors (e.g. those at end of file) are ignored, the page is not flagged and is indexed partially", file=FILE_C, node=se.node)
    # reading the page never fails on its bytes: whatever opens the file decodes tolerantly
    readers = [c for c in ast.walk(fa_flat.node) if isinstance(c, ast.Call) and (ast.unparse(c.func).split(".")[-1] in ("FileStream", "read_text", "open") or ast.unparse(c.func) == "open")]
    run.floor("calls that read the page in walk_zorg_page", len(readers), 1)
    for c in readers:
        ev = kwarg(c, "errors")
        tolerant = isinstance(ev, ast.Constant) and ev.value in ("ignore", "replace", "backslashreplace", "surrogateescape")
        run.check("C08.R1", "the page is decoded tolerantly (errors=ignore/replace)", tolerant, "walk_zorg_page", c,
                  f"`{ast.unparse(c)[:80]}` decodes the page strictly: a file with bytes that are not valid in the chosen encoding (Latin-1 text, a truncated multi-byte sequence, a stray 0xFF) "
                  "makes compile / db create / db reindex die with UnicodeDecodeError", file=FILE_A, node=c)
    # typestate of the parser's listener set: on every path the error manager is (still) registered when the parse starts
    n_parse = 0
    for p in enum_paths(fa_flat.node):
        registered = False
        seen_parse = False
        for ev in p.events:
            node = ev[1] if ev[0] in ("stmt", "assume", "iter", "with") else None
            if node is None:
                continue
            calls = sorted([c for c in ast.walk(node) if isinstance(c, ast.Call) and isinstance(c.func, ast.Attribute)], key=lambda c: (c.lineno, c.col_offset))
            for c in calls:
                if c.func.attr == "addErrorListener":
                    registered = True
                elif c.func.attr in ("removeErrorListeners", "removeErrorListener"):
                    registered = False
                elif c.func.attr == "prog" and not seen_parse:
                    seen_parse = True
                    n_parse += 1
                    run.check("C08.R5", "the error manager is registered with the parser when the parse starts", registered, "walk_zorg_page", "listener set at parser.prog()",
                              "on a path of walk_zorg_page the parser's error listeners are removed after (or without) registering the ErrorManager: syntax errors are reported to nobody, "
                              "`errors` stays empty, the page is not flagged and a broken page is indexed partially" , file=FILE_A, node=c, detail=dict(path=p.describe(12)))
    run.floor("paths of walk_zorg_page that start the parse", n_parse, 2)
    run.units = dict(slice_functions=len(funcs), typestate=ts.stats, obligations_local=n_ob)
    run.trusted = ["totality of the ANTLR runtime itself", "ParseTreeWalker contract"]
    run.assumptions += ["lexer errors (characters outside the alphabet) are outside the statement, which speaks of parser-reported errors"]


def _true_implies_call(fn: ast.FunctionDef, callee: str) -> bool:
    """Every way for `fn` to return a truthy value passes through `callee(...)` being truthy:
    the return value is a conjunction containing the call, or an earlier `if not callee(...): return False`."""
    def is_call(e: ast.AST) -> bool:
        return isinstance(e, ast.Call) and ast.unparse(e.func).split(".")[-1] == callee

    def conj(e: ast.expr) -> list:
        if isinstance(e, ast.BoolOp) and isinstance(e.op, ast.And):
            return [c for v in e.values for c in conj(v)]
        return [e]

    from ..paths import enum_paths

    for p in enum_paths(fn):
        ret = None
        for ev in p.events:
            if ev[0] == "return":
                ret = ev[1]
        if ret is None or ret.value is None:
            continue
        v = ret.value
        if isinstance(v, ast.Constant) and not v.value:
            continue
        if any(is_call(c) for c in conj(v)):
            continue
        if any(ev[0] == "assume" and is_call(ev[1]) and ev[2] for ev in p.events):
            continue
        return False
    return True
