"""C15 -- a saved-query reference filters like the saved query's WHERE clause."""

from __future__ import annotations

import ast

from ..core import Run
from ..decide import path_constraints, satisfiable, single_bool_defs
from ..paths import enum_paths, first_index
from ..pymodel import PyModel, walk_no_nested
from ..shapes import Const, Hole, ShapeEval
from ..util import base_name, find_calls, names_loaded

MOD = "zorg.service.swog._saved_queries"
F_EXPAND = f"{MOD}.expand_saved_queries"
F_SAVED = f"{MOD}._get_saved_where_filter"
F_NAMES = f"{MOD}._get_saved_query_names"
FILE = "src/zorg/service/swog/_saved_queries.py"


def _pipe_matcher(expr: ast.expr):
    if isinstance(expr, ast.Compare) and len(expr.ops) == 1 and isinstance(expr.ops[0], ast.In) and isinstance(expr.left, ast.Constant) and isinstance(expr.left.value, str):
        if expr.left.value.strip() == "|":
            return ("has_pipe", True)
    return None


def _is_wrap(model: PyModel, fi, stmt: ast.stmt) -> bool:
    if not isinstance(stmt, ast.Assign):
        return False
    se = ShapeEval(model, fi)
    for sh in se.eval(stmt.value, stmt.lineno - 1):
        if len(sh) >= 3 and isinstance(sh[0], Const) and sh[0].text.startswith("(") and isinstance(sh[-1], Const) and sh[-1].text.endswith(")"):
            return True
    return False


def hygienic_returns(run: Run, model: PyModel, fi) -> bool:
    """Every path returning a clause either wraps it in parentheses or excludes a '|' in it."""
    fn = fi.node
    defs = single_bool_defs(fn)
    ok_all = True
    n = 0
    for p in enum_paths(fn):
        if p.outcome != "return":
            continue
        ret = p.events[-1][1]
        if ret.value is None or (isinstance(ret.value, ast.Constant) and ret.value.value is None):
            continue
        n += 1
        if not isinstance(ret.value, ast.Name):
            sh = ShapeEval(model, fi).eval(ret.value)
            wrapped = all(len(s) >= 3 and isinstance(s[0], Const) and s[0].text.startswith("(") and isinstance(s[-1], Const) and s[-1].text.endswith(")") for s in sh)
            if not wrapped:
                run.undecided("C15.R1", fi.name, f"unrecognised return shape {ast.unparse(ret.value)[:60]}")
                ok_all = False
            continue
        var = ret.value.id
        # last wrap assignment of the returned variable with no later re-assignment
        wrapped = False
        for ev in p.events:
            if ev[0] == "stmt" and isinstance(ev[1], ast.Assign) and any(isinstance(t, ast.Name) and t.id == var for t in ev[1].targets):
                wrapped = _is_wrap(model, fi, ev[1])
        if wrapped:
            run.proved("C15.R1", f"{fi.name}: returning path wraps the clause in parentheses")
            continue
        cons = path_constraints(p, len(p.events), _pipe_matcher, defs)
        try:
            val = satisfiable(cons, {"has_pipe": True})
        except OverflowError as e:
            run.undecided("C15.R1", fi.name, str(e))
            ok_all = False
            continue
        if val is None:
            run.proved("C15.R1", f"{fi.name}: unwrapped return only when the clause has no '|'")
        else:
            ok_all = False
            others = {k: v for k, v in val.items() if k != "has_pipe"}
            run.refuted("C15.R1", fi.name, "clause containing '|' returned without parentheses",
                        "a saved WHERE clause containing alternatives ('|') can be returned unparenthesised"
                        + (f" (when {others})" if others else "") + ": spliced into a larger filter, AND binds tighter than OR and the surrounding atoms "
                        "only constrain the first/last alternative", file=FILE, node=ret, detail=dict(valuation=val, path=p.describe()))
    run.floor(f"clause-returning paths of {fi.name}", n, 1)
    return ok_all


def check(run: Run) -> None:
    model = PyModel(run.repo)
    run.rule("C15.R1", "macro hygiene: the text substituted for {name} is parenthesised whenever the saved clause can contain '|'")
    run.rule("C15.R2", "error discipline: every result of expand_saved_queries/_get_saved_where_filter is tested for None before use and None becomes an error")
    run.rule("C15.R3", "nesting: _get_saved_where_filter re-expands the names found in the clause it read, through itself")
    run.rule("C15.R5", "every brace pair is a reference: the name pattern is '{' (any character but a brace)* '}', so no spelling of {name} slips through unexpanded and unreported")
    reference_pattern(run, model)
    run.rule("C15.R6", "the expanded text means what its parentheses say: the query compiler builds the filter tree of the derivation, also when a conjunction holds nothing but groups "
             "(`{a} {b}` with alternatives in both) -- C04.R5, adopted")
    from . import c04

    sub4 = Run("C04", run.tier, run.repo)
    c04.check(sub4)
    run.floor("adopted nesting obligations", run.adopt(sub4, ("C04.R5",), "C15.R6"), 1)
    run.rule("C15.R4", "freshness: the clause is read from the .zoq file on every call; no module-level cache")
    # both functions with their private helpers folded back in (extracting `_read_saved_qstring`, `_splice_where_filters`, ... changes nothing)
    from ..flatten import flat_info

    slice_fns = [model.funcs[q] for q in sorted(model.reachable([F_EXPAND])) if q.startswith(MOD + ".")]  # the expansion operation: whatever functions / methods carry it
    run.floor("functions of the saved-query expansion", len(slice_fns), 2)

    # ---- R1 / R3: decided by expansion_scenarios (what text comes out for plain / alternative / grouped / nested / diamond / repeated references), not by the shape of the substitution code
    # ---- R2
    expansion_scenarios(run, model)
    for target, label in ((F_EXPAND, "expand_saved_queries"),):
        callers = [(c, k) for c, k in model.callers_of(target) if not c.qualname.startswith(MOD + ".")]
        run.floor(f"call sites of {label}", len(callers), 1)
        for caller, call in callers:
            var = None
            for n in walk_no_nested(caller.node):
                if isinstance(n, ast.Assign) and n.value is call and isinstance(n.targets[0], ast.Name):
                    var = n.targets[0].id
                if isinstance(n, ast.AnnAssign) and n.value is call and isinstance(n.target, ast.Name):
                    var = n.target.id
                if isinstance(n, ast.NamedExpr) and n.value is call:
                    var = n.target.id
            if var is None:
                run.undecided("C15.R2", caller.name, f"result of {label} is not bound to a variable")
                continue
            bad = None
            handled = False
            for p in enum_paths(caller.node):
                i = first_index(p, lambda n: n is call)
                if i < 0:
                    continue
                known_not_none = False
                start = i if (p.events[i][0] == "assume" and any(isinstance(x, ast.NamedExpr) and x.value is call for x in ast.walk(p.events[i][1]))) else i + 1
                for ev in p.events[start:]:
                    if ev[0] == "assume":
                        e = ev[1]
                        if isinstance(e, ast.Compare) and isinstance(e.left, ast.NamedExpr) and e.left.target.id == var:
                            e = ast.Compare(left=ast.Name(id=var, ctx=ast.Load()), ops=e.ops, comparators=e.comparators)
                        if isinstance(e, ast.Compare) and isinstance(e.left, ast.Name) and e.left.id == var and isinstance(e.comparators[0], ast.Constant) and e.comparators[0].value is None:
                            is_none = isinstance(e.ops[0], (ast.Is, ast.Eq)) == ev[2]
                            if is_none:
                                handled = True
                                break  # rest of this path is the error branch
                            known_not_none = True
                            continue
                        if isinstance(e, ast.Name) and e.id == var:
                            if not ev[2]:
                                handled = True
                                break
                            known_not_none = True
                            continue
                    nodes = [ev[1]] if ev[0] in ("stmt", "return", "raise", "assume") else ([ev[1].iter] if ev[0] == "iter" else [])
                    for nd in nodes:
                        if var in names_loaded(nd) and not known_not_none:
                            bad = (nd, p)
                    if ev[0] == "stmt" and isinstance(ev[1], ast.Assign) and any(isinstance(t, ast.Name) and t.id == var for t in ev[1].targets):
                        break
                if bad:
                    break
            if bad:
                run.refuted("C15.R2", caller.name, bad[0], f"the result of {label} is used without first checking it for None: a reference to a saved query "
                            "that does not exist is silently ignored / crashes later instead of being reported", file=caller.file, node=bad[0])
            else:
                run.proved("C15.R2", f"{caller.name}: result of {label} checked for None before use")
            # the None branch must end in return None / raise
            err_ok = False
            for n in walk_no_nested(caller.node):
                if isinstance(n, ast.If) and (var in names_loaded(n.test) or any(isinstance(x, ast.NamedExpr) and x.target.id == var for x in ast.walk(n.test))):
                    last = n.body[-1]
                    if isinstance(last, ast.Raise) or (isinstance(last, ast.Return) and (last.value is None or (isinstance(last.value, ast.Constant) and last.value.value in (None, 1)))):
                        err_ok = True
            run.check("C15.R2", f"{caller.name}: a missing saved query becomes an error", err_ok, caller.name, f"None branch for {var}",
                      f"{caller.name} does not turn a failed expansion into an error (raise / return None)", file=caller.file, node=call)

    # ---- R4
    mi = model.module_of(MOD)
    glob = {k for k, v in mi.assigns.items() if isinstance(v, (ast.Dict, ast.List, ast.Set)) or (isinstance(v, ast.Call) and ast.unparse(v.func).split(".")[-1] in ("dict", "set", "list", "defaultdict", "OrderedDict", "lru_cache"))}
    # ... that is WRITTEN somewhere in the module (an item / attribute store, a mutating method call, a `global` rebinding): a table that is only read is a constant, not a cache
    mutated: set = set()
    for f in mi.funcs.values():
        for n in ast.walk(f.node):
            if isinstance(n, (ast.Subscript, ast.Attribute)) and isinstance(n.ctx, (ast.Store, ast.Del)) and isinstance(n.value, ast.Name):
                mutated.add(n.value.id)
            if isinstance(n, ast.Call) and isinstance(n.func, ast.Attribute) and isinstance(n.func.value, ast.Name) and n.func.attr in (
                    "setdefault", "update", "add", "append", "extend", "insert", "pop", "popitem", "clear", "remove", "discard", "__setitem__"):
                mutated.add(n.func.value.id)
            if isinstance(n, ast.Global):
                mutated.update(n.names)
    for c in mi.classes.values():
        for m in c.methods.values():
            for n in ast.walk(m.node):
                if isinstance(n, (ast.Subscript, ast.Attribute)) and isinstance(n.ctx, (ast.Store, ast.Del)) and isinstance(n.value, ast.Name):
                    mutated.add(n.value.id)
                if isinstance(n, ast.Call) and isinstance(n.func, ast.Attribute) and isinstance(n.func.value, ast.Name) and n.func.attr in ("setdefault", "update", "add", "append", "extend", "insert", "pop", "clear"):
                    mutated.add(n.func.value.id)
    used = sorted(glob & mutated & set().union(*[names_loaded(f.node) for f in slice_fns]))
    run.check("C15.R4", "no module-level cache of expanded clauses", not used, "_saved_queries", used[0] if used else "-",
              f"module-level container `{used[0] if used else ''}` is consulted during expansion: an expanded clause is reused although a nested saved query changed or was deleted",
              file=FILE)
    cached = [d for f in slice_fns for d in f.decorators() if "cache" in d]
    run.check("C15.R4", "expansion functions are not memoised", not cached, "_saved_queries", cached[0] if cached else "-", "expansion is memoised by a cache decorator", file=FILE)
    run.units = dict(functions=[f.qualname for f in slice_fns])
    run.assumptions += ["cyclic saved-query sets are excluded by the statement", "the query grammar parses '(' or_filter ')' as a grouped sub-filter"]


def _regex_class(item) -> "set[str] | None":
    """Printable-ASCII characters a one-character regex item can match (None: not a one-character item)."""
    import re._constants as sc

    U = {chr(c) for c in range(32, 127)}
    op, av = item
    if op is sc.ANY:
        return set(U)
    if op is sc.LITERAL:
        return {chr(av)} & U
    if op is sc.NOT_LITERAL:
        return U - {chr(av)}
    if op is sc.IN:
        neg = False
        acc: set[str] = set()
        for o2, a2 in av:
            if o2 is sc.NEGATE:
                neg = True
            elif o2 is sc.LITERAL:
                acc.add(chr(a2))
            elif o2 is sc.RANGE:
                acc |= {chr(c) for c in range(a2[0], a2[1] + 1)}
            elif o2 is sc.CATEGORY:
                cat = {sc.CATEGORY_WORD: {c for c in U if c.isalnum() or c == "_"}, sc.CATEGORY_DIGIT: set("0123456789"), sc.CATEGORY_SPACE: {" "},
                       sc.CATEGORY_NOT_WORD: {c for c in U if not (c.isalnum() or c == "_")}, sc.CATEGORY_NOT_DIGIT: U - set("0123456789"), sc.CATEGORY_NOT_SPACE: U - {" "}}.get(a2)
                if cat is None:
                    return None
                acc |= cat
            else:
                return None
        return (U - acc) if neg else (acc & U)
    return None


def reference_pattern(run: Run, model: PyModel) -> None:
    """Every brace pair is a reference, whatever characters the name is made of: for each printable ASCII character c (braces excepted) the query
    `W x {a<c>b}` -- no such saved query exists -- must make the expansion FAIL.  If the code that finds references does not recognise the name, the
    text comes back with the braces still in it and nothing is reported.  Decided through expand_saved_queries itself (pattern constant, compiled
    pattern object, hand-written scanner: all the same to this rule)."""
    from ..absint import Interp, Raised, State
    from ..virtual import World, vpath

    W = World(model, files={}, old_map=None, indexed=set(), errors=set(), whitelist=[""], contents={"/Z/zoq/real.zoq": "# W +t"}, missing="all-but-contents")
    I = Interp(model, probes=W.probes(), max_states=4000)
    n = 0
    slipped: list[str] = []
    for code in range(32, 127):
        ch = chr(code)
        if ch in "{}":
            continue
        q = "W x {a" + ch + "b} {real}"
        try:
            res = I.run_function(F_EXPAND, [vpath("/Z"), q], st=State())
        except Exception as e:  # noqa: BLE001
            run.undecided("C15.R5", "expand_saved_queries", f"{q!r}: cannot interpret: {type(e).__name__}: {str(e)[:100]}")
            return
        for v, s in res:
            n += 1
            if s.imprecise or (isinstance(v, Raised) and v.exc not in ("RuntimeError",)):
                run.undecided("C15.R5", "expand_saved_queries", f"{q!r}: " + (f"raises {v.exc}" if isinstance(v, Raised) else "; ".join(s.imprecise[:2])))
                return
            if isinstance(v, str):
                slipped.append(ch)
    run.floor("reference-name characters tried", n, 90)
    run.check("C15.R5", "a reference whose name contains any printable character is recognised (a missing one fails the expansion)", not slipped, "expand_saved_queries",
              f"names containing {''.join(slipped)[:30]!r} are not seen as references",
              f"`W x {{a<c>b}} {{real}}` for c in {''.join(slipped)[:40]!r} comes back as a query text although no such saved query exists: names containing these characters (e.g. "
              "{weekly-review}, {work/inbox}) are not recognised as references, stay in the query unexpanded and no error is raised", file=FILE)


def _iterates_names(model: PyModel, fi, loop: ast.For) -> bool:
    """The loop runs over the reference names of a query text: `for n in _get_saved_query_names(q)` or over a variable bound to that."""
    def is_names(e: ast.expr) -> bool:
        return any(isinstance(c, ast.Call) and model.callee(fi, c) == F_NAMES for c in ast.walk(e))

    if is_names(loop.iter):
        return True
    names = {n.id for n in ast.walk(loop.iter) if isinstance(n, ast.Name)}
    for n in walk_no_nested(fi.node):
        if isinstance(n, (ast.Assign, ast.AnnAssign)) and n.value is not None and is_names(n.value):
            tg = n.targets if isinstance(n, ast.Assign) else [n.target]
            if any(isinstance(t, ast.Name) and t.id in names for t in tg):
                return True
    return False


def _flows_from(model: PyModel, fi, source: str) -> set[str]:
    """Names that can only hold values produced by calls to `source` (through copies, dict stores and dict iteration)."""
    tainted: set[str] = set()
    containers: set[str] = set()
    for _ in range(6):
        before = (len(tainted), len(containers))
        for n in walk_no_nested(fi.node):
            if isinstance(n, (ast.Assign, ast.AnnAssign)) and n.value is not None:
                tg = n.targets if isinstance(n, ast.Assign) else [n.target]
                v = n.value
                from_src = (isinstance(v, ast.Call) and model.callee(fi, v) == source) or (isinstance(v, ast.Name) and v.id in tainted)
                for t in tg:
                    if isinstance(t, ast.Name) and from_src:
                        tainted.add(t.id)
                    if isinstance(t, ast.Subscript) and isinstance(t.value, ast.Name) and from_src:
                        containers.add(t.value.id)
                    if isinstance(t, ast.Name) and isinstance(v, ast.Name) and v.id in containers:
                        containers.add(t.id)
                    if isinstance(t, ast.Name) and isinstance(v, ast.DictComp) and ((isinstance(v.value, ast.Call) and model.callee(fi, v.value) == source) or (isinstance(v.value, ast.Name) and v.value.id in tainted)):
                        containers.add(t.id)
            if isinstance(n, ast.NamedExpr) and isinstance(n.value, ast.Call) and model.callee(fi, n.value) == source:
                tainted.add(n.target.id)
            if isinstance(n, (ast.For, ast.comprehension)):
                it = n.iter
                if isinstance(it, ast.Call) and isinstance(it.func, ast.Attribute) and isinstance(it.func.value, ast.Name) and it.func.value.id in containers:
                    if it.func.attr == "items" and isinstance(n.target, ast.Tuple) and len(n.target.elts) == 2 and isinstance(n.target.elts[1], ast.Name):
                        tainted.add(n.target.elts[1].id)
                    if it.func.attr == "values" and isinstance(n.target, ast.Name):
                        tainted.add(n.target.id)
        if (len(tainted), len(containers)) == before:
            break
    return tainted


def _top_level_pipe(clause: str) -> bool:
    depth = 0
    for ch in clause:
        if ch == "(":
            depth += 1
        elif ch == ")":
            depth -= 1
        elif ch == "|" and depth == 0:
            return True
    return False


def _canon(text: str):
    """Canonical filter tree of a WHERE text made of words, `|` and parentheses: juxtaposition = AND, `|` = OR, redundant parentheses removed
    (a group holding one item is that item; an AND inside an AND / an OR inside an OR is spliced in).  None when the parentheses do not balance."""
    toks = text.replace("(", " ( ").replace(")", " ) ").split()
    pos = 0

    def parse_or():
        nonlocal pos
        alts = [parse_and()]
        while pos < len(toks) and toks[pos] == "|":
            pos += 1
            alts.append(parse_and())
        flat = []
        for a in alts:
            flat.extend(a[1:] if isinstance(a, tuple) and a[0] == "or" else [a])
        return flat[0] if len(flat) == 1 else ("or",) + tuple(flat)

    def parse_and():
        nonlocal pos
        items = []
        while pos < len(toks) and toks[pos] not in ("|", ")"):
            if toks[pos] == "(":
                pos += 1
                inner = parse_or()
                if pos >= len(toks) or toks[pos] != ")":
                    raise ValueError("unbalanced")
                pos += 1
                items.append(inner)
            else:
                items.append(toks[pos])
                pos += 1
        flat = []
        for a in items:
            flat.extend(a[1:] if isinstance(a, tuple) and a[0] == "and" else [a])
        return flat[0] if len(flat) == 1 else ("and",) + tuple(flat)

    try:
        tree = parse_or()
    except ValueError:
        return None
    return tree if pos == len(toks) else None


def _refs_closure(pages: dict, names: list) -> set:
    """The scenario's saved queries reachable from `names` through {references} in their first lines."""
    import re

    seen: set = set()
    todo = list(names)
    while todo:
        nm = todo.pop()
        if nm in seen or nm not in pages:
            continue
        seen.add(nm)
        todo.extend(re.findall(r"\{([^{}]*)\}", pages[nm].split("\n")[0]))
    return seen


def expansion_scenarios(run: Run, model: PyModel) -> None:
    """Abstract evaluation of expand_saved_queries over a small virtual zoq/ directory (the interpreter reads the pages from the
    scenario, nothing touches a disk): a reference is replaced by the saved WHERE clause (its O / G clauses cut off), nested
    references are expanded, a clause with a top-level `|` arrives parenthesised (also when it merely starts with `(` and ends
    with `)`), and a reference to a page that does not exist -- directly or nested -- makes the expansion fail (None)."""
    from ..absint import Raised
    from ..virtual import World, vpath

    pages = {"plain": "# W +p O alpha", "alt": "# W a | b\n\n- some old result", "outer": "# W x {alt}", "grp": "# W (o +aa) | (- +bb) G file", "dangling": "# W y {nope}",
             "leaf": "# W +leaf", "left": "# W l {leaf}", "right": "# W r {leaf}", "dia": "# W {left} {right}",
             # a diamond whose shared corner has alternatives: EVERY use of it must arrive grouped
             # names with a dot / a dash / a sub-directory, next to a page named by the part in front of the dot
             "job": "# W +w", "job.urgent": "# W +wu", "at-home": "# W @h", "ctx/desk": "# W @d",
             "altleaf": "# W %ann | %bob", "home": "# W @home {altleaf}", "work": "# W @work {altleaf}", "both": "# W {home} {work}"}
    W = World(model, files={}, old_map=None, indexed=set(), errors=set(), whitelist=[""], contents={f"/Z/zoq/{k}.zoq": v for k, v in pages.items()}, missing="all-but-contents")
    from ..absint import Interp, State

    I = Interp(model, probes=W.probes(), max_states=4000)
    clause = {"plain": "+p", "alt": "a | b", "grp": "(o +aa) | (- +bb)"}
    clause["outer"] = "x (a | b)"
    cases = [("W z {plain}", [("plain", clause["plain"])]), ("W z {alt}", [("alt", clause["alt"])]), ("W {alt} z", [("alt", clause["alt"])]), ("W z {outer}", [("outer", clause["outer"])]),
             ("W z {grp}", [("grp", clause["grp"])]), ("W {plain} {alt}", [("plain", clause["plain"]), ("alt", clause["alt"])]), ("W z {nope}", None), ("W z {dangling}", None), ("W plain text", []),
             # a saved query reached along two paths of an ACYCLIC reference graph (diamond), and the same reference twice in one query
             ("W z {dia}", [("dia", "l +leaf r +leaf")]), ("W {left} {right}", [("left", "l +leaf"), ("right", "r +leaf")]), ("W {plain} z {plain}", [("plain", clause["plain"])]),
             ("W {home} {work}", [("home", "@home (%ann | %bob)"), ("work", "@work (%ann | %bob)")]), ("W z {both}", [("both", "@home (%ann | %bob) @work (%ann | %bob)")]),
             ("W z {job.urgent}", [("job.urgent", "+wu")]), ("W z {job.later}", None), ("W z {at-home} {ctx/desk}", [("at-home", "@h"), ("ctx/desk", "@d")]), ("W z {job}", [("job", "+w")]),
             ("W {altleaf} z {altleaf}", [("altleaf", "%ann | %bob")]), ("W {home} {altleaf}", [("home", "@home (%ann | %bob)"), ("altleaf", "%ann | %bob")])]
    n = 0
    for q, refs in cases:
        try:
            res = I.run_function(F_EXPAND, [vpath("/Z"), q], st=State())
        except Exception as e:
            run.undecided("C15.R1", "expand_saved_queries", f"{q!r}: cannot interpret: {type(e).__name__}: {str(e)[:100]}")
            continue
        for v, s in res:
            n += 1
            if isinstance(v, Raised) and not s.imprecise and v.exc in ("TypeError", "AttributeError", "KeyError", "IndexError", "ValueError", "RecursionError"):
                run.refuted("C15.R2" if refs is None else "C15.R1", "expand_saved_queries", f"{q!r} raises {v.exc}",
                            f"expanding {q!r} dies with an internal {v.exc}" + (" instead of failing cleanly (the referenced page does not exist)" if refs is None else ""), file=FILE)
                continue
            if isinstance(v, Raised) or s.imprecise:
                run.undecided("C15.R1", "expand_saved_queries", f"{q!r}: " + (f"raises {v.exc}" if isinstance(v, Raised) else "; ".join(s.imprecise[:2])))
                continue
            if refs is None:
                run.check("C15.R2", f"{q!r}: a reference to a saved query that does not exist makes the expansion fail", v is None, "expand_saved_queries", f"{q!r} -> {v!r}",
                          f"expanding {q!r} (the referenced page does not exist) yields {v!r} instead of failing: the reference is silently ignored", file=FILE)
                continue
            # acceptable results: each reference replaced by its clause, parenthesised when it has a top-level '|' (optional otherwise)
            accept = {q}
            for name, cl in refs:
                nxt = set()
                for t in accept:
                    forms = [f"({cl})"] + ([] if _top_level_pipe(cl) else [cl])
                    nxt |= {t.replace("{" + name + "}", f) for f in forms}
                accept = nxt
            # nested clause may itself carry optional parentheses around the inner group
            if any(nm == "outer" for nm, _ in refs):
                accept |= {t.replace("(x (a | b))", "x (a | b)") for t in accept} | {t.replace("x (a | b)", "(x (a | b))") for t in accept if "(x (a | b))" not in t}
            reads = {t[1] for t in s.trace if t[0] == "read"}
            unread = sorted(nm for nm in _refs_closure(pages, [nm for nm, _ in refs]) if f"/Z/zoq/{nm}.zoq" not in reads)
            run.check("C15.R4", f"{q!r}: every saved query the expansion depends on is read from its file on this call", not unread, "expand_saved_queries", f"{q!r}: not read: {unread}",
                      f"expanding {q!r} does not read {unread} although the result depends on them: a clause is taken from somewhere else than the saved query's page (a cache), so an edit or deletion "
                      "of that page is not seen", file=FILE)
            # ... or anything that denotes the same filter tree (redundant parentheses around a group / a single item do not matter)
            full = q
            for name, cl in refs:
                full = full.replace("{" + name + "}", f"({cl})")
            # the query language separates words by single blanks only (SPACE in ZorgQuery.g4): a line break spliced in with a clause ends the query there
            one_line = isinstance(v, str) and not (set(v) & set("\n\r\x0b\x0c\u2028\u2029"))
            ok = one_line and (v in accept or ("{" not in v and _canon(v[2:]) is not None and _canon(v[2:]) == _canon(full[2:])))
            why = ""
            if isinstance(v, str) and not ok:
                if not one_line:
                    why = "a line break of the saved page is spliced into the query (the first line's terminator, or later lines of the page): the query language knows no line breaks, so everything after it is lost or the query is rejected"
                elif "{" in v:
                    why = "a reference is left unexpanded"
                elif any(_top_level_pipe(cl) and f"({cl})" not in v for _, cl in refs):
                    why = "a clause containing alternatives is spliced in without parentheses: AND binds tighter than OR, so the surrounding atoms only constrain the first / last alternative"
                else:
                    why = "the spliced text is not the saved WHERE clause (O / G clauses or later lines of the page leak in, or words are lost)"
            run.check("C15.R1" if refs else "C15.R3", f"{q!r} expands to the saved clauses, grouped where they contain alternatives", ok, "expand_saved_queries", f"{q!r} -> {v!r}",
                      f"{q!r} expands to {v!r}; acceptable: {sorted(accept)[:3]} -- {why}", file=FILE)
    run.floor("saved-query expansion scenarios", n, len(cases))
