"""C02 -- notes inherit metadata from the page title and enclosing sections only."""

from __future__ import annotations

import ast
import itertools

from ..absint import Interp, Raised, State
from ..absval import HObj, Opaque
from ..core import Run
from ..filetypestate import COMPILER, SECTION_RULES, STATE_CLS, run_file_typestate, run_handler, set_state_fields, state_fields
from ..listener import rebuild, snap, texts_in
from ..pymodel import PyModel

FILE = "src/zorg/service/compiler/_file_compiler.py"
TAG_KINDS = {"areas": "area", "contexts": "context", "people": "person", "projects": "project"}
LINK_RULES = {"link", "global_link", "local_link", "zid_link", "ref_link", "url"}
SCOPES = ("file", "h1", "h2", "h3", "h4", "note")


def _base(label: str) -> str:
    return label[:-2] if label.endswith(":Q") else label


def _open_labels(stack: tuple) -> set[str]:
    return {SECTION_RULES[r] for r in stack if r in SECTION_RULES}


def leak_checks(run: Run, ts, pid: str = "C02") -> None:
    """R1/R2/R3 over every abstract note construction found by the typestate walk."""
    bad: dict[tuple, tuple] = {}
    seen_labels: dict[tuple, set] = {}
    n = 0
    for ev in ts.notes:
        secs = tuple(r for r in ev.rule_stack if r in SECTION_RULES)
        opened = _open_labels(ev.rule_stack)
        for field in ("areas", "contexts", "people", "projects", "links", "properties", "create_date"):
            tree = ev.kwargs.get(field)
            if tree is None:
                continue
            for leaf in texts_in(tree):
                labels = leaf[1] if leaf[0] == "text" else set(leaf[2].split(",")) - {""}
                kind = leaf[2] if leaf[0] == "text" else leaf[1]
                for lab in labels:
                    n += 1
                    b = _base(lab)
                    quoted = lab.endswith(":Q")
                    seen_labels.setdefault((secs, field), set()).add(b)
                    allowed = {"TITLE", "ITEM"} | opened
                    if field == "properties":
                        allowed |= {"HEAD_REST"}
                    if field == "create_date":
                        allowed |= {"TODAY"}
                    why = None
                    if b.startswith("CLOSED:"):
                        why = f"a value written in an already closed scope ({b[7:]}) is still visible"
                    elif b not in allowed:
                        why = {"BLOCK_COMMENT": "metadata of an in-block comment", "HEAD_REST": "a tag/link/date on a later header line"}.get(b, f"metadata of {b}, which does not enclose the note")
                    elif field == "properties" and quoted:
                        why = "a property written inside a quoted word"
                    if why:
                        bad.setdefault((field, b, quoted), (why, secs, ev))
                    # wiring: each tag list only receives its own kind
                    if field in TAG_KINDS and leaf[0] == "text" and "@" in kind and not kind.endswith("@" + TAG_KINDS[field]):
                        bad.setdefault((field, "kind", kind), (f"`{field}` receives values read from a `{kind.split('@')[-1]}` context", secs, ev))
                    if field == "links" and leaf[0] == "text" and "@" in kind and kind.split("@")[-1] not in LINK_RULES and kind.split("@")[0] not in LINK_RULES:
                        bad.setdefault((field, "kind", kind), (f"`links` receives values read from a `{kind}` context", secs, ev))
    for (field, b, q), (why, secs, ev) in sorted(bad.items(), key=repr):
        run.refuted(f"{pid}.R2", "ZorgFileCompiler", f"{field} of a note under {'>'.join(secs) or 'no section'} can carry {b}{' (quoted)' if q is True else ''}",
                    f"a note constructed under {'>'.join(secs) or 'no section'} can receive in `{field}` {why}", file=FILE,
                    detail=dict(field=field, label=b, sections=secs, handler=ev.handler))
    if not bad:
        run.proved(f"{pid}.R2", f"no closed / foreign / dropped scope label reaches any of the {len(ts.notes)} abstract note constructions ({n} label occurrences)")
    # R3 completeness: each open scope contributes to each kind under its own key
    stacks = sorted({tuple(r for r in ev.rule_stack if r in SECTION_RULES) for ev in ts.notes})
    run.floor("distinct section stacks with notes", len(stacks), 8)
    missing = []
    for secs in stacks:
        want = {"TITLE", "ITEM"} | {SECTION_RULES[r] for r in secs}
        for field in ("areas", "contexts", "people", "projects", "links", "properties", "create_date"):
            got = seen_labels.get((secs, field), set())
            w2 = want | ({"HEAD_REST"} if field == "properties" else set())  # properties: anywhere in the header block
            for lab in sorted(w2 - got):
                missing.append((secs, field, lab))
    for secs, field, lab in missing[:12]:
        run.refuted(f"{pid}.R3", "ZorgFileCompiler", f"{field} under {'>'.join(secs) or 'no section'} never carries {lab}",
                    f"no abstract path lets a {field} value written at {lab} reach a note under {'>'.join(secs) or 'no section'}: that scope's {field} are lost", file=FILE)
    if not missing:
        run.proved(f"{pid}.R3", f"every open scope reaches every metadata kind on some path ({len(stacks)} section stacks x 7 kinds)")
    run.sample(dict(rule=f"{pid}.R2", section_stacks=["/".join(s) for s in stacks], labels_seen={f"{'/'.join(k[0])}:{k[1]}": sorted(v) for k, v in list(seen_labels.items())[:6]}))


def precedence(run: Run, model: PyModel, ts) -> None:
    """R4: innermost scope wins.  For each of the 64 subsets of {title line, H1..H4 header, item} a page skeleton is driven through the
    listener's own methods (enterH1_header .. exitH4_header, enterItem, enterBase_note, enterDate / enterId with provenance labels,
    `_add_prop`), then exitBase_note constructs the note and the provenance of its create_date and of the property `k` (set in every
    chosen scope) is read off the Note(...) call.  Nothing here depends on how the listener state names or groups its fields."""
    from ..filetypestate import NOTE, run_handler
    from ..listener import labels_in

    I = ts.interp

    def step(tree, method, rule, label, need_label=None):
        if f"{COMPILER}.{method}" not in model.funcs:
            return tree
        outs = []
        for v, s, root in run_handler(ts, model, method, rule, label, tree):
            if isinstance(v, Raised):
                continue
            t2 = snap(root, s)
            if need_label is None or need_label in labels_in(t2):
                outs.append(t2)
        if not outs:
            return None
        return outs[0] if len(set(outs)) == 1 else sorted(set(outs), key=repr)[0]

    def add_prop(tree, key, value):
        st = State()
        root = rebuild(tree, st)
        fi = model.func(f"{COMPILER}._add_prop")
        I.ctx_stack.append((fi.module, fi.cls))
        try:
            res = I.call_func(fi.qualname, [root, key, value], {}, st)
        finally:
            I.ctx_stack.pop()
        outs = {snap(root, s) for v, s in res if not isinstance(v, Raised)}
        return next(iter(outs)) if len(outs) == 1 else None

    n_ok = 0
    bad = None
    n = 0
    for bits in itertools.product([False, True], repeat=6):
        present = [sc for sc, b in zip(SCOPES, bits) if b]
        t = ts.tree0
        ok_chain = True

        def mark(t, sc, date_rule="date"):
            t = step(t, "enterDate", date_rule, sc.upper(), need_label=sc.upper())
            if t is None:
                return None
            t = add_prop(t, "k", sc)
            return add_prop(t, f"only_{sc}", sc) if t is not None else None

        t = step(t, "enterHead", "head", "HEAD")
        if t is not None and bits[0]:
            t = mark(t, "file")
        for m, r, lab in (("exitComment", "comment", "HEAD"), ("exitHead", "head", "HEAD")):
            t = step(t, m, r, lab) if t is not None else None
        for lvl in (1, 2, 3, 4):
            if t is None:
                break
            t = step(t, f"enterH{lvl}_header", f"h{lvl}_header", f"H{lvl}")
            if t is not None and bits[lvl]:
                t = mark(t, f"h{lvl}")
            t = step(t, f"exitH{lvl}_header", f"h{lvl}_header", f"H{lvl}") if t is not None else None
        for m, r, lab in (("enterBlock", "block", "BLOCK"), ("enterItem", "item", "ITEM"), ("enterBase_note", "base_note", "ITEM")):
            t = step(t, m, r, lab) if t is not None else None
        if t is not None and bits[5]:
            t = step(t, "enterId", "id", "NOTE")
            t = mark(t, "note") if t is not None else None
        if t is None:
            run.undecided("C02.R4", "ZorgFileCompiler", f"cannot drive the listener through the skeleton with values at {present}")
            return
        before = len(ts.notes)
        for v, s, root in run_handler(ts, model, "exitBase_note", "base_note", "ITEM", t):
            pass
        evs = ts.notes[before:]
        del ts.notes[before:]
        if not evs:
            run.undecided("C02.R4", "ZorgFileCompiler", f"no note is constructed for the skeleton with values at {present}")
            return
        n += 1
        want_date = present[-1].upper() if present else "TODAY"
        got_dates = set()
        got_k = set()
        only_ok = True
        for ev in evs:
            cd = ev.kwargs.get("create_date")
            got_dates |= labels_in(cd) if isinstance(cd, tuple) else {repr(cd)}
            props = ev.kwargs.get("properties")
            d = dict(props[1]) if isinstance(props, tuple) and props and props[0] == "dict" else {}
            got_k.add(d.get("k"))
            only_ok = only_ok and all(d.get(f"only_{sc}") == sc for sc in present)
        ok_d = got_dates == {want_date}
        ok_p = got_k == ({present[-1]} if present else {None}) and only_ok
        if ok_d and ok_p:
            n_ok += 1
        elif bad is None:
            bad = (present, sorted(got_dates), want_date, sorted(map(str, got_k)))
    run.check("C02.R4", "innermost scope wins for dates and same-key properties on all 64 presence patterns", n_ok == 64 and n == 64, "ZorgFileCompiler",
              f"pattern {bad[0] if bad else ''}",
              f"with a date and a property `k` written at {bad[0] if bad else ''}: the note's create_date comes from {bad[1] if bad else ''} (expected {bad[2] if bad else ''}), k = {bad[3] if bad else ''}"
              " -- the innermost enclosing scope must win and every scope's own keys must arrive", file=FILE, detail=dict(patterns_ok=n_ok))
    run.sample(dict(rule="C02.R4", patterns=64, ok=n_ok))


def digit_tags(run: Run, model: PyModel, ts) -> None:
    """R5: a tag value that consists of digits only is never stored."""
    from ..filetypestate import run_handler

    def step(tree, method, rule, label):
        if tree is None or f"{COMPILER}.{method}" not in model.funcs:
            return tree
        outs = {snap(root, s) for v, s, root in run_handler(ts, model, method, rule, label, tree) if not isinstance(v, Raised)}
        return sorted(outs, key=repr)[0] if outs else None

    # the listener states in which a tag can be met, reached through the listener's own methods
    scopes = {}
    t = step(ts.tree0, "enterHead", "head", "HEAD")
    scopes["title line"] = t
    t = step(step(t, "exitComment", "comment", "HEAD"), "exitHead", "head", "HEAD")
    for lvl in (1, 2, 3, 4):
        t = step(t, f"enterH{lvl}_header", f"h{lvl}_header", f"H{lvl}")
        scopes[f"H{lvl} header"] = t
        t = step(t, f"exitH{lvl}_header", f"h{lvl}_header", f"H{lvl}")
    t = step(step(step(t, "enterBlock", "block", "BLOCK"), "enterItem", "item", "ITEM"), "enterBase_note", "base_note", "ITEM")
    scopes["item"] = t
    n = 0
    for on, tree in scopes.items():
        if tree is None:
            run.undecided("C02.R5", "ZorgFileCompiler", f"cannot reach the {on} state through the listener's methods")
            continue
        st = State()
        root = rebuild(tree, st)
        from ..absval import new_text

        val = new_text({"PROBE"}, "tag")
        fi = model.func(f"{COMPILER}._add_tag")
        I = ts.interp
        I.ctx_stack.append((fi.module, fi.cls))
        try:
            res = I.call_func(fi.qualname, [root, "areas", val], {}, st)
        finally:
            I.ctx_stack.pop()
        before = snap(root, State.__new__(State)) if False else tree
        for v, s in res:
            n += 1
            after = snap(root, s)
            stored = any("PROBE" in (leaf[1] if leaf[0] == "text" else ()) for leaf in texts_in(after))
            digit_facts = {k: b for k, b in s.facts.items() if k[0] == val.tid and "isdigit" in str(k[1])}
            if stored:
                ok = bool(digit_facts) and all(b is False for b in digit_facts.values())
                run.check("C02.R5", f"a value stored while {on} was shown not to be digits-only", ok, "_add_tag", f"store under {on} with digit facts {sorted(map(str, digit_facts.values()))}",
                          f"_add_tag stores a tag value (scope flag {on}) on a path where it may consist of digits only", file=FILE)
            if s.imprecise:
                run.undecided("C02.R5", "_add_tag", "; ".join(s.imprecise[:2]))
    run.floor("_add_tag paths", n, 6)


def scope_scenarios(run: Run, model: PyModel, tree0) -> None:
    """A concrete page driven through the listener in ParseTreeWalker order (drive.py): the SAME tag / property value is written at several scopes
    (title line, an item, the header of the section that follows that item, a sub-section, an item again) -- the typestate walk above labels values by
    where they were written and does not model equality of values, so it cannot see a scope that is skipped because its value 'is already there'.
    Every note must carry exactly the values of the title line, its open enclosing sections and itself."""
    from ..absint import State
    from ..drive import Driver, T, header_tree, head_tree, item_tree
    from ..grammar import FILE_LEXER, LexerGrammar

    lx = LexerGrammar(run.repo, FILE_LEXER)
    H = {l: lx.literal_of(f"H{l}_HEADER") for l in (1, 2, 3, 4)}
    if any(v is None for v in H.values()):
        run.undecided("C02.R2", "lexer", "cannot read the section markers from the lexer grammar")
        return

    def block(*items):
        return T("block", kids=list(items))

    page = [
        head_tree("title +T #shared 2024-01-01", 1),
        block(item_tree("-", "first item +X #shared k::v1", None, 3)),
        T("h1_section", kids=[header_tree(1, H[1], "Sec +X +S k::v2", 5), block(item_tree("-", "second item", None, 6), item_tree("-", "third +X +S again", None, 7)),
                              T("h2_section", kids=[header_tree(2, H[2], "Sub +U +X", 8), block(item_tree("-", "fourth", None, 9))]),
                              T("h2_section", kids=[header_tree(2, H[2], "Sub2 +X", 10), block(item_tree("-", "fifth", None, 11))])]),
        T("h1_section", kids=[header_tree(1, H[1], "Other +X", 12), block(item_tree("-", "sixth", None, 13))]),
        T("h1_section", kids=[header_tree(1, H[1], "Last", 14), block(item_tree("-", "seventh", None, 15))]),
        # dated headers, each directly preceded by an undated one-word item (whose note context must not capture the header's date)
        T("h1_section", kids=[header_tree(1, H[1], "Dated 2024-03-05", 16), block(item_tree("-", "alpha beta", None, 17), item_tree("-", "milk", None, 18)),
                              T("h2_section", kids=[header_tree(2, H[2], "Sub 2024-04-06", 19), block(item_tree("-", "gamma", None, 20))]),
                              T("h2_section", kids=[header_tree(2, H[2], "Undated sub", 21), block(item_tree("-", "delta epsilon", None, 22))])]),
        T("h1_section", kids=[header_tree(1, H[1], "Undated", 23), block(item_tree("-", "zeta", None, 24), item_tree("-", "https://example.com/x", None, 25))]),
        # a dated header directly after an item that contains no identifier at all (a bare URL): nothing of that item may capture the header's date
        T("h1_section", kids=[header_tree(1, H[1], "2024-05-07 Tuesday", 26), block(item_tree("-", "eta theta", None, 27), item_tree("-", "https://example.com/y", None, 28)),
                              T("h2_section", kids=[header_tree(2, H[2], "2024-06-08 later", 29), block(item_tree("-", "iota", None, 30))])]),
    ]
    dates = {3: "20240101", 6: "20240101", 7: "20240101", 9: "20240101", 11: "20240101", 13: "20240101", 15: "20240101", 17: "20240305", 18: "20240305", 20: "20240406", 22: "20240305", 24: "20240101", 25: "20240101", 27: "20240507", 28: "20240507", 30: "20240608"}
    want = {3: ({"T", "X"}, {"k": "v1"}), 6: ({"T", "X", "S"}, {"k": "v2"}), 7: ({"T", "X", "S"}, {"k": "v2"}), 9: ({"T", "X", "S", "U"}, {"k": "v2"}), 11: ({"T", "X", "S"}, {"k": "v2"}),
            13: ({"T", "X"}, {}), 15: ({"T"}, {}), 17: ({"T"}, {}), 18: ({"T"}, {}), 20: ({"T"}, {}), 22: ({"T"}, {}), 24: ({"T"}, {}), 25: ({"T"}, {}), 27: ({"T"}, {}), 28: ({"T"}, {}), 30: ({"T"}, {})}
    D = Driver(model)
    st = State()
    try:
        root = D.new_listener(st, tree0)
        raised = None
        for part in page:
            raised = D.walk(st, root, part)
            if raised is not None:
                break
    except Exception as e:  # noqa: BLE001
        run.undecided("C02.R2", "ZorgFileCompiler", f"cannot drive the listener over the scope scenario: {type(e).__name__}: {str(e)[:120]}")
        return
    if raised is not None or st.imprecise:
        run.undecided("C02.R2", "ZorgFileCompiler", "scope scenario: " + (f"raises {raised.exc}" if raised is not None else "; ".join(st.imprecise[:2])))
        return
    by_line = {n.get("line_no"): n for n in D.notes}
    run.floor("notes of the scope scenario", len(by_line), 16)
    for ln, (projects, props) in want.items():
        n = by_line.get(ln)
        if n is None:
            run.refuted("C02.R3", "ZorgFileCompiler", f"scope scenario: no note for line {ln}", f"the item on line {ln} of the scope scenario compiles to no note", file=FILE)
            continue
        got_p = n.get("projects")
        got_k = n.get("properties")
        ok_p = isinstance(got_p, list) and set(got_p) == projects
        dup = sorted({x for x in got_p if got_p.count(x) > 1}) if isinstance(got_p, list) else []
        run.check("C02.R2", f"scope scenario, line {ln}: no project is listed twice", not dup, "ZorgFileCompiler", f"line {ln}: duplicate projects {dup}",
                  f"the note on line {ln} lists {dup} more than once in {got_p}: a value written at several enclosing scopes is not merged (the index's tag link tables are unique per note and tag: "
                  "indexing such a page fails with an integrity error although the page is valid)", file=FILE)
        miss = sorted(projects - set(got_p)) if isinstance(got_p, list) else []
        extra = sorted(set(got_p) - projects) if isinstance(got_p, list) else []
        rid = "C02.R3" if miss else "C02.R2"
        run.check(rid, f"scope scenario, line {ln}: projects are exactly those of the title, the open sections and the item ({sorted(projects)})", ok_p, "ZorgFileCompiler", f"line {ln}: projects {got_p}",
                  f"in a page where +X is written on an item, on the header of the section after it, on sub-sections and on later sections, the note on line {ln} gets projects {got_p}, expected {sorted(projects)}"
                  + (f": {miss} of an enclosing scope is lost (a value that 'was already there' when the header was read is not recorded for the section)" if miss else "")
                  + (f": {extra} leaks in from a closed scope" if extra else ""), file=FILE)
        ok_k = isinstance(got_k, dict) and {k: v for k, v in got_k.items()} == props
        run.check("C02.R4", f"scope scenario, line {ln}: properties are {props}", ok_k, "ZorgFileCompiler", f"line {ln}: properties {got_k}",
                  f"the note on line {ln} gets properties {got_k}, expected {props} (innermost scope that defines the key wins; closed sections contribute nothing)", file=FILE)
        got_d = n.get("create_date")
        got_tag = getattr(got_d, "tag", got_d)
        run.check("C02.R4", f"scope scenario, line {ln}: the create date is that of the nearest enclosing dated scope ({dates[ln]})", got_tag == dates[ln], "ZorgFileCompiler", f"line {ln}: create_date {got_tag}",
                  f"the undated note on line {ln} gets the create date {got_tag}, expected {dates[ln]} (nearest enclosing section header that carries a date, else the title line's): a header's date is lost "
                  "-- e.g. captured by the stale context of the one-word item before the header -- or leaks out of its section", file=FILE)
        got_a = n.get("areas")
        run.check("C02.R2", f"scope scenario, line {ln}: areas are ['shared'] (title line; written again on the first item)", isinstance(got_a, list) and set(got_a) == {"shared"}, "ZorgFileCompiler",
                  f"line {ln}: areas {got_a}", f"the note on line {ln} gets areas {got_a}, expected ['shared'] from the title line", file=FILE)


def check(run: Run) -> None:
    model = PyModel(run.repo)
    run.rule("C02.R1", "credit map: the store that receives an occurrence is determined by its grammar position (title line / later header lines / Hk header / item / in-block comment / quoted)")
    run.rule("C02.R2", "no leak: at every reachable note construction, tags/links/properties/date carry only labels of the title line, header block (properties), open enclosing sections and the item itself")
    run.rule("C02.R3", "completeness: every open scope can reach every metadata kind of a note under it, under the right keyword")
    run.rule("C02.R4", "precedence: innermost non-empty scope wins for create_date and for same-key properties (all 2^6 emptiness patterns)")
    run.rule("C02.R5", "digit-only tag values are dropped on every storing path")
    ts = run_file_typestate(run.repo, model)
    for w in ts.imprecise:
        run.undecided("C02.R2", "typestate", w)
    for h, label, r in ts.raises[:5]:
        run.undecided("C02.R2", h, f"handler raises {r.exc} on an error-free tree at {label}")
    run.floor("abstract note constructions", len(ts.notes), 16)
    run.floor("listener overrides", sum(len(v) for v in ts.handlers.values()), 30)
    leak_checks(run, ts)
    precedence(run, model, ts)
    digit_tags(run, model, ts)
    scope_scenarios(run, model, ts.tree0)
    run.units = dict(typestate=ts.stats, handlers=sum(len(v) for v in ts.handlers.values()), shadowed_alternatives=[list(x) for x in ts.dead_edges],
                     grammar_rules=len(ts.grammar.rule_names))
    run.trusted = ["CPython ast", "antlr4 ATNDeserializer", "ParseTreeWalker contract (enterR, children, exitR)", "ANTLR resolves ambiguity to the lowest alternative"]
    run.assumptions += ["all grammar alternatives except proven-shadowed ones are taken as feasible (over-approximation)", "string equality/deduplication of values is not modelled"]
