"""One module per property: ``check(run)`` records obligations on ``run``."""
