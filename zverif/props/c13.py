"""C13 -- re-running an interrupted index operation converges."""

from __future__ import annotations

import ast

from ..core import Run
from ..effects import Effects
from ..indexing import ack_before_writeback, commit_sites, hashmap_readers, page_then_hashmap
from ..indexscen import create_rules, reindex_rules, writeback_rules
from ..paths import enum_paths, first_index, is_call_to
from ..pymodel import PyModel

ZM = "zorg.storage.sql._zid_manager"


def check(run: Run) -> None:
    model = PyModel(run.repo)
    eff = Effects(model)
    run.rule("C13.R1", "a ZID is durable (next_ids.json written) before get_next returns it")
    run.rule("C13.R2", "in the reindex cascade no hash-map write covering a page precedes the commit of that page")
    run.rule("C13.R3", "a command that skips work by hash does not acknowledge a page while its write-back event is still pending")
    run.rule("C13.R4", "write-back: page write, then hash refresh; no other external effect (in particular no glob-visible temporary file)")
    run.rule("C13.R5", "sessions roll back on exit; the database is committed only at the enumerated sites")
    from .c07 import persistence_scenarios

    persistence_scenarios(run, model, "C13.R1")
    from ..indexscen import nextids_untouched

    nextids_untouched(run, model, "C13.R1")
    run.rule("C13.R6", "redo is idempotent: every processed page is removed from the index before it is added (also pages that look new), and only reindex depends on the content of file_hash.json")
    reindex_rules(run, model, dict(order="C13.R6", ack="C13.R2", recover="C13.R6"))
    from ..indexscen import bus_rules

    bus_rules(run, model, "C13.R2")
    from ..indexing import removal_internals

    removal_internals(run, model, "C13.R6")
    writeback_rules(run, model, "C13.R2")
    create_rules(run, model, "C13.R6")
    run.rule("C13.R7", "a re-run after a kill between the commit of a stamped page and its write-back re-stamps the note from the file's (unstamped) line without losing a word: "
                       "the stamp-table obligations of C11.R1 / C11.R6 (incl. the 'stamped in the index only' valuations), adopted")
    from ..indexing import stamp_table

    sub = Run("C11", run.tier, run.repo)
    stamp_table(sub, model, "C11.R1")
    run.floor("adopted stamp-table obligations", run.adopt(sub, ("C11.R1", "C11.R6"), "C13.R7"), 40)
    ack_before_writeback(run, model, eff, "C13.R3")
    page_then_hashmap(run, model, eff, "C13.R4")
    commit_sites(run, model, eff, "C13.R5")
    # the catalogue of external effects of the two commands (what the crash points are)
    for q in ("zorg.service.handlers.create_database", "zorg.service.handlers.reindex_database", "zorg.service.handlers._update_zo_file"):
        tags = sorted(t for t in eff.may(q) if t.split(":")[0] in ("FILE_WRITE", "FILE_RENAME", "FILE_DELETE", "DB_COMMIT", "DB_ADD", "DB_DELETE", "EVENT", "FILE_TOUCH"))
        run.sample(dict(rule="C13 effect catalogue", function=q.split(".")[-1], may_effects=tags))
        unknown = [t for t in tags if t.startswith(("FILE_WRITE:DERIVED", "FILE_RENAME", "FILE_WRITE:TMP"))]
        run.check("C13.R4", f"{q.split('.')[-1]}: only classified files are written (pages, hash map, whitelist, next ids)", not unknown, q.split(".")[-1], f"effects {unknown}",
                  f"{q.split('.')[-1]} has external effects on files outside the known classes: {unknown}", file="src/zorg/service/handlers.py")
    run.units = dict(functions=["create_database", "reindex_database", "_update_zo_file", "ZIDManager.get_next", "SQLSession.__exit__"])
    run.assumptions += ["torn (partial) writes and actual recovery runs are not decided", "effects are ordered as the statements that cause them"]
