"""C06 -- incremental reindexing is equivalent to rebuilding the index."""

from __future__ import annotations

from ..core import Run
from ..effects import Effects
from ..indexing import removal_internals, zids_before_index
from ..indexscen import reindex_rules, writeback_rules
from ..pymodel import PyModel


def check(run: Run) -> None:
    model = PyModel(run.repo)
    eff = Effects(model)
    run.rule("C06.R1", "change detection: a page is processed exactly when it is missing from the old hash map or its hash differs (truth table)")
    run.rule("C06.R2", "per processed page: remove before add, commit after; removal deletes every note row, the sections, blocks and the page row")
    run.rule("C06.R3", "stale pages: names of the old map that are no longer on disk reach remove_file_by_name")
    run.rule("C06.R4", "hash acknowledgement covers only pages this command processed (both in reindex_database and in the write-back)")
    run.rule("C06.R5", "what is stored for a new note is what a fresh index would store: index body and file line drop the same leading word; no re-flowing split/join")
    # abstract runs of `db reindex` over generic worlds (new / changed / unchanged / fixed / vanished pages; a restricted reindex)
    reindex_rules(run, model, dict(change="C06.R1", order="C06.R2", stale="C06.R3", ack="C06.R4"))
    from ..indexscen import bus_rules

    bus_rules(run, model, "C06.R4")
    removal_internals(run, model, "C06.R2")
    writeback_rules(run, model, "C06.R4")
    zids_before_index(run, model, "C06.R5")
    run.units = dict(functions=["handlers.reindex_database", "handlers._update_zo_file", "SQLRepo.remove_file_by_name", "SQLRepo.add_file", "_repo._add_zids"])
    run.assumptions += ["equality of index contents over edit histories is not decided; these are necessary conditions", "sha256 collisions ignored"]
