"""C16 -- template initialisation never overwrites existing files."""

from __future__ import annotations

import ast
import re

from ..core import Run
from ..decide import formula, path_constraints, satisfiable, single_bool_defs
from ..effects import Effects
from ..flatten import flat_info
from ..paths import enum_paths, first_index
from ..pymodel import PyModel, walk_no_nested
from ..util import base_name, kwarg, mutated_names, names_loaded

F_INIT = "zorg.service.templates.init_from_template"
F_RENDER = "zorg.service.templates.ZorgTemplateManager.render"
F_BUILD = "zorg.service.templates.ZorgTemplateManager._build_template_in_dir"
F_VARVAL = "zorg.shared.common._var_map_value"
FILE = "src/zorg/service/templates.py"


def init_scenarios(run: Run, model: PyModel, rid_as: str | None = None) -> None:
    """Abstract runs of init_from_template over a virtual notes directory with a configured pattern map whose patterns are opaque objects answering
    `match` as the scenario says (nothing is rendered: ZorgTemplateManager.render is a recorded marker): the template rendered is the one of the FIRST
    pattern, in configuration order, that matches -- with that match's groups and nobody else's; no match and no explicit template writes nothing; an
    existing target is left alone unless overwriting was requested; the text written is exactly the rendering."""
    from ..absint import Interp, Raised, State
    from ..absval import HObj, Opaque, Ref
    from ..virtual import World, vpath

    fi = model.func(F_INIT)
    n = 0

    def R(rid: str) -> str:
        return rid_as or rid

    scen = [
        # label, which patterns match, explicit template, target exists, overwrite, expected (template name, groups) or None
        ("second and third pattern match", (False, True, True), None, False, False, ("t2.zot", {"g2": "from-P2"})),
        ("only the last pattern matches", (False, False, True), None, False, False, ("t3.zot", {"g3": "from-P3"})),
        ("all patterns match", (True, True, True), None, False, False, ("t1.zot", {"g1": "from-P1"})),
        ("no pattern matches, no template given", (False, False, False), None, False, False, None),
        ("no pattern matches, explicit template", (False, False, False), "given.zot", False, False, ("given.zot", {})),
        ("target exists, overwrite not requested", (True, True, True), None, True, False, None),
        ("target exists, overwrite requested", (False, True, False), None, True, True, ("t2.zot", {"g2": "from-P2"})),
        ("target exists, overwrite requested, no pattern matches", (False, False, False), None, True, True, None),
        ("the caller passes a variable named like a capture", (False, True, False), None, False, False, ("t2.zot", {"g2": "from-P2"})),
    ]
    for label, matches, explicit, exists, overwrite, want in scen:
        W = World(model, files={}, old_map=None, indexed=set(), errors=set(), whitelist=[], contents=({"/Z/new/page.zo": "OLD"} if exists else {}), missing="all-but-contents")
        probes = W.probes()
        base_m = probes["method:*"]
        rendered: list = []

        def meth(I, recv, name, args, kwargs, st, node, _m=matches):
            if recv.cls == "vpattern" and name in ("match", "search", "fullmatch"):
                k = int(recv.tag)
                st.trace.append(("match", k, args[0] if args else None))
                return [(Opaque("vmatch", recv.tag) if _m[k - 1] else None, st)]
            if recv.cls == "vmatch" and name == "groupdict":
                # every match also has a group that matched the empty string: it is a captured variable like any other (a template can tell "" from undefined)
                return [(st.alloc(HObj("dict", fields={f"g{recv.tag}": f"from-P{recv.tag}", f"e{recv.tag}": ""})), st)]
            if recv.cls == "vmatch" and name == "group":
                return [(f"from-P{recv.tag}", st)]
            return base_m(I, recv, name, args, kwargs, st, node)

        def render(I, args, kwargs, st, node):
            tp = args[1] if len(args) > 1 else kwargs.get("template_path")
            vm = args[2] if len(args) > 2 else kwargs.get("var_map")
            snap = dict(st.obj(vm).fields) if isinstance(vm, Ref) and st.obj(vm).kind == "dict" else vm
            rendered.append((getattr(tp, "tag", tp), snap))
            return [(f"RENDERED#{len(rendered)}", st)]

        def mk_manager(I, args, kwargs, st, node):
            return [(st.alloc(HObj("obj", cls="zorg.service.templates.ZorgTemplateManager", fields=dict(_zdir=args[0] if args else None))), st)]

        probes["method:*"] = meth
        probes[F_RENDER] = render
        probes["zorg.service.templates.ZorgTemplateManager"] = mk_manager
        I = Interp(model, probes=probes, max_states=2000)
        st = State()
        pmap = st.alloc(HObj("dict", fields={Opaque("vpattern", str(k)): vpath(f"t{k}.zot") for k in (1, 2, 3)}))
        kwargs = dict(should_overwrite_existing=overwrite)
        if "caller passes" in label:
            kwargs["var_map"] = st.alloc(HObj("dict", fields={"g2": "from-the-caller", "other": "kept"}))
        if explicit:
            kwargs["template"] = vpath(explicit)
        try:
            res = I.run_function(F_INIT, [vpath("/Z"), pmap, vpath("new/page.zo")], kwargs, st=st)
        except Exception as e:  # noqa: BLE001
            run.undecided(R("C16.R2"), "init_from_template", f"{label}: cannot interpret: {type(e).__name__}: {str(e)[:100]}")
            continue
        if len(res) != 1:
            run.undecided(R("C16.R2"), "init_from_template", f"{label}: {len(res)} abstract outcomes on a concrete scenario")
            continue
        v, s = res[0]
        n += 1
        if isinstance(v, Raised) or s.imprecise:
            run.undecided(R("C16.R2"), "init_from_template", f"{label}: " + (f"raises {v.exc}" if isinstance(v, Raised) else "; ".join(s.imprecise[:2])))
            continue
        written = {k: t for k, t in s.meta.get("vfiles", {}).items()}
        asked = [t[2] for t in s.trace if t[0] == "match"]
        if want is None:
            rid = R("C16.R1" if exists and not overwrite else "C16.R3")
            last = [t[0] for t in s.trace if t[0] in ("unlink", "write_text", "open_w") and t[1] == "/Z/new/page.zo"][-1:]
            gone = last == ["unlink"]
            run.check(rid, f"{label}: nothing is rendered or written", not written and not rendered and not gone, "init_from_template", f"{label}: wrote {sorted(written)} rendered {rendered}" + (" target removed" if gone else ""),
                      f"with {label}, init_from_template renders {rendered} and writes {sorted(written)}{', and removes the existing target' if gone else ''}: " + (
                          "an existing page is overwritten without the user asking" if exists and not overwrite else "an existing page is lost although no template applies (nothing was to be written)" if exists else
                          "a page is created although no template applies"), file=FILE, node=fi.node)
            continue
        tname, groups = want
        ok_t = len(rendered) == 1 and isinstance(rendered[0][0], str) and rendered[0][0].rsplit("/", 1)[-1] == tname
        run.check(R("C16.R2"), f"{label}: the template of the first matching pattern (configuration order) is rendered, once", ok_t, "init_from_template", f"{label}: rendered {[r[0] for r in rendered]}",
                  f"with {label}, the templates rendered are {[r[0] for r in rendered]}, expected {tname} once: a later / earlier pattern wins or the explicit template is ignored", file=FILE, node=fi.node)
        if ok_t:
            vm = rendered[0][1]
            ok_g = isinstance(vm, dict) and {k: x for k, x in vm.items() if str(k).startswith("g")} == groups and ("caller passes" not in label or vm.get("other") == "kept")
            ok_g = ok_g and {k: x for k, x in vm.items() if str(k).startswith("e")} == {"e" + k[1:]: "" for k in groups}
            run.check(R("C16.R2"), f"{label}: the template variables are the groups of that very match", ok_g, "init_from_template", f"{label}: variables {vm}",
                      f"with {label}, the template receives the variables {vm}, expected the groups {groups} of the winning match only, an empty capture included as "" (a variable of the caller with the same name gives way to the capture; its other variables are kept)", file=FILE, node=fi.node)
        ok_w = written == {"/Z/new/page.zo": "RENDERED#1"}
        run.check(R("C16.R3"), f"{label}: the target, and only the target, receives exactly the rendering", ok_w, "init_from_template", f"{label}: wrote {written}",
                  f"with {label}, the files written are {written}, expected only the target /Z/new/page.zo with the rendering", file=FILE, node=fi.node)
        if asked:
            run.check(R("C16.R2"), f"{label}: patterns are matched against the page's name relative to the notes directory", all(a == "new/page.zo" for a in asked), "init_from_template", f"{label}: matched against {asked[:2]}",
                      f"the patterns are matched against {asked[:2]} rather than the page path relative to the notes directory ('new/page.zo')", file=FILE, node=fi.node)
    run.floor("init_from_template scenarios", n, 9)


def check(run: Run) -> None:
    model = PyModel(run.repo)
    eff = Effects(model)
    run.rule("C16.R1", "no-clobber: no path of init_from_template reaches a write of the target under exists(target) and not overwrite, for every valuation of the other atoms")
    run.rule("C16.R2", "first match wins, by abstract runs of init_from_template over a configured map of opaque patterns: the template of the first matching pattern in configuration order is rendered once, with that match's groups only, matched against the page name relative to the notes directory")
    run.rule("C16.R3", "no match, no write, by abstract runs of init_from_template: with no matching pattern and no explicit template nothing is rendered or written; otherwise the target, and only the target, receives exactly the rendering")
    run.rule("C16.R4", "who may overwrite: only call sites fed by a configuration field pass should_overwrite_existing")
    run.rule("C16.R5", "date-like captures: the recogniser regex and the strptime format of _var_map_value agree on YYYYMMDD")
    run.rule("C16.R7", "captured variables are written verbatim: no Jinja environment on the template path escapes its output (autoescape off)")
    run.rule("C16.R6", "the rendered template is rebuilt from the matched template on every call (no stale cached copy)")
    # the operation = init_from_template with its private helpers folded back in (extracting `_first_matching_template`
    # or `_render_to_file` changes no behaviour and must not change the verdict)
    fi = flat_info(model, F_INIT)
    fn = fi.node
    params = [a.arg for a in fi.params()]
    ow = [a.arg for a in fi.params() if "overwrite" in a.arg]
    if len(ow) != 1:
        run.undecided("C16.R1", "init_from_template", "cannot identify the overwrite flag parameter")
        return
    ow = ow[0]
    dflt = dict(zip([a.arg for a in fn.args.kwonlyargs], fn.args.kw_defaults))
    d = dflt.get(ow)
    run.check("C16.R1", "overwrite flag defaults to False", isinstance(d, ast.Constant) and d.value is False, "init_from_template", f"default of {ow}",
              f"`{ow}` does not default to False", file=FILE, node=fn)
    # writes of the target
    writes = [(n, e) for n, e in eff.direct(fi) if e.kind in ("FILE_WRITE", "FILE_RENAME", "FILE_DELETE")]
    run.floor("target writes in init_from_template", len(writes), 1)
    defs = single_bool_defs(fn)
    paths = enum_paths(fn)
    n_w = 0
    for p in paths:
        for wnode, e in writes:
            idx = first_index(p, lambda n, w=wnode: n is w)
            if idx < 0:
                continue
            n_w += 1
            target = base_name(wnode.func.value) if isinstance(wnode, ast.Call) and isinstance(wnode.func, ast.Attribute) else None
            if target is None:
                run.undecided("C16.R1", "init_from_template", f"cannot identify the written path in {ast.unparse(wnode)[:60]}")
                continue

            def matcher(expr, target=target):
                if isinstance(expr, ast.Call) and isinstance(expr.func, ast.Attribute) and expr.func.attr in ("exists", "is_file") and base_name(expr.func.value) == target and not expr.args:
                    return ("exists", True)
                if isinstance(expr, ast.Name) and expr.id == ow:
                    return ("overwrite", True)
                return None

            cons = path_constraints(p, idx, matcher, defs)
            try:
                val = satisfiable(cons, {"exists": True, "overwrite": False})
            except OverflowError as ex:
                run.undecided("C16.R1", "init_from_template", str(ex))
                continue
            # the path tested must be the path written: no rebinding of the target after the test
            rebinds = [i for i, ev in enumerate(p.events[:idx]) if ev[0] == "stmt" and isinstance(ev[1], (ast.Assign, ast.AugAssign, ast.AnnAssign))
                       and any(isinstance(t, ast.Name) and t.id == target for t in ast.walk(ev[1]) if isinstance(getattr(t, "ctx", None), ast.Store))]
            tests = [i for i, ev in enumerate(p.events[:idx]) if ev[0] == "assume" and matcher_hit(ev[1], matcher, defs)]
            rebound = bool(tests) and any(r > min(tests) for r in rebinds)
            ok = val is None and not rebound
            msg = ("the target file is written on a path on which it may exist and overwriting was not requested"
                   + (f" (e.g. with {', '.join(f'{k}={v}' for k, v in sorted(val.items()))})" if val else "")
                   + (" -- the path variable is re-bound between the existence test and the write" if rebound else ""))
            run.check("C16.R1", f"write at line {wnode.lineno} unreachable under exists and not overwrite", ok, "init_from_template",
                      wnode, msg, file=FILE, node=wnode, detail=dict(valuation=val, path=p.describe()))
    run.floor("writing paths of init_from_template", n_w, 2)
    run.sample(dict(rule="C16.R1", paths=len(paths), writing_paths=n_w, atoms=["exists(new_path)", ow]))

    # ---- R2 / R3 by scenarios
    init_scenarios(run, model)

    # ---- R4
    sites = model.callers_of(F_INIT)
    run.floor("call sites of init_from_template", len(sites), 4)
    for caller, call in sites:
        v = kwarg(call, ow)
        if v is None:
            run.proved("C16.R4", f"{caller.qualname.split('.')[-1]}: flag not passed (default False)")
            continue
        txt = ast.unparse(v)
        ok = (isinstance(v, ast.Constant) and v.value is False) or bool(re.fullmatch(r"cfg\.\w*overwrite\w*", txt))
        run.check("C16.R4", f"{caller.qualname.split('.')[-1]}: flag comes from configuration", ok, caller.qualname.split(".")[-1], call,
                  f"{caller.qualname} passes {ow}={txt}: existing files are overwritten without the user asking", file=caller.file, node=call)
    run.sample(dict(rule="C16.R4", call_sites=[f"{c.qualname}:{k.lineno}" for c, k in sites]))

    # ---- R5
    from ..util import regex_tests

    fv = flat_info(model, F_VARVAL)
    rts = regex_tests(fv)
    pats = [c for c, _, _ in rts]
    fmts = [n for n in walk_no_nested(fv.node) if isinstance(n, ast.Call) and ast.unparse(n.func).endswith("strptime")]
    fmt_const = None
    if len(fmts) == 1 and len(fmts[0].args) > 1:
        a1 = fmts[0].args[1]
        fmt_const = a1.value if isinstance(a1, ast.Constant) else (fv.module.assigns[a1.id].value if isinstance(a1, ast.Name) and isinstance(fv.module.assigns.get(a1.id), ast.Constant) else None)
    if len(pats) == 1 and len(fmts) == 1 and fmt_const is not None:
        rx, fmt = rts[0][1], fmt_const
        import re._parser as sp  # regex AST, no matching performed

        items = list(sp.parse(rx))
        width = 0
        anchored_start = bool(items) and str(items[0][0]) == "AT" or rts[0][2] in ("match", "fullmatch")
        anchored_end = bool(items) and str(items[-1][0]) == "AT" or rts[0][2] == "fullmatch"
        digits_only = True
        for op, av in items:
            if str(op) == "AT":
                continue
            if str(op) == "MAX_REPEAT":
                lo, hi, sub = av
                if lo != hi:
                    digits_only = False
                width += lo
            elif str(op) in ("IN", "LITERAL"):
                width += 1
            else:
                digits_only = False
        ok = digits_only and width == 8 and anchored_start and anchored_end and fmt == "%Y%m%d"
        run.check("C16.R5", "date-like captures: 8 anchored digits parsed with %Y%m%d", ok, "_var_map_value", pats[0],
                  f"regex {rx!r} (width {width}, anchored {anchored_start}/{anchored_end}) and format {fmt!r} do not agree on YYYYMMDD", file=fv.file, node=pats[0])
    elif not pats and len(fmts) == 1:
        src = ast.unparse(fv.node)
        len8 = any(isinstance(c, ast.Compare) and ast.unparse(c.left).startswith("len(") and len(c.comparators) == 1 and isinstance(c.comparators[0], ast.Constant) and c.comparators[0].value == 8
                   and isinstance(c.ops[0], (ast.Eq, ast.NotEq)) for c in ast.walk(fv.node))
        digits = ".isdigit()" in src or ".isdecimal()" in src
        fmt = fmts[0].args[1].value if len(fmts[0].args) > 1 and isinstance(fmts[0].args[1], ast.Constant) else None
        run.check("C16.R5", "date-like captures: exactly 8 digits parsed with %Y%m%d", len8 and digits and fmt == "%Y%m%d", "_var_map_value", fmts[0],
                  "strptime decides alone what is date-like: %m and %d also accept one digit and %Y%m%d accepts surrounding forms the path pattern never meant as a date, so captures such as "
                  "'202411' or '2024111' are rendered as dates (2024-01-01 / 2024-01-11) instead of as the text captured from the path", file=fv.file, node=fmts[0])
    else:
        run.undecided("C16.R5", "_var_map_value", "expected one regex test and one strptime call with literal arguments")

    # ---- R6
    fb = model.func(F_BUILD)
    bw = [(n, e) for n, e in eff.direct(fb) if e.kind == "FILE_WRITE"]
    run.floor("writes of the stripped template copy", len(bw), 1)
    for p in enum_paths(fb.node):
        if p.outcome == "raise":
            continue
        hit = any(first_index(p, lambda n, w=w: n is w) >= 0 for w, _ in bw)
        run.check("C16.R6", "every call rebuilds the stripped template copy", hit, "_build_template_in_dir", "path without write",
                  "a path through _build_template_in_dir returns without rewriting the temporary template copy: a stale copy (e.g. of another "
                  "template with the same file name) is rendered", file=FILE, node=fb.node, detail=dict(path=p.describe()))
    fr = model.func(F_RENDER)
    for p in enum_paths(fr.node):
        g = first_index(p, lambda n: isinstance(n, ast.Call) and isinstance(n.func, ast.Attribute) and n.func.attr == "get_template")
        b = first_index(p, lambda n: isinstance(n, ast.Call) and isinstance(n.func, ast.Attribute) and n.func.attr == "_build_template_in_dir")
        if g >= 0:
            run.check("C16.R6", "render builds the copy before loading it", 0 <= b < g, "ZorgTemplateManager.render", "get_template before build",
                      "render() loads the template without first rebuilding its stripped copy", file=FILE, node=fr.node)
    # no module-level / cross-call memo consulted by init_from_template or render
    mi = model.module_of("zorg.service.templates")
    glob = {k for k, v in mi.assigns.items() if isinstance(v, (ast.Dict, ast.List, ast.Set)) or (isinstance(v, ast.Call) and ast.unparse(v.func) in ("dict", "set", "list"))}
    used = sorted(glob & (names_loaded(fn) | names_loaded(fr.node) | names_loaded(fb.node)))
    run.check("C16.R6", "no module-level cache in the template path", not used, "templates", used[0] if used else "-",
              f"module-level container `{used[0] if used else ''}` is consulted while initialising from a template", file=FILE)
    # ---- R7: variables are written as captured: the Jinja environment does not escape (library fact: autoescape defaults to off; when on, & < > ' " become HTML entities)
    envs = []
    for q in sorted(model.reachable([F_INIT])):
        f = model.funcs[q]
        for c in ast.walk(f.node):
            if isinstance(c, ast.Call) and ast.unparse(c.func).split(".")[-1] in ("Environment", "SandboxedEnvironment", "Template", "NativeEnvironment") and "jinja" in ast.unparse(c.func).lower() + " ".join(f.module.imports.values()).lower():
                envs.append((f, c))
    run.floor("Jinja environments on the template path", len(envs), 1)
    for f, c in envs:
        ae = kwarg(c, "autoescape")
        off = ae is None or (isinstance(ae, ast.Constant) and not ae.value)
        if isinstance(ae, ast.Call) and ast.unparse(ae.func).split(".")[-1] == "select_autoescape":
            # escapes by template file extension (html / htm / xml unless told otherwise): off for .zot templates unless they are named or `default=True`
            txt = ast.unparse(ae)
            dflt = kwarg(ae, "default")
            off = "zot" not in txt and not (isinstance(dflt, ast.Constant) and dflt.value)
        elif ae is not None and not isinstance(ae, ast.Constant):
            run.undecided("C16.R7", f.name, f"autoescape is `{ast.unparse(ae)[:50]}`: not a constant")
            continue
        run.check("C16.R7", f"{f.name}: the Jinja environment writes variables verbatim (no autoescape)", off, f.name, c,
                  f"`{ast.unparse(c)[:80]}` turns on autoescaping: a variable captured from the page path (or a parent page name) that contains & < > ' or \" is written as an HTML entity, "
                  "so the page is not the rendering with the captured variables", file=f.file, node=c)
    run.units = dict(functions=[F_INIT, F_RENDER, F_BUILD, F_VARVAL], call_sites=len(sites))
    run.assumptions += ["jinja2 renders the file it is given", "Path.exists / write_text semantics"]


def matcher_hit(expr: ast.expr, matcher, defs) -> bool:
    from ..decide import atoms

    f = formula(expr, matcher, defs)
    return bool(atoms(f) & {"exists", "overwrite"})


def _explicit_template(p, idx: int, params: list[str]) -> bool:
    """The path assumes the *parameter* template (through aliases) is not None."""
    alias: dict[str, str] = {}
    for ev in p.events[:idx]:
        if ev[0] == "stmt" and isinstance(ev[1], ast.Assign) and len(ev[1].targets) == 1 and isinstance(ev[1].targets[0], ast.Name):
            t = ev[1].targets[0].id
            if isinstance(ev[1].value, ast.Name):
                alias[t] = alias.get(ev[1].value.id, ev[1].value.id)
            else:
                alias[t] = "<computed>"
        if ev[0] == "assume":
            e, pol = ev[1], ev[2]
            if isinstance(e, ast.Compare) and len(e.ops) == 1 and isinstance(e.comparators[0], ast.Constant) and e.comparators[0].value is None and isinstance(e.left, ast.Name):
                src = alias.get(e.left.id, e.left.id)
                is_none = isinstance(e.ops[0], (ast.Is, ast.Eq)) == pol
                if src in params and "template" in src and not is_none:
                    return True
    return False


def _asserts_match(e: ast.expr, pol: bool) -> bool:
    """The assumption says that a pattern match succeeded (`if m`, `if (m := p.match(..))`, `if m is not None`)."""
    if isinstance(e, ast.Compare) and len(e.ops) == 1 and isinstance(e.comparators[0], ast.Constant) and e.comparators[0].value is None:
        positive = isinstance(e.ops[0], (ast.IsNot, ast.NotEq))
        return "match" in ast.unparse(e.left) and (positive == pol)
    if isinstance(e, (ast.NamedExpr, ast.Call, ast.Name, ast.Attribute)):
        return pol is True and "match" in ast.unparse(e)
    return False
