"""C16 -- template initialisation never overwrites existing files."""

from __future__ import annotations

import ast
import re

from ..core import Run
from ..decide import formula, path_constraints, satisfiable, single_bool_defs
from ..effects import Effects
from ..flatten import flat_info
from ..paths import enum_paths, first_index
from ..pymodel import PyModel, walk_no_nested
from ..util import base_name, kwarg, mutated_names, names_loaded

F_INIT = "zorg.service.templates.init_from_template"
F_RENDER = "zorg.service.templates.ZorgTemplateManager.render"
F_BUILD = "zorg.service.templates.ZorgTemplateManager._build_template_in_dir"
F_VARVAL = "zorg.shared.common._var_map_value"
FILE = "src/zorg/service/templates.py"


def check(run: Run) -> None:
    model = PyModel(run.repo)
    eff = Effects(model)
    run.rule("C16.R1", "no-clobber: no path of init_from_template reaches a write of the target under exists(target) and not overwrite, for every valuation of the other atoms")
    run.rule("C16.R2", "first match wins: the pattern loop iterates the map as given and leaves at the first match")
    run.rule("C16.R3", "no match, no write: every writing path either matched a pattern or was given an explicit template")
    run.rule("C16.R4", "who may overwrite: only call sites fed by a configuration field pass should_overwrite_existing")
    run.rule("C16.R5", "date-like captures: the recogniser regex and the strptime format of _var_map_value agree on YYYYMMDD")
    run.rule("C16.R6", "the rendered template is rebuilt from the matched template on every call (no stale cached copy)")
    # the operation = init_from_template with its private helpers folded back in (extracting `_first_matching_template`
    # or `_render_to_file` changes no behaviour and must not change the verdict)
    fi = flat_info(model, F_INIT)
    fn = fi.node
    params = [a.arg for a in fi.params()]
    ow = [a.arg for a in fi.params() if "overwrite" in a.arg]
    if len(ow) != 1:
        run.undecided("C16.R1", "init_from_template", "cannot identify the overwrite flag parameter")
        return
    ow = ow[0]
    dflt = dict(zip([a.arg for a in fn.args.kwonlyargs], fn.args.kw_defaults))
    d = dflt.get(ow)
    run.check("C16.R1", "overwrite flag defaults to False", isinstance(d, ast.Constant) and d.value is False, "init_from_template", f"default of {ow}",
              f"`{ow}` does not default to False", file=FILE, node=fn)
    # writes of the target
    writes = [(n, e) for n, e in eff.direct(fi) if e.kind in ("FILE_WRITE", "FILE_RENAME", "FILE_DELETE")]
    run.floor("target writes in init_from_template", len(writes), 1)
    defs = single_bool_defs(fn)
    paths = enum_paths(fn)
    n_w = 0
    for p in paths:
        for wnode, e in writes:
            idx = first_index(p, lambda n, w=wnode: n is w)
            if idx < 0:
                continue
            n_w += 1
            target = base_name(wnode.func.value) if isinstance(wnode, ast.Call) and isinstance(wnode.func, ast.Attribute) else None
            if target is None:
                run.undecided("C16.R1", "init_from_template", f"cannot identify the written path in {ast.unparse(wnode)[:60]}")
                continue

            def matcher(expr, target=target):
                if isinstance(expr, ast.Call) and isinstance(expr.func, ast.Attribute) and expr.func.attr in ("exists", "is_file") and base_name(expr.func.value) == target and not expr.args:
                    return ("exists", True)
                if isinstance(expr, ast.Name) and expr.id == ow:
                    return ("overwrite", True)
                return None

            cons = path_constraints(p, idx, matcher, defs)
            try:
                val = satisfiable(cons, {"exists": True, "overwrite": False})
            except OverflowError as ex:
                run.undecided("C16.R1", "init_from_template", str(ex))
                continue
            # the path tested must be the path written: no rebinding of the target after the test
            rebinds = [i for i, ev in enumerate(p.events[:idx]) if ev[0] == "stmt" and isinstance(ev[1], (ast.Assign, ast.AugAssign, ast.AnnAssign))
                       and any(isinstance(t, ast.Name) and t.id == target for t in ast.walk(ev[1]) if isinstance(getattr(t, "ctx", None), ast.Store))]
            tests = [i for i, ev in enumerate(p.events[:idx]) if ev[0] == "assume" and matcher_hit(ev[1], matcher, defs)]
            rebound = bool(tests) and any(r > min(tests) for r in rebinds)
            ok = val is None and not rebound
            msg = ("the target file is written on a path on which it may exist and overwriting was not requested"
                   + (f" (e.g. with {', '.join(f'{k}={v}' for k, v in sorted(val.items()))})" if val else "")
                   + (" -- the path variable is re-bound between the existence test and the write" if rebound else ""))
            run.check("C16.R1", f"write at line {wnode.lineno} unreachable under exists and not overwrite", ok, "init_from_template",
                      wnode, msg, file=FILE, node=wnode, detail=dict(valuation=val, path=p.describe()))
            # R3
            matched = any(ev[0] == "assume" and _asserts_match(ev[1], ev[2]) for ev in p.events[:idx])
            explicit = _explicit_template(p, idx, params)
            run.check("C16.R3", f"write at line {wnode.lineno} only after a pattern matched or with an explicit template", matched or explicit,
                      "init_from_template", "write without match", "a path writes the target although no pattern matched and no template was given",
                      file=FILE, node=wnode, detail=dict(path=p.describe()))
    run.floor("writing paths of init_from_template", n_w, 2)
    run.sample(dict(rule="C16.R1", paths=len(paths), writing_paths=n_w, atoms=["exists(new_path)", ow]))

    # ---- R2
    loops = [n for n in walk_no_nested(fn) if isinstance(n, ast.For) and any("match" in ast.unparse(c.func) for c in ast.walk(n) if isinstance(c, ast.Call))]
    if len(loops) != 1:
        run.undecided("C16.R2", "init_from_template", f"expected one pattern loop, found {len(loops)}")
    else:
        loop = loops[0]
        it = ast.unparse(loop.iter)
        plain = bool(re.fullmatch(r"\w+\.items\(\)", it)) and base_name(loop.iter) in params
        run.check("C16.R2", "patterns are tried in configuration order", plain, "init_from_template", loop.iter,
                  f"the pattern loop iterates `{it}` rather than the configured map in its own order", file=FILE, node=loop)
        ifs = [s for s in loop.body if isinstance(s, ast.If)]
        ok = False
        if len(ifs) == 1:
            last = ifs[0].body[-1]
            ok = isinstance(last, (ast.Break, ast.Return))
        run.check("C16.R2", "the loop leaves at the first match", ok, "init_from_template", ifs[0].test if ifs else loop,
                  "the pattern loop does not stop at the first matching pattern (a later pattern overrides it)", file=FILE, node=loop)
        # template and variables come from that very iteration
        tvars = {n.id for n in ast.walk(loop.target) if isinstance(n, ast.Name)}
        assigned_from_iter = any(isinstance(s, ast.Assign) and names_loaded(s.value) & tvars for s in (ifs[0].body if ifs else []))
        run.check("C16.R2", "matched template is the one of the matching iteration", assigned_from_iter, "init_from_template", "template binding",
                  "the matched template is not taken from the matching iteration", file=FILE, node=loop)

    # ---- R4
    sites = model.callers_of(F_INIT)
    run.floor("call sites of init_from_template", len(sites), 4)
    for caller, call in sites:
        v = kwarg(call, ow)
        if v is None:
            run.proved("C16.R4", f"{caller.qualname.split('.')[-1]}: flag not passed (default False)")
            continue
        txt = ast.unparse(v)
        ok = (isinstance(v, ast.Constant) and v.value is False) or bool(re.fullmatch(r"cfg\.\w*overwrite\w*", txt))
        run.check("C16.R4", f"{caller.qualname.split('.')[-1]}: flag comes from configuration", ok, caller.qualname.split(".")[-1], call,
                  f"{caller.qualname} passes {ow}={txt}: existing files are overwritten without the user asking", file=caller.file, node=call)
    run.sample(dict(rule="C16.R4", call_sites=[f"{c.qualname}:{k.lineno}" for c, k in sites]))

    # ---- R5
    from ..util import regex_tests

    fv = flat_info(model, F_VARVAL)
    rts = regex_tests(fv)
    pats = [c for c, _, _ in rts]
    fmts = [n for n in walk_no_nested(fv.node) if isinstance(n, ast.Call) and ast.unparse(n.func).endswith("strptime")]
    fmt_const = None
    if len(fmts) == 1 and len(fmts[0].args) > 1:
        a1 = fmts[0].args[1]
        fmt_const = a1.value if isinstance(a1, ast.Constant) else (fv.module.assigns[a1.id].value if isinstance(a1, ast.Name) and isinstance(fv.module.assigns.get(a1.id), ast.Constant) else None)
    if len(pats) == 1 and len(fmts) == 1 and fmt_const is not None:
        rx, fmt = rts[0][1], fmt_const
        import re._parser as sp  # regex AST, no matching performed

        items = list(sp.parse(rx))
        width = 0
        anchored_start = bool(items) and str(items[0][0]) == "AT" or rts[0][2] in ("match", "fullmatch")
        anchored_end = bool(items) and str(items[-1][0]) == "AT" or rts[0][2] == "fullmatch"
        digits_only = True
        for op, av in items:
            if str(op) == "AT":
                continue
            if str(op) == "MAX_REPEAT":
                lo, hi, sub = av
                if lo != hi:
                    digits_only = False
                width += lo
            elif str(op) in ("IN", "LITERAL"):
                width += 1
            else:
                digits_only = False
        ok = digits_only and width == 8 and anchored_start and anchored_end and fmt == "%Y%m%d"
        run.check("C16.R5", "date-like captures: 8 anchored digits parsed with %Y%m%d", ok, "_var_map_value", pats[0],
                  f"regex {rx!r} (width {width}, anchored {anchored_start}/{anchored_end}) and format {fmt!r} do not agree on YYYYMMDD", file=fv.file, node=pats[0])
    elif not pats and len(fmts) == 1:
        src = ast.unparse(fv.node)
        len8 = any(isinstance(c, ast.Compare) and ast.unparse(c.left).startswith("len(") and len(c.comparators) == 1 and isinstance(c.comparators[0], ast.Constant) and c.comparators[0].value == 8
                   and isinstance(c.ops[0], (ast.Eq, ast.NotEq)) for c in ast.walk(fv.node))
        digits = ".isdigit()" in src or ".isdecimal()" in src
        fmt = fmts[0].args[1].value if len(fmts[0].args) > 1 and isinstance(fmts[0].args[1], ast.Constant) else None
        run.check("C16.R5", "date-like captures: exactly 8 digits parsed with %Y%m%d", len8 and digits and fmt == "%Y%m%d", "_var_map_value", fmts[0],
                  "strptime decides alone what is date-like: %m and %d also accept one digit and %Y%m%d accepts surrounding forms the path pattern never meant as a date, so captures such as "
                  "'202411' or '2024111' are rendered as dates (2024-01-01 / 2024-01-11) instead of as the text captured from the path", file=fv.file, node=fmts[0])
    else:
        run.undecided("C16.R5", "_var_map_value", "expected one regex test and one strptime call with literal arguments")

    # ---- R6
    fb = model.func(F_BUILD)
    bw = [(n, e) for n, e in eff.direct(fb) if e.kind == "FILE_WRITE"]
    run.floor("writes of the stripped template copy", len(bw), 1)
    for p in enum_paths(fb.node):
        if p.outcome == "raise":
            continue
        hit = any(first_index(p, lambda n, w=w: n is w) >= 0 for w, _ in bw)
        run.check("C16.R6", "every call rebuilds the stripped template copy", hit, "_build_template_in_dir", "path without write",
                  "a path through _build_template_in_dir returns without rewriting the temporary template copy: a stale copy (e.g. of another "
                  "template with the same file name) is rendered", file=FILE, node=fb.node, detail=dict(path=p.describe()))
    fr = model.func(F_RENDER)
    for p in enum_paths(fr.node):
        g = first_index(p, lambda n: isinstance(n, ast.Call) and isinstance(n.func, ast.Attribute) and n.func.attr == "get_template")
        b = first_index(p, lambda n: isinstance(n, ast.Call) and isinstance(n.func, ast.Attribute) and n.func.attr == "_build_template_in_dir")
        if g >= 0:
            run.check("C16.R6", "render builds the copy before loading it", 0 <= b < g, "ZorgTemplateManager.render", "get_template before build",
                      "render() loads the template without first rebuilding its stripped copy", file=FILE, node=fr.node)
    # no module-level / cross-call memo consulted by init_from_template or render
    mi = model.module_of("zorg.service.templates")
    glob = {k for k, v in mi.assigns.items() if isinstance(v, (ast.Dict, ast.List, ast.Set)) or (isinstance(v, ast.Call) and ast.unparse(v.func) in ("dict", "set", "list"))}
    used = sorted(glob & (names_loaded(fn) | names_loaded(fr.node) | names_loaded(fb.node)))
    run.check("C16.R6", "no module-level cache in the template path", not used, "templates", used[0] if used else "-",
              f"module-level container `{used[0] if used else ''}` is consulted while initialising from a template", file=FILE)
    run.units = dict(functions=[F_INIT, F_RENDER, F_BUILD, F_VARVAL], call_sites=len(sites))
    run.assumptions += ["jinja2 renders the file it is given", "Path.exists / write_text semantics"]


def matcher_hit(expr: ast.expr, matcher, defs) -> bool:
    from ..decide import atoms

    f = formula(expr, matcher, defs)
    return bool(atoms(f) & {"exists", "overwrite"})


def _explicit_template(p, idx: int, params: list[str]) -> bool:
    """The path assumes the *parameter* template (through aliases) is not None."""
    alias: dict[str, str] = {}
    for ev in p.events[:idx]:
        if ev[0] == "stmt" and isinstance(ev[1], ast.Assign) and len(ev[1].targets) == 1 and isinstance(ev[1].targets[0], ast.Name):
            t = ev[1].targets[0].id
            if isinstance(ev[1].value, ast.Name):
                alias[t] = alias.get(ev[1].value.id, ev[1].value.id)
            else:
                alias[t] = "<computed>"
        if ev[0] == "assume":
            e, pol = ev[1], ev[2]
            if isinstance(e, ast.Compare) and len(e.ops) == 1 and isinstance(e.comparators[0], ast.Constant) and e.comparators[0].value is None and isinstance(e.left, ast.Name):
                src = alias.get(e.left.id, e.left.id)
                is_none = isinstance(e.ops[0], (ast.Is, ast.Eq)) == pol
                if src in params and "template" in src and not is_none:
                    return True
    return False


def _asserts_match(e: ast.expr, pol: bool) -> bool:
    """The assumption says that a pattern match succeeded (`if m`, `if (m := p.match(..))`, `if m is not None`)."""
    if isinstance(e, ast.Compare) and len(e.ops) == 1 and isinstance(e.comparators[0], ast.Constant) and e.comparators[0].value is None:
        positive = isinstance(e.ops[0], (ast.IsNot, ast.NotEq))
        return "match" in ast.unparse(e.left) and (positive == pol)
    if isinstance(e, (ast.NamedExpr, ast.Call, ast.Name, ast.Attribute)):
        return pol is True and "match" in ast.unparse(e)
    return False
