"""C18 -- file-group expansion flattens groups in place and in order."""

from __future__ import annotations

import ast

from ..core import Run
from ..pymodel import PyModel, walk_no_nested
from ..util import base_name, clock_calls, find_calls, int_eval, kwarg, mutated_names, names_loaded, returns_of

F_EXPAND = "zorg.service.file_groups.expand_file_group_paths"
F_GROUP = "zorg.service.file_groups._paths_from_file_group"
FILE = "src/zorg/service/file_groups.py"


def _accumulator_loop(run: Run, model: PyModel, qual: str, input_param_idx: int) -> None:
    """R1: the result is built by append/extend inside ONE loop over the input,
    in order, and nothing but the accumulator survives an iteration."""
    fi = model.func(qual)
    fn = fi.node
    sym = fi.name
    rets = [r for r in returns_of(fn) if r.value is not None]
    if len(rets) != 1 or not isinstance(rets[0].value, ast.Name):
        run.undecided("C18.R1", sym, "expected a single `return <accumulator>`")
        return
    acc = rets[0].value.id
    params = [a.arg for a in fi.params()]
    inp = params[input_param_idx]
    # the accumulator must start as an empty list literal
    inits = [s for s in fn.body if isinstance(s, (ast.Assign, ast.AnnAssign)) and acc in {t.id for t in ast.walk(s) if isinstance(t, ast.Name) and isinstance(t.ctx, ast.Store)}]
    ok_init = len(inits) == 1 and isinstance(getattr(inits[0], "value", None), ast.List) and not inits[0].value.elts
    run.check("C18.R1", f"{sym}: accumulator `{acc}` starts empty", ok_init, sym, inits[0] if inits else acc,
              f"result list `{acc}` is not initialised exactly once as an empty list", file=FILE, node=inits[0] if inits else fn)
    # the loop that fills it
    loops = [s for s in fn.body if isinstance(s, ast.For) and acc in mutated_names(s)]
    if len(loops) != 1:
        run.undecided("C18.R1", sym, f"expected exactly one top-level loop filling `{acc}`, found {len(loops)}")
        return
    loop = loops[0]
    it_ok = isinstance(loop.iter, ast.Name) and loop.iter.id == inp
    run.check("C18.R1", f"{sym}: loop iterates the input `{inp}` directly (order preserved)", it_ok, sym, loop.iter,
              f"the loop iterates `{ast.unparse(loop.iter)}` instead of the input sequence `{inp}` as given "
              "(sorting / set / reversed / filtering changes the order or multiplicity of the expansion)", file=FILE, node=loop)
    # accumulator only appended/extended, anywhere in the function
    bad_ops = []
    for n in walk_no_nested(fn):
        if isinstance(n, ast.Call) and isinstance(n.func, ast.Attribute) and base_name(n.func.value) == acc and n.func.attr not in ("append", "extend"):
            bad_ops.append(n)
        if isinstance(n, (ast.Subscript,)) and isinstance(n.ctx, (ast.Store, ast.Del)) and base_name(n.value) == acc:
            bad_ops.append(n)
    for n in walk_no_nested(fn):
        if isinstance(n, (ast.Assign, ast.AugAssign)) and n is not (inits[0] if inits else None):
            tg = n.targets if isinstance(n, ast.Assign) else [n.target]
            if any(isinstance(t, ast.Name) and t.id == acc for t in tg):
                bad_ops.append(n)
    run.check("C18.R1", f"{sym}: `{acc}` is only appended/extended", not bad_ops, sym, bad_ops[0] if bad_ops else acc,
              f"`{acc}` is modified other than by append/extend: {ast.unparse(bad_ops[0]) if bad_ops else ''}", file=FILE, node=bad_ops[0] if bad_ops else fn)
    # the returned expression is the accumulator itself (no sorted()/set())  -- by construction (Name)
    # no state carried between iterations: nothing defined outside the loop is mutated inside it
    mut = {k: v for k, v in mutated_names(loop).items() if k != acc}
    outer_defs = set(params)
    for s in fn.body:
        if s is loop:
            break
        for n in ast.walk(s):
            if isinstance(n, ast.Name) and isinstance(n.ctx, ast.Store):
                outer_defs.add(n.id)
    loop_locals = {n.id for n in ast.walk(loop.target) if isinstance(n, ast.Name)}
    for s in loop.body:
        for n in ast.walk(s):
            if isinstance(n, ast.Name) and isinstance(n.ctx, ast.Store):
                loop_locals.add(n.id)
    carried = sorted(k for k in mut if k in outer_defs and k not in loop_locals)
    # a container defined before the loop and filled inside the window loop is fine
    # only if the *element* loop does not touch it
    run.check("C18.R1", f"{sym}: no state carried between iterations", not carried, sym,
              mut[carried[0]][0] if carried else "loop",
              f"`{carried[0] if carried else ''}` is defined outside the element loop and mutated inside it: the expansion of one "
              "element then depends on the elements before it (expand(xs + ys) != expand(xs) + expand(ys))", file=FILE,
              node=mut[carried[0]][0] if carried else loop)
    # ... nor passed on to a callee that could mutate it (anything that is neither a parameter nor loop-local)
    leaked = []
    for n in ast.walk(loop):
        if isinstance(n, ast.Call):
            for a in list(n.args) + [k.value for k in n.keywords]:
                a = a.value if isinstance(a, ast.Starred) else a
                if not isinstance(a, ast.Name):
                    continue  # nested calls are visited on their own
                nm = a.id
                if nm in outer_defs and nm not in params and nm not in loop_locals and nm != acc and _is_mutable_def(fn, nm):
                    leaked.append((n, nm))
    # containers built before the loop that are only *read* by str.format are fine (days / yyyymmdd)
    leaked = [(n, nm) for n, nm in leaked if not (isinstance(n.func, ast.Attribute) and n.func.attr == "format")]
    run.check("C18.R1", f"{sym}: no outer mutable container handed to callees from the loop", not leaked, sym,
              leaked[0][0] if leaked else "loop",
              f"`{leaked[0][1] if leaked else ''}` (a container created outside the loop) is passed into a call made per element", file=FILE,
              node=leaked[0][0] if leaked else loop)
    # extra (non input / non map) parameters with mutable state
    run.sample(dict(rule="C18.R1", function=sym, accumulator=acc, input=inp, loop=f"for {ast.unparse(loop.target)} in {ast.unparse(loop.iter)}"))


def _is_mutable_def(fn: ast.FunctionDef, name: str) -> bool:
    for n in walk_no_nested(fn):
        if isinstance(n, (ast.Assign, ast.AnnAssign)):
            tg = n.targets if isinstance(n, ast.Assign) else [n.target]
            if any(isinstance(t, ast.Name) and t.id == name for t in tg):
                v = n.value
                if isinstance(v, (ast.List, ast.Dict, ast.Set, ast.ListComp, ast.SetComp, ast.DictComp)):
                    return True
                if isinstance(v, ast.Call) and ast.unparse(v.func) in ("set", "list", "dict", "defaultdict", "collections.defaultdict"):
                    return True
                if isinstance(v, ast.IfExp):
                    return True
    return False


def _signature_is_stateless(run: Run, model: PyModel) -> None:
    """R1b: neither function takes or keeps anything besides the inputs and the map."""
    for qual, allowed in ((F_EXPAND, {"zo_paths", "file_group_map"}), (F_GROUP, {"file_group", "file_group_map"})):
        fi = model.func(qual)
        extra = [a.arg for a in fi.params() if a.arg not in allowed]
        # a renamed parameter is fine; an *additional* one is state threading
        n_expected = 2
        run.check("C18.R1", f"{fi.name}: exactly the input and the group map as parameters", len(fi.params()) == n_expected, fi.name,
                  ast.unparse(fi.node.args),
                  f"{fi.name} takes additional parameter(s) {extra}: state threaded through the recursion", file=FILE, node=fi.node)
    # no module-level mutable state used
    mi = model.module_of("zorg.service.file_groups")
    glob = [k for k, v in mi.assigns.items() if isinstance(v, (ast.List, ast.Dict, ast.Set, ast.Call))]
    used = []
    for qual in (F_EXPAND, F_GROUP):
        for nm in names_loaded(model.func(qual).node):
            if nm in glob:
                used.append(nm)
    run.check("C18.R1", "no module-level mutable state is consulted", not used, "file_groups", used[0] if used else "-",
              f"module-level container `{used[0] if used else ''}` is used by the expansion (memoisation across calls)", file=FILE)


def _recursion_and_prefix(run: Run, model: PyModel) -> None:
    """R3: the '@' test and the prefix strip agree; '@' members recurse through the same map."""
    fe = model.func(F_EXPAND)
    fg = model.func(F_GROUP)
    for fi, other in ((fe, F_GROUP), (fg, F_EXPAND)):
        sym = fi.name
        tests = [n for n in ast.walk(fi.node) if isinstance(n, ast.If) and find_calls(n.test, "startswith")]
        if len(tests) != 1:
            run.undecided("C18.R3", sym, "expected one `startswith` group-marker test")
            continue
        st = tests[0]
        call = find_calls(st.test, "startswith")[0]
        marker = call.args[0].value if call.args and isinstance(call.args[0], ast.Constant) else None
        run.check("C18.R3", f"{sym}: group marker is '@'", marker == "@", sym, call, f"group marker is {marker!r}, not '@'", file=FILE, node=call)
        negated = isinstance(st.test, ast.UnaryOp) and isinstance(st.test.op, ast.Not)
        grp_body, path_body = (st.orelse, st.body) if negated else (st.body, st.orelse)
        # group branch must reach the sibling function with the SAME map parameter
        calls = [c for s in grp_body for c in ast.walk(s) if isinstance(c, ast.Call) and model.callee(fi, c) == other]
        ok = bool(calls)
        run.check("C18.R3", f"{sym}: '@' members are expanded recursively", ok, sym, st.test,
                  f"the '@' branch of {sym} does not call {other.split('.')[-1]}", file=FILE, node=st)
        for c in calls:
            args = [ast.unparse(a) for a in c.args] + [ast.unparse(k.value) for k in c.keywords]
            run.check("C18.R3", f"{sym}: recursion passes the same group map", "file_group_map" in args, sym, c,
                      "the recursive call does not pass the caller's group map", file=FILE, node=c)
        # strip length == len(marker) wherever the name is looked up
        if fi is fe:
            slices = [n for s in grp_body for n in ast.walk(s) if isinstance(n, ast.Subscript) and isinstance(n.slice, ast.Slice)]
            good = [s for s in slices if s.slice.lower is not None and int_eval(s.slice.lower, {}) == len(marker or "") and s.slice.upper is None]
            run.check("C18.R3", f"{sym}: the marker strip removes exactly the marker", bool(good) and len(good) == len(slices), sym,
                      slices[0] if slices else "no slice", "group name is not `text[len(marker):]`", file=FILE, node=st)
            # the stripped name indexes the map
            subs = [n for s in grp_body for n in ast.walk(s) if isinstance(n, ast.Subscript) and base_name(n.value) == "file_group_map" and not isinstance(n.slice, ast.Slice)]
            run.check("C18.R3", f"{sym}: group looked up in the map", bool(subs), sym, st.test, "the group is not looked up in file_group_map", file=FILE, node=st)
        # non-group branch keeps the element (Path(x) / formatted)
        appended = [c for s in path_body for c in ast.walk(s) if isinstance(c, ast.Call) and isinstance(c.func, ast.Attribute) and c.func.attr == "append"]
        run.check("C18.R3", f"{sym}: ordinary members are appended once", len(appended) == 1, sym, st.test,
                  "ordinary path members are not appended exactly once", file=FILE, node=st)


def _window(run: Run, model: PyModel) -> None:
    """R2: days = today - k for k in 0..6 (in that order), yyyymmdd derived from the same dates."""
    fi = model.func(F_GROUP)
    gfn = fi.node
    # the function that reads the clock: _paths_from_file_group itself or a helper of the same module it calls
    cands = [q for q in sorted(model.reachable([F_GROUP])) if q.startswith("zorg.service.file_groups.") and clock_calls(model.funcs[q].node)]
    if len(cands) != 1:
        run.undecided("C18.R2", fi.name, f"expected one function reading the clock, found {cands}")
        return
    wi = model.funcs[cands[0]]
    fn = wi.node
    sym = wi.name
    # 'today' is read afresh on every expansion: neither the window function nor anything between it and the entry is memoised
    for q in sorted(model.reachable([F_GROUP])):
        if not q.startswith("zorg.service.file_groups."):
            continue
        for d in model.funcs[q].node.decorator_list:
            dn = ast.unparse(d.func if isinstance(d, ast.Call) else d)
            target = dn.split(".")[-1]
            mi = model.funcs[q].module
            if target in mi.imports:
                target = mi.imports[target].split(".")[-1]
            memo = "cache" in target.lower() or "memo" in target.lower()
            run.check("C18.R2", f"{model.funcs[q].name}: not memoised", not memo, model.funcs[q].name, d,
                      f"`@{dn}` memoises {model.funcs[q].name}: the day window is computed once per process, so a long-running process (editor server, watch loop) keeps yesterday's "
                      "'today' after midnight, and the returned lists are shared and mutable across calls", file=FILE, node=model.funcs[q].node)
    rename: dict[str, str] = {}
    if wi is not fi:
        rets = [r for r in returns_of(fn) if r.value is not None]
        binds = [s for s in walk_no_nested(gfn) if isinstance(s, ast.Assign) and isinstance(s.value, ast.Call) and model.callee(fi, s.value) == wi.qualname]
        if len(rets) != 1 or len(binds) != 1:
            run.undecided("C18.R2", sym, "cannot relate the helper's result to the caller's names")
            return
        rv, tg = rets[0].value, binds[0].targets[0]
        if isinstance(rv, ast.Tuple) and isinstance(tg, ast.Tuple) and len(rv.elts) == len(tg.elts) and all(isinstance(x, ast.Name) for x in list(rv.elts) + list(tg.elts)):
            rename = {t.id: r.id for t, r in zip(tg.elts, rv.elts)}
        else:
            run.undecided("C18.R2", sym, "the helper's result is not a tuple of names unpacked by the caller")
            return
    clocks = clock_calls(fn)
    if len(clocks) != 1:
        run.undecided("C18.R2", sym, f"expected one clock read, found {len(clocks)}")
        return
    ccall, kind = clocks[0]
    run.check("C18.R2", f"{sym}: 'today' is the local date", kind == "local", sym, ccall,
              f"the window is anchored at `{ast.unparse(ccall)}`, which is not the user's local day", file=FILE, node=ccall)
    today_var = None
    for s in fn.body:
        if isinstance(s, ast.Assign) and s.value is ccall and isinstance(s.targets[0], ast.Name):
            today_var = s.targets[0].id
    # the window loop: for i in range(N)
    wl = [s for s in fn.body if isinstance(s, ast.For) and isinstance(s.iter, ast.Call) and ast.unparse(s.iter.func) == "range"]
    if len(wl) != 1 or not isinstance(wl[0].target, ast.Name):
        run.undecided("C18.R2", sym, "expected one `for i in range(N)` window loop")
        return
    loop = wl[0]
    ivar = loop.target.id
    rargs = [int_eval(a, {}) for a in loop.iter.args]
    if any(a is None for a in rargs):
        run.undecided("C18.R2", sym, "range() bounds are not constants")
        return
    idxs = list(range(*rargs))  # type: ignore[arg-type]
    # date = today - timedelta(days=E(i))
    offsets = None
    date_var = None
    for s in loop.body:
        if isinstance(s, ast.Assign) and isinstance(s.value, ast.BinOp) and isinstance(s.value.op, (ast.Sub, ast.Add)):
            l, r = s.value.left, s.value.right
            if isinstance(l, ast.Name) and l.id == today_var and isinstance(r, ast.Call) and ast.unparse(r.func).endswith("timedelta"):
                d = kwarg(r, "days") or (r.args[0] if r.args else None)
                other = [k.arg for k in r.keywords if k.arg != "days"]
                if d is not None and not other:
                    sign = -1 if isinstance(s.value.op, ast.Sub) else 1
                    vals = [int_eval(d, {ivar: i}) for i in idxs]
                    if all(v is not None for v in vals):
                        offsets = [-sign * v for v in vals]  # days before today
                        date_var = s.targets[0].id if isinstance(s.targets[0], ast.Name) else None
    if offsets is None or date_var is None:
        run.undecided("C18.R2", sym, "cannot find `date = today -/+ timedelta(days=f(i))`")
        return
    run.check("C18.R2", f"{sym}: window is today and the previous six days, nearest first", offsets == [0, 1, 2, 3, 4, 5, 6], sym,
              loop, f"dates are today minus {offsets} days, expected [0..6]", file=FILE, node=loop, detail=dict(offsets=offsets))
    # both lists fed from date_var
    apps = {}
    for c in find_calls(loop, "append"):
        tgt = base_name(c.func.value)  # type: ignore[union-attr]
        apps[tgt] = c
    fmt_calls = [c for c in ast.walk(gfn) if isinstance(c, ast.Call) and isinstance(c.func, ast.Attribute) and c.func.attr == "format" and c.keywords]
    if len(fmt_calls) != 1:
        run.undecided("C18.R2", sym, "expected one `.format(days=..., yyyymmdd=...)` call")
        return
    fmt = fmt_calls[0]
    kw = {k.arg: ast.unparse(k.value) for k in fmt.keywords}
    run.check("C18.R2", f"{sym}: patterns receive `days` and `yyyymmdd`", set(kw) == {"days", "yyyymmdd"}, sym, fmt,
              f"format() keywords are {sorted(kw)}", file=FILE, node=fmt)
    for key, want in (("days", "date"), ("yyyymmdd", "strftime")):
        var = kw.get(key)
        c = apps.get(rename.get(var, var))
        if c is None:
            run.refuted("C18.R2", sym, fmt, f"`{key}` is bound to `{var}`, which the window loop does not fill", file=FILE, node=fmt)
            continue
        arg = c.args[0]
        if key == "days":
            ok = isinstance(arg, ast.Name) and arg.id == date_var
            run.check("C18.R2", f"{sym}: days[i] is the i-th window date", ok, sym, c, "days is not filled with the window date", file=FILE, node=c)
        else:
            ok = (isinstance(arg, ast.Call) and isinstance(arg.func, ast.Attribute) and arg.func.attr == "strftime"
                  and isinstance(arg.func.value, ast.Name) and arg.func.value.id == date_var
                  and arg.args and isinstance(arg.args[0], ast.Constant) and arg.args[0].value == "%Y%m%d")
            run.check("C18.R2", f"{sym}: yyyymmdd[i] is days[i] formatted %Y%m%d", ok, sym, c,
                      "yyyymmdd is not `date.strftime('%Y%m%d')` of the same window date", file=FILE, node=c)
    run.sample(dict(rule="C18.R2", offsets_before_today=offsets, clock=ast.unparse(ccall), format_keywords=kw))


def _term_interp(model: PyModel):
    """Interpreter in which library calls are uninterpreted terms (datetime.now(), timedelta(days=i), Path(x), x.strftime(f), s.format(**kw))."""
    from ..absint import Interp
    from ..absval import Opaque, Term

    def fz(I, v, st):
        return I.B.freeze_term(I, v, st)

    def call_any(I, fv, args, kwargs, st, node):
        if fv.cls.startswith("ext:"):
            kw = tuple(sorted((k, fz(I, x, st)) for k, x in kwargs.items()))
            return [(Term(fv.cls[4:], tuple(fz(I, a, st) for a in args) + ((("kw",) + kw,) if kw else ())), st)]
        return None

    def meth(I, recv, name, args, kwargs, st, node):
        if recv.cls.startswith("ext:"):
            kw = tuple(sorted((k, fz(I, x, st)) for k, x in kwargs.items()))
            return [(Term(recv.cls[4:] + "." + name, tuple(fz(I, a, st) for a in args) + ((("kw",) + kw,) if kw else ())), st)]
        return None

    def binop(I, op, l, r, st):
        return Term({ast.Add: "+", ast.Sub: "-"}.get(type(op), type(op).__name__), (fz(I, l, st), fz(I, r, st)))

    def fmt(I, recv, args, kwargs, st, node):
        kw = tuple(sorted((k, fz(I, x, st)) for k, x in kwargs.items()))
        return [(Term("format", (recv, kw) + tuple(fz(I, a, st) for a in args)), st)]

    return Interp(model, probes={"method:*": meth, "call:*": call_any, "binop": binop, "str.format": fmt}, max_states=4000)


GROUPS = {"g": ("b", "@h", "a", "@h"), "h": ("d", "c{yyyymmdd[1]}"), "e": (), "k": ("@g", "@e", "b")}
INPUTS = [("x", "@g", "y"), ("@h", "@h"), ("@k",), ("@e", "z"), (), ("b", "a", "b"), ("p{yyyymmdd[0]}", "@h", "q{{r}}")]


def _expected(names) -> list[str]:
    out: list[str] = []
    for n in names:
        if n.startswith("@"):
            out.extend(_expected(GROUPS[n[1:]]))
        else:
            out.append(n)
    return out


def _scenarios(run: Run, model: PyModel) -> bool:
    """Evaluate expand_file_group_paths abstractly on a family of generic inputs: names are opaque markers chosen out of
    alphabetical order, with repeats, a group used twice, nested and empty groups, so that sorting, de-duplication, a visited
    set, appending at the end instead of in place or dropping a level all change the result.  Dates are uninterpreted terms."""
    from ..absint import Raised, State
    from ..absval import HObj, Ref, Term

    I = _term_interp(model)
    all_ok = True
    n = 0
    win = None
    for inp in INPUTS:
        st = State()
        gm = st.alloc(HObj("dict", fields={k: st.alloc(HObj("list", items=list(v))) for k, v in GROUPS.items()}))
        arg = st.alloc(HObj("list", items=list(inp)))
        try:
            res = I.run_function(F_EXPAND, [arg], {"file_group_map": gm}, st=st)
        except Exception as e:
            run.undecided("C18.R1", "expand_file_group_paths", f"cannot interpret the expansion abstractly: {type(e).__name__}: {e}")
            return False
        n += 1
        for v, s in res:
            imprecise = [x for x in s.imprecise if "format" not in x]
            if isinstance(v, Raised) or imprecise or not isinstance(v, Ref):
                run.undecided("C18.R1", "expand_file_group_paths", f"input {list(inp)}: " + (f"raises {v.exc}" if isinstance(v, Raised) else "; ".join(imprecise[:2]) or repr(v)))
                all_ok = False
                continue
            got = []
            formatted = []
            for it in s.obj(v).items:
                it = I.B.freeze_term(I, it, s)
                # Path(<name or name.format(...)>)
                nm = None
                if isinstance(it, Term) and it.head.split(".")[-1] in ("Path", "PurePath") and it.args:
                    a0 = it.args[0]
                    if isinstance(a0, str):
                        nm = a0
                    elif isinstance(a0, Term) and a0.head == "format":
                        nm = a0.args[0]
                        win = win or a0
                elif isinstance(it, str):
                    nm = it
                elif isinstance(it, Term) and it.head == "format":
                    nm = it.args[0]
                formatted.append("format(" in repr(it))
                got.append(nm if nm is not None else repr(it)[:40])
            want = _expected(inp)
            ok = got == want
            all_ok = all_ok and ok
            what = []
            if not ok:
                if sorted(got) == sorted(want):
                    what.append("same members in a different order")
                elif set(got) == set(want):
                    what.append("members repeated or de-duplicated")
                else:
                    what.append("members missing or extra")
            run.check("C18.R1", f"expand({list(inp)}) = {want}", ok, "expand_file_group_paths", f"{list(inp)} -> {got}",
                      f"with groups {GROUPS} the arguments {list(inp)} expand to {got}; in-place, in-order expansion gives {want} ({'; '.join(what)})", file=FILE)
            if ok:
                # which of them went through str.format: members of groups do (date patterns), ordinary path arguments are handed on as written (`notes/{x}.zo` is a file name)
                # (for a name without braces formatting is the identity: not constrained)
                top = []
                for nme in inp:
                    top.extend([(True if "{" in m else None) for m in _expected((nme,))] if nme.startswith("@") else [(False if "{" in nme else None)])
                bad = [(g, f) for g, f, t in zip(got, formatted, top) if t is not None and f != t]
                run.check("C18.R1", f"expand({list(inp)}): group members are formatted with the date fields, ordinary arguments are not", not bad, "expand_file_group_paths",
                          f"{list(inp)}: {bad}", f"of the expansion of {list(inp)} = {got}: {[(g, 'formatted' if f else 'not formatted') for g, f in bad]} -- an ordinary path argument "
                          "containing braces is rewritten (or raises KeyError), or a group member's date pattern is left unexpanded", file=FILE)
    run.floor("expansion scenarios", n, len(INPUTS))
    # the window, read off the arguments handed to str.format
    if win is None:
        run.undecided("C18.R2", "expand_file_group_paths", "no member was formatted with the date fields")
        return all_ok
    kw = dict(win.args[1]) if len(win.args) > 1 else {}
    run.check("C18.R2", "patterns receive `days` and `yyyymmdd`", set(kw) == {"days", "yyyymmdd"}, "file_groups", f"format keywords {sorted(kw)}", f"members are formatted with {sorted(kw)}, expected days and yyyymmdd", file=FILE)
    days, ymd = kw.get("days"), kw.get("yyyymmdd")
    days = list(days[1:]) if isinstance(days, tuple) and days and days[0] == "list" else None
    ymd = list(ymd[1:]) if isinstance(ymd, tuple) and ymd and ymd[0] == "list" else None
    if days is None or ymd is None:
        run.undecided("C18.R2", "file_groups", "the date fields are not lists of terms")
        return all_ok

    def offset(t):
        """now() - timedelta(days=k)  ->  (clock term, k)"""
        if isinstance(t, Term) and t.head == "-" and isinstance(t.args[1], Term) and t.args[1].head.endswith("timedelta"):
            td = t.args[1]
            k = None
            for a in td.args:
                if isinstance(a, tuple) and a and a[0] == "kw":
                    d = dict(a[1:])
                    if set(d) == {"days"}:
                        k = d["days"]
                elif isinstance(a, int) and len(td.args) == 1:
                    k = a
            return t.args[0], k
        if isinstance(t, Term) and t.head == "+" and isinstance(t.args[1], Term) and t.args[1].head.endswith("timedelta"):
            c, k = offset(Term("-", t.args))
            return c, (-k if isinstance(k, int) else None)
        if isinstance(t, Term) and t.head.endswith(("now", "today")):
            return t, 0
        return None, None

    offs = [offset(d) for d in days]
    clocks = {repr(c) for c, _ in offs}
    ks = [k for _, k in offs]
    run.check("C18.R2", "window is today and the previous six days, nearest first", ks == [0, 1, 2, 3, 4, 5, 6], "file_groups", f"offsets {ks}",
              f"`days` holds today minus {ks} days, expected [0, 1, 2, 3, 4, 5, 6]", file=FILE)
    clock = offs[0][0] if offs else None
    local = isinstance(clock, Term) and clock.head in ("datetime.datetime.now", "datetime.date.today", "datetime.now", "date.today") and not clock.args
    run.check("C18.R2", "'today' is one reading of the local clock", len(clocks) == 1 and local, "file_groups", f"clock {sorted(clocks)}",
              f"the window is anchored at {sorted(clocks)}: not a single reading of the user's local day", file=FILE)
    ok = len(ymd) == len(days) and all(isinstance(y, Term) and y.head.endswith("strftime") and len(y.args) == 2 and y.args[0] == d and y.args[1] == "%Y%m%d" for y, d in zip(ymd, days))
    run.check("C18.R2", "yyyymmdd[i] is days[i] formatted %Y%m%d", ok, "file_groups", f"yyyymmdd {[repr(y)[:40] for y in ymd[:2]]}", "yyyymmdd is not the window dates formatted with %Y%m%d", file=FILE)
    run.sample(dict(rule="C18.R2", offsets_before_today=ks, clock=sorted(clocks)))
    return all_ok


def _memoised(run: Run, model: PyModel) -> None:
    n = 0
    for q in sorted(model.reachable([F_EXPAND])):
        if not q.startswith("zorg.service.file_groups."):
            continue
        n += 1
        f = model.funcs[q]
        for d in f.node.decorator_list:
            dn = ast.unparse(d.func if isinstance(d, ast.Call) else d)
            target = dn.split(".")[-1]
            if target in f.module.imports:
                target = f.module.imports[target].split(".")[-1]
            memo = "cache" in target.lower() or "memo" in target.lower()
            run.check("C18.R2", f"{f.name}: not memoised", not memo, f.name, d,
                      f"`@{dn}` memoises {f.name}: the day window is computed once per process, so a long-running process keeps yesterday's 'today' after midnight, "
                      "and the returned lists are shared and mutable across calls", file=FILE, node=f.node)
    mi = model.module_of("zorg.service.file_groups")
    glob = [k for k, v in mi.assigns.items() if isinstance(v, (ast.List, ast.Dict, ast.Set)) or (isinstance(v, ast.Call) and ast.unparse(v.func) in ("set", "dict", "list", "defaultdict"))]
    used = []
    for q in sorted(model.reachable([F_EXPAND])):
        if q.startswith("zorg.service.file_groups."):
            used += [nm for nm in names_loaded(model.funcs[q].node) if nm in glob]
    run.check("C18.R1", "no module-level mutable state is consulted", not used, "file_groups", used[0] if used else "-",
              f"module-level container `{used[0] if used else ''}` is used by the expansion (state shared across calls and across the elements of one call)", file=FILE)
    run.floor("functions of the expansion", n, 1)


def _structural_shape_recognised(model: PyModel) -> bool:
    """The two-function accumulator shape the structural proofs below are written for."""
    if not (model.has_func(F_EXPAND) and model.has_func(F_GROUP)):
        return False
    for q in (F_EXPAND, F_GROUP):
        fn = model.func(q).node
        rets = [r for r in returns_of(fn) if r.value is not None]
        if len(rets) != 1 or not isinstance(rets[0].value, ast.Name):
            return False
        acc = rets[0].value.id
        if len([s for s in fn.body if isinstance(s, ast.For) and acc in mutated_names(s)]) != 1:
            return False
    g = model.func(F_GROUP).node
    return len(clock_calls(g)) == 1 and any(isinstance(s, ast.For) and isinstance(s.iter, ast.Call) and ast.unparse(s.iter.func) == "range" for s in g.body)


def check(run: Run) -> None:
    model = PyModel(run.repo)
    run.rule("C18.R1", "in place, in order: abstract evaluation of the expansion on a family of generic inputs (markers out of order, repeats, a group used twice, nested and empty groups) "
                       "equals the recursive flattening; plus, when the code has the accumulator-loop shape, the list-homomorphism proof (append/extend only, one loop over the input, nothing survives an iteration)")
    run.rule("C18.R2", "window: the date fields handed to str.format are [now - 0..6 days] of one reading of the local clock, yyyymmdd the same dates as %Y%m%d; nothing on the way is memoised")
    run.rule("C18.R3", "'@' marker test, marker strip and recursive expansion through the same map agree (structural, when the shape is recognised; otherwise covered by the scenarios of R1)")
    _scenarios(run, model)
    _memoised(run, model)
    if _structural_shape_recognised(model):
        _accumulator_loop(run, model, F_EXPAND, 0)
        _accumulator_loop(run, model, F_GROUP, 0)
        _signature_is_stateless(run, model)
        _recursion_and_prefix(run, model)
        _window(run, model)
    else:
        run.proved("C18.R3", "shape not the two accumulator loops: recursion / marker agreement decided by the R1 scenarios only")
    run.units = dict(functions=sorted(q for q in model.reachable([F_EXPAND]) if q.startswith("zorg.service.file_groups.")), file=FILE, scenarios=len(INPUTS))
    run.floor("C18 obligations", len(run.obligations), 10)
    run.assumptions += ["cyclic group maps are excluded by the property statement", "str.format substitutes exactly the named fields",
                        "scenario evaluation is parametric in the names: the code may only test the '@' prefix, strip it, look the rest up and format"]
