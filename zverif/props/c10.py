"""C10 -- `note move` relocates exactly one note and loses nothing."""

from __future__ import annotations

import ast

from ..core import Run
from ..effects import Effects
from ..grammar import FILE_PARSER, ParserGrammar
from ..paths import enum_paths, first_index
from ..pymodel import PyModel, literal_strs, walk_no_nested
from ..shapes import Const, Hole, ShapeEval, render
from ..util import base_name, find_calls, if_chain, names_loaded

F_ADD = "zorg.storage.file._manager.FileManager.add_note"
F_DEL = "zorg.storage.file._manager.FileManager.delete_note"
F_MOVE = "zorg.service.note_utils._move_note"
F_DONE = "zorg.service.note_utils._to_done_note"
F_HIDDEN = "zorg.service.note_utils._add_hidden_metadata"
F_MUTATES = "zorg.service.note_utils._get_hidden_metadata_mutates"
FILE_M = "src/zorg/storage/file/_manager.py"
FILE_U = "src/zorg/service/note_utils.py"


def _lits(fi, e: ast.expr):
    """String literals of a tuple / list expression, looking through a module-level constant."""
    if isinstance(e, ast.Name) and isinstance(fi.module.assigns.get(e.id), (ast.Tuple, ast.List, ast.Constant)):
        e = fi.module.assigns[e.id]
    return literal_strs(e)


def _note_type_values(model: PyModel) -> set[str]:
    ci = model.cls("zorg.domain.types.NoteType")
    return {s.value.value for s in ci.node.body if isinstance(s, ast.Assign) and isinstance(s.value, ast.Constant)}


def _affine(e: ast.expr, env: dict) -> tuple:
    """expr -> (symbol, offset): `x`, `x + 1`, `x - 1`, `len(xs)`; anything else is its own symbol."""
    if isinstance(e, ast.Name):
        return env.get(e.id, (e.id, 0))
    if isinstance(e, ast.BinOp) and isinstance(e.op, (ast.Add, ast.Sub)) and isinstance(e.right, ast.Constant) and isinstance(e.right.value, int):
        s, o = _affine(e.left, env)
        return (s, o + (e.right.value if isinstance(e.op, ast.Add) else -e.right.value))
    txt = ast.unparse(e)
    for nm, (s, o) in env.items():
        pass
    return (txt, 0)


def _tables(run: Run, model: PyModel) -> None:
    kinds = _note_type_values(model)
    from ..flatten import flat_info

    # (which lines add_note takes for items only decides WHERE in the destination the note lands, never whether a line is lost: the old comparison of its
    #  prefix tuple with the NoteType values demanded more than the property states and was removed; every kind as the destination's last block is a move scenario)
    # tag sigils: grammar
    g = ParserGrammar(run.repo, FILE_PARSER)
    gram = {}
    for rule, name in (("area", "areas"), ("context", "contexts"), ("person", "people"), ("project", "projects")):
        toks = [t for lbl in g.child_at(rule, 0) if lbl[0] == "tok" for t in [lbl[1]]]
        lits = {g.token_literal(t) or _lexer_literal(run, g.token_name(t)) for t in toks}
        gram[name] = next(iter(lits)) if len(lits) == 1 else None
    run.floor("tag kinds in the grammar table", len([v for v in gram.values() if v]), 4)
    _hidden_metadata_eval(run, model, gram)


def _hidden_metadata_eval(run: Run, model: PyModel, gram: dict) -> None:
    """Abstract evaluation of _add_hidden_metadata on generic notes (marker values): every inherited tag / property the body
    does not already spell out is inserted, with the grammar's sigil, directly after the note's own ZID -- also when a
    modify date precedes the ZID -- and nothing already present is repeated."""
    from ..absint import Interp, Raised, State
    from ..absval import HObj, Ref

    I = Interp(model)
    ZID = "240101#00"
    vals = {"projects": "P", "areas": "A", "contexts": "C", "people": "Q"}
    if any(v is None for v in gram.values()):
        run.undecided("C10.R3", "grammar", f"cannot read the tag sigils from the grammar: {gram}")
        return
    words = {gram[k] + v for k, v in vals.items()}
    scen = [
        ("plain item", f"{ZID} text", f"{ZID} ", " text", words | {"k::v"}),
        ("item with a modify date", f"240102 {ZID} text", f"240102 {ZID} ", " text", words | {"k::v"}),
        ("tag and property already in the body", f"{ZID} text {gram['areas']}A k::w", f"{ZID} ", f" text {gram['areas']}A k::w", words - {gram["areas"] + "A"}),
        # tags of the body that merely START like an inherited one (plural, underscore, longer name, another kind's sigil) are different tags: the inherited ones are still written
        ("look-alike tags in the body", f"{ZID} text {gram['areas']}As ({gram['areas']}A_x) {gram['areas']}Ab, {gram['projects']}Ps {gram['contexts']}P {gram['people']}QQ.", f"{ZID} ",
         f" text {gram['areas']}As ({gram['areas']}A_x) {gram['areas']}Ab, {gram['projects']}Ps {gram['contexts']}P {gram['people']}QQ.", words | {"k::v"}),
        ("inherited tags in the body, wrapped in punctuation", f"{ZID} text ({gram['areas']}A), {gram['projects']}P. {gram['contexts']}C; {gram['people']}Q!", f"{ZID} ",
         f" text ({gram['areas']}A), {gram['projects']}P. {gram['contexts']}C; {gram['people']}Q!", {"k::v"}),
    ]
    n = 0
    for label, body, pre, post, want in scen:
        st = State()

        def L(*xs):
            return st.alloc(HObj("list", items=list(xs)))

        note = st.alloc(HObj("obj", cls="zorg.domain.models._page.Note", fields=dict(
            body=body, zid=ZID, projects=L("P"), areas=L("A"), contexts=L("C"), people=L("Q"), properties=st.alloc(HObj("dict", fields={"k": "v"})), links=L(),
            todo_payload=None, create_date=None, modify_date=None, line_no=3, file_path=None, block=None)))
        try:
            res = I.run_function(F_HIDDEN, [note], st=st)
        except Exception as e:
            run.undecided("C10.R3", "_add_hidden_metadata", f"cannot evaluate abstractly: {type(e).__name__}: {e}")
            return
        for v, s in res:
            n += 1
            if isinstance(v, Raised) or s.imprecise or not isinstance(v, Ref):
                run.undecided("C10.R3", "_add_hidden_metadata", f"{label}: " + (f"raises {v.exc}" if isinstance(v, Raised) else "; ".join(s.imprecise[:2]) or repr(v)))
                continue
            got = s.obj(v).fields.get("body")
            if not isinstance(got, str):
                run.undecided("C10.R3", "_add_hidden_metadata", f"{label}: body evaluates to {got!r}")
                continue
            anchored = got.startswith(pre) and got.endswith(post) and len(got) >= len(pre) + len(post)
            run.check("C10.R5", f"{label}: inherited metadata is inserted directly after the note's own ZID", anchored, "_add_hidden_metadata", f"{label}: {body!r} -> {got!r}",
                      f"for a {label} ({body!r}) the body becomes {got!r}: the metadata is not spliced in right after the ZID (with a modify date in front, tags between date and ZID "
                      "make the note lose its identity when the page is compiled again)", file=FILE_U, node=model.func(F_HIDDEN).node)
            if anchored:
                mid = got[len(pre):len(got) - len(post)].split()
                run.check("C10.R3", f"{label}: exactly the missing inherited tags and properties are written, with the grammar's sigils", sorted(mid) == sorted(want) and len(mid) == len(set(mid)),
                          "_add_hidden_metadata", f"{label}: inserted {mid}",
                          f"for a {label} the inserted words are {mid}, expected {sorted(want)} (sigils from the grammar: {gram}): inherited metadata is lost, duplicated or written with the wrong sigil",
                          file=FILE_U, node=model.func(F_HIDDEN).node)
            orig = s.obj(note).fields.get("body")
            run.check("C10.R4", f"{label}: the note handed in is not modified in place", orig == body, "_add_hidden_metadata", "mutates its argument",
                      "the note object read from the index is modified in place: delete_note afterwards looks for a body that no longer matches the source page", file=FILE_U, node=model.func(F_HIDDEN).node)
    run.floor("hidden-metadata evaluations", n, 5)


def _lexer_literal(run: Run, token_name: str):
    from ..grammar import FILE_LEXER, LexerGrammar

    lx = LexerGrammar(run.repo, FILE_LEXER)
    return lx.literal_of(token_name) if token_name in lx.rule_names else None


def _order_and_errors(run: Run, model: PyModel) -> None:
    eff = Effects(model)
    fm = model.func(F_MOVE)
    # order and failures, by abstract runs of _move_note (whatever shape its steps have: statements, a table of steps, helpers)
    ZID = "240101#A2"
    note = dict(zid=ZID, body=f"{ZID} moved text\n  more", page="src.zo", line_no=2, status=None)
    src = ["# S", f"- {ZID} moved text", "  more", "- 240101#A3 stays", ""]
    dst = ["# D", "", "- 240101#B1 existing", ""]
    n = 0

    def runs(label, files, nt, target):
        nonlocal n
        try:
            res = _move_run(model, files, nt, target, None, None, with_trace=True)
        except Exception as e:  # noqa: BLE001
            run.undecided("C10.R4", "_move_note", f"{label}: cannot interpret: {type(e).__name__}: {str(e)[:100]}")
            return []
        out = []
        for v, written, imprecise, raised, trace in res:
            n += 1
            if raised or imprecise:
                run.undecided("C10.R4", "_move_note", f"{label}: " + (f"raises {v.exc}" if raised else "; ".join(imprecise[:2])))
                continue
            out.append((v, written, trace))
        return out

    for v, written, trace in runs("to another page", {"src.zo": src, "dst.zo": dst}, note, "dst.zo"):
        ws = [t[1] for t in trace if t[0] == "write_text"]
        ok = "/Z/dst.zo" in ws and "/Z/src.zo" in ws and ws.index("/Z/dst.zo") < ws.index("/Z/src.zo")
        run.check("C10.R4", "the note is added to the destination before it is deleted from the source", ok, "_move_note", f"order of page writes {ws}",
                  f"a move to another page writes {ws}: the note is removed from its source page before (or without) being added to the destination - a failure in between loses the note",
                  file=FILE_U, node=fm.node)
    for v, written, trace in runs("to a page that does not exist and that no template creates", {"src.zo": src}, note, "nowhere.zo"):
        ws = [t[1] for t in trace if t[0] == "write_text"]
        run.check("C10.R4", "a failed add yields a non-zero exit status and leaves the source alone", v not in (0, None) and "/Z/src.zo" not in ws, "_move_note", f"missing destination: status {v!r}, writes {ws}",
                  f"moving a note to a page that does not exist (and that no template creates) returns {v!r} after writing {ws}: expected a non-zero status with the source page untouched", file=FILE_U, node=fm.node)
    gone = ["# S", "- 240101#A3 stays", f"- see {ZID}", ""]
    for v, written, trace in runs("whose source page no longer holds it", {"src.zo": gone, "dst.zo": dst}, note, "dst.zo"):
        got_src = written.get("/Z/src.zo", "\n".join(gone)).split("\n")
        run.check("C10.R4", "a failed delete yields a non-zero exit status and removes nothing", v not in (0, None) and got_src == gone, "_move_note", f"note missing from its page: status {v!r}, source {got_src}",
                  f"moving a note whose source page no longer contains it returns {v!r} and leaves the source as {got_src}: expected a non-zero status and an unchanged source page", file=FILE_U, node=fm.node)
    run.floor("order / failure runs of _move_note", n, 3)
    # add_note / delete_note write the page themselves on every successful path
    from ..flatten import flat_info

    for q, nm in ((F_ADD, "add_note"), (F_DEL, "delete_note")):
        fi = flat_info(model, q)
        writes = [nd for nd, e in eff.direct(fi) if e.kind == "FILE_WRITE"]
        k = 0
        for p in enum_paths(fi.node):
            if p.outcome != "return":
                continue
            ret = p.events[-1][1]
            success = ret.value is None or (isinstance(ret.value, ast.Constant) and ret.value.value is None)
            if not success:
                continue
            k += 1
            w = any(first_index(p, lambda x, wn=wn: x is wn) >= 0 for wn in writes)
            run.check("C10.R4", f"{nm}: a successful call has written the page", w, f"FileManager.{nm}", "success without write",
                      f"{nm} can report success without having written the page itself (deferred / staged writes: the next step then reads stale content, "
                      "and a move within one page loses the note)", file=FILE_M, node=fi.node)
        run.floor(f"successful paths of {nm}", k, 1)
    # _to_done_note keeps everything but the payload
    fd = model.func(F_DONE)
    stores = [t for s in walk_no_nested(fd.node) if isinstance(s, ast.Assign) for t in s.targets if isinstance(t, ast.Attribute)]
    uses_replace = any(isinstance(c, ast.Call) and ast.unparse(c.func) == "replace" for c in ast.walk(fd.node))
    run.check("C10.R4", "_to_done_note copies the note and changes only the todo payload", uses_replace and {t.attr for t in stores} <= {"todo_payload"}, "_to_done_note",
              f"stores {[t.attr for t in stores]}", "_to_done_note changes fields other than todo_payload (or does not copy the note)", file=FILE_U, node=fd.node)


def _hidden_anchor(run: Run, model: PyModel) -> None:
    fh = model.func(F_HIDDEN)
    se = ShapeEval(model, fh)
    body_stores = [s for s in walk_no_nested(fh.node) if isinstance(s, ast.Assign) and any(isinstance(t, ast.Attribute) and t.attr == "body" for t in s.targets)]
    if len(body_stores) != 1:
        run.undecided("C10.R5", "_add_hidden_metadata", f"expected one assignment to .body, found {len(body_stores)}")
        return
    v = body_stores[0].value
    if isinstance(v, ast.Call) and isinstance(v.func, ast.Attribute) and v.func.attr == "replace" and len(v.args) >= 2:
        anchor = ast.unparse(v.args[0])
        rep = se.eval(v.args[1])
        ok_anchor = anchor.endswith(".zid")
        ok_rep = bool(rep) and all(len(s) >= 1 and isinstance(s[0], Hole) and s[0].source.endswith(".zid") for s in rep)
        run.check("C10.R5", "inherited metadata is inserted directly after the note's own ZID", ok_anchor and ok_rep, "_add_hidden_metadata", v,
                  f"the metadata is spliced in at `{anchor}` -> `{', '.join(render(s) for s in rep)}`, not right after the note's ZID", file=FILE_U, node=v)
        return
    anchors = [c for c in ast.walk(v) if isinstance(c, ast.Call) and isinstance(c.func, ast.Attribute) and c.func.attr in ("partition", "split", "index", "find")]
    for s in walk_no_nested(fh.node):
        if isinstance(s, ast.Assign):
            anchors += [c for c in ast.walk(s.value) if isinstance(c, ast.Call) and isinstance(c.func, ast.Attribute) and c.func.attr in ("partition", "split", "index", "find") and "body" in ast.unparse(c.func.value)]
    if anchors and not any("zid" in ast.unparse(a.args[0]) for a in anchors if a.args):
        run.refuted("C10.R5", "_add_hidden_metadata", anchors[0], f"the insertion point is found with `{ast.unparse(anchors[0])}`, i.e. not anchored at the note's ZID: when the body "
                    "starts with a modify date the tags land between the date and the ZID and the note loses its identity on recompilation", file=FILE_U, node=anchors[0])
        return
    run.undecided("C10.R5", "_add_hidden_metadata", "unrecognised way of splicing the metadata into the body")


def _move_run(model: PyModel, files: dict, note: dict, target: str, done, template_text=None, with_trace: bool = False):
    """One abstract run of _move_note over a virtual notes directory /Z holding `files` (name -> list of lines).  `note` = dict(zid, body, page, line_no, priority, status,
    projects, areas).  -> [(status value, {path: text written}, imprecise notes, raised)]."""
    from ..absint import Interp, Raised, State
    from ..absval import HObj, Opaque
    from ..virtual import World, vpath

    W = World(model, files={}, old_map=None, indexed=set(), errors=set(), whitelist=[], contents={f"/Z/{k}": "\n".join(v) for k, v in files.items()}, missing="all-but-contents")
    probes = W.probes()
    base_m = probes["method:*"]
    st = State()
    I0 = Interp(model)
    NT = {m.member: m for m in I0.B.enum_members(I0, model.cls("zorg.domain.types.NoteType"))}

    def L(*xs):
        return st.alloc(HObj("list", items=list(xs)))

    payload = None if note.get("status") is None else st.alloc(HObj("obj", cls="zorg.domain.models._page.TodoPayload", fields=dict(priority=note.get("priority", "P2"), status=NT[note["status"]])))
    nref = st.alloc(HObj("obj", cls="zorg.domain.models._page.Note", fields=dict(
        body=note["body"], zid=note["zid"], projects=L(*note.get("projects", [])), areas=L(*note.get("areas", [])), contexts=L(), people=L(), properties=st.alloc(HObj("dict")), links=L(),
        todo_payload=payload, create_date=None, modify_date=None, line_no=note["line_no"], file_path=vpath(note["page"]), block=None)))

    def meth(I, recv, name, args, kwargs, s, node):
        if recv.cls == "vrepo" and name == "get_note_by_zid":
            return [(nref if args and args[0] == note["zid"] else None, s)]
        return base_m(I, recv, name, args, kwargs, s, node)

    def init_tmpl(I, args, kwargs, s, node):
        pg = args[2] if len(args) > 2 else kwargs.get("new_path", kwargs.get("new_page"))
        s.trace.append(("init_from_template", getattr(pg, "tag", pg)))
        if template_text is not None and isinstance(pg, Opaque):
            pth = pg.tag if pg.tag.startswith("/") else "/Z/" + pg.tag
            s.meta["vfiles"] = {**s.meta.get("vfiles", {}), pth: template_text}
        return [(None, s)]

    probes["method:*"] = meth
    mi = model.module_of("zorg.service.note_utils")
    probes[model.resolve_dotted(mi.imports.get("init_from_template", "")) or "zorg.service.templates.init_from_template"] = init_tmpl
    I = Interp(model, probes=probes, max_states=3000)
    kwargs = dict(new_page=vpath(target), note_type=done, session=Opaque("vsession", ""), template_pattern_map=st.alloc(HObj("dict")), zid=note["zid"])
    res = I.run_function(F_MOVE, [], kwargs, st=st)
    out = []
    for v, s in res:
        out.append((v, dict(s.meta.get("vfiles", {})), list(s.imprecise), isinstance(v, Raised)) + ((list(s.trace),) if with_trace else ()))
    return out


def _nonblank(ls):
    return [l for l in ls if l.strip()]


def _added_once(new: list, old: list, note_lines: list):
    """The note's rendering occurs exactly once, as one block that does not split another item from its continuation lines; removing it gives back the old
    lines up to blank lines (at most one consumed, at most two added: the rendering's own final newline).  -> (ok, why)."""
    ks = [i for i in range(len(new) - len(note_lines) + 1) if new[i:i + len(note_lines)] == note_lines]
    if len(ks) != 1:
        return False, ("the note's rendering is missing" if not ks else "the note's rendering occurs more than once")
    k = ks[0]
    rest = new[:k] + new[k + len(note_lines):]
    if _nonblank(rest) != _nonblank(old):
        return False, "other (non-blank) lines of the page change"
    if not -1 <= len(rest) - len(old) <= 2:
        return False, "more than one blank line is consumed / several are added"
    after = new[k + len(note_lines)] if k + len(note_lines) < len(new) else ""
    if after.strip() and after[:1] in " \t":
        return False, "the note is inserted between another item and its continuation line"
    return True, ""


def move_scenarios(run: Run, model: PyModel) -> None:
    """Abstract runs of _move_note end to end over a virtual notes directory (nothing touches a disk; a file the run writes is read back as written):
    afterwards the source page is its old text minus exactly the note's own lines, the destination is its old text plus the note's rendering, once (at most one
    blank line consumed, no other item split), inherited metadata the body does not spell out is part of the rendering, and the status is 0.
    Layouts: another page / the same page / closing the todo / destination given without extension / created from its template; destinations that end in a blank
    line, in an item, in a header without newline, that are empty, that have free text or a whitespace-only line after the last item; source notes on the first
    line, on the last line without trailing newline, with priority and modify date in front of the ZID, mentioned by neighbours."""
    fm = model.func(F_MOVE)
    ZID = "240101#A2"
    n = 0

    def one(label, files, note, target, done, note_lines, template_text=None, rid_dst="C10.R1", rid_src="C10.R1"):
        nonlocal n
        try:
            res = _move_run(model, files, note, target, done, template_text)
        except Exception as e:  # noqa: BLE001
            run.undecided("C10.R1", "_move_note", f"{label}: cannot interpret: {type(e).__name__}: {str(e)[:100]}")
            return
        src_name = note["page"]
        dst_name = target if "." in target else target + ".zo"
        src_old = files[src_name]
        k0 = note["line_no"] - 1
        cnt = len(note["body"].split("\n"))
        src_rest = src_old[:k0] + src_old[k0 + cnt:]
        for v, written, imprecise, raised in res:
            n += 1
            if raised or imprecise:
                run.undecided("C10.R1", "_move_note", f"{label}: " + (f"raises {v.exc}" if raised else "; ".join(imprecise[:2])))
                continue
            run.check("C10.R4", f"move {label}: the status is 0", v == 0, "_move_note", f"{label}: returned {v!r}", f"a move ({label}) that finds its note and both pages returns {v!r}", file=FILE_U, node=fm.node)
            got_src = written.get(f"/Z/{src_name}", "\n".join(src_old)).split("\n")
            if dst_name == src_name:
                ok_dst, why = _added_once(got_src, src_rest, note_lines)
                ok_src, why_s = ok_dst, why
                d_dst = d_src = f"the page becomes {got_src}"
            else:
                dst_old = files.get(dst_name, (template_text or "").split("\n"))
                got_dst = written.get(f"/Z/{dst_name}", "\n".join(dst_old)).split("\n")
                ok_dst, why = _added_once(got_dst, dst_old, note_lines)
                ok_src, why_s = got_src == src_rest, "a different set of lines is removed / the note stays behind"
                d_dst, d_src = f"the destination becomes {got_dst}", f"the source becomes {got_src}"
            run.check(rid_dst, f"move {label}: the destination gains exactly the note's rendering, once, and keeps every other line", ok_dst, "_move_note", f"{label}: {d_dst}"[:300],
                      f"after moving {note['zid']} ({label}), {d_dst}; expected its old lines plus {note_lines}: {why} -- the note is lost, truncated, duplicated or stripped of inherited metadata, "
                      "or other lines of the destination change", file=FILE_U, node=fm.node)
            run.check(rid_src, f"move {label}: the source loses exactly the note's own lines", ok_src, "_move_note", f"{label}: {d_src}"[:300],
                      f"after moving {note['zid']} ({label}), {d_src}; expected {src_rest if dst_name != src_name else 'the old lines without the note, plus its rendering once'}: {why_s} "
                      f"(neighbours that merely mention {note['zid']} must stay; a freshly added copy must not be lost)", file=FILE_U, node=fm.node)

    # ---- the rich note: two lines, section tags, mentioned by its neighbours
    src = ["# Source page", "################################ Section +home #chores", "", f"- 240101#A1 first note about {ZID}", f"o P1 {ZID} todo to move +home_office (see +own).", "  continued line mentioning 240101#A1",
           f"- 240101#A3 mentions {ZID} in its text", ""]
    dst = ["# Destination", "", "- 240101#B1 existing note", "  its second line", ""]
    rich = dict(zid=ZID, body=f"{ZID} todo to move +home_office (see +own).\n  continued line mentioning 240101#A1", page="src.zo", line_no=5, priority="P1", status="OPEN_TODO",
                projects=["home", "home_office", "own"], areas=["chores"])
    tail = f"{ZID} +home #chores todo to move +home_office (see +own)."
    for label, target, done, first in (("to another page", "dst.zo", None, "o P1 " + tail), ("to the bottom of its own page", "src.zo", None, "o P1 " + tail), ("to another page, closing the todo", "dst.zo", "x", "x " + tail),
                                       ("to another page, cancelling the todo", "dst.zo", "~", "~ " + tail), ("to a page given without extension", "dst", None, "o P1 " + tail)):
        one(label, {"src.zo": src, "dst.zo": dst}, rich, target, done, [first, "  continued line mentioning 240101#A1"])
    one("to a page that does not exist yet (created from its template)", {"src.zo": src}, rich, "new.zo", None, ["o P1 " + tail, "  continued line mentioning 240101#A1"], template_text="# from the template\n\n")
    # ---- destination layouts (a plain two-line note)
    plain = dict(zid=ZID, body=f"{ZID} moved text\n  more", page="src.zo", line_no=2, status=None)
    psrc = ["# S", f"- {ZID} moved text", "  more", "- 240101#A3 stays", ""]
    for label, d in (("destination ends in a blank line", ["# D", "", "- 240101#B1 existing", ""]), ("destination ends in an item, no final newline", ["# D", "", "- 240101#B1 existing"]),
                     ("destination ends in a header, no final newline", ["# D", "", "######## Section"]), ("destination is empty", [""]),
                     ("destination has free text after its last item", ["- 240101#B1 existing", "", "free text paragraph", "second line of it", ""]),
                     ("destination has a whitespace-only line after its last item", ["- 240101#B1 a", "", "######## S", "", "- 240101#B2 b", "  cont", "   ", "trailing text"])):
        one(label, {"src.zo": psrc, "dst.zo": d}, plain, "dst.zo", None, [f"- {ZID} moved text", "  more"])
    # ---- source layouts
    d0 = ["# D", "", "- 240101#B1 existing", ""]
    one("source note on the first line of its page", {"src.zo": [f"- {ZID} moved text", "  more", "- 240101#A3 stays", ""], "dst.zo": d0}, dict(plain, line_no=1), "dst.zo", None, [f"- {ZID} moved text", "  more"])
    one("source note on the last line, no final newline", {"src.zo": ["# S", "- 240101#A1 stays", f"- {ZID} moved text", "  more"], "dst.zo": d0}, dict(plain, line_no=3), "dst.zo", None, [f"- {ZID} moved text", "  more"])
    one("priority and modify date in front of the ZID, look-alike neighbours",
        {"src.zo": ["# S", f"- 240101#A0 {ZID} is only mentioned here", f"o P2 240101#A9 240105 {ZID} mentioned after another ZID", f"o P2 240105 {ZID} the real one", f"- see {ZID}", ""], "dst.zo": d0},
        dict(zid=ZID, body=f"240105 {ZID} the real one", page="src.zo", line_no=4, priority="P2", status="OPEN_TODO"), "dst.zo", None, [f"o P2 240105 {ZID} the real one"])
    # ---- the locator: every kind of item is found at its own-ZID position; lines that merely mention the ZID (anywhere, after another ZID, in a continuation line,
    #      as the prefix of a longer ZID) are never taken for it
    kinds = {"BASIC": ("-", ""), "OPEN_TODO": ("o", " P2"), "CLOSED_TODO": ("x", ""), "CANCELED_TODO": ("~", ""), "BLOCKED_TODO": ("<", " P2"), "PARENT_TODO": (">", " P2")}
    for status, (ch, prio) in kinds.items():
        for md in ("", "240105 "):
            first = f"{ch}{prio} {md}{ZID} the real one"
            lines = ["# S", f"- 240101#A0 {ZID} is only mentioned here", f"  {ZID} opens a continuation line", f"- {ZID}b has a longer ZID", f"o P1 240101#A9 240105 {ZID} after another ZID", first, f"- see {ZID}", ""]
            one(f"locating a {status} item{' with a modify date' if md else ''} among look-alikes", {"src.zo": lines, "dst.zo": d0},
                dict(zid=ZID, body=f"{md}{ZID} the real one", page="src.zo", line_no=6, priority="P2", status=None if status == "BASIC" else status), "dst.zo", None, [first], rid_src="C10.R2")
    # ---- the requested kind: whatever the item was (a plain note, a live todo of every kind, an already closed / cancelled one), it lands as the kind asked for
    for status, (ch, prio) in kinds.items():
        for done in ("x", "~"):
            first = f"{ch}{prio} {ZID} moved text"
            one(f"a {status} item moved as '{done}'", {"src.zo": ["# S", first, "  more", "- 240101#A3 stays", ""], "dst.zo": d0},
                dict(zid=ZID, body=f"{ZID} moved text\n  more", page="src.zo", line_no=2, priority="P2", status=None if status == "BASIC" else status), "dst.zo", done, [f"{done} {ZID} moved text", "  more"])
    for status, (ch, prio) in kinds.items():
        one(f"destination whose last block is a {status} item under a section", {"src.zo": psrc, "dst.zo": ["# D", "", "- 240101#B0 first block", "", "######## S", "", f"{ch}{prio} 240101#B1 existing", "  cont", "", "######## T", ""]},
            plain, "dst.zo", None, [f"- {ZID} moved text", "  more"])
    one("line separators and form feeds above the note in both pages", {"src.zo": ["# S", "pasted\u2028text", "form\x0cfeed\rcr", f"- {ZID} moved text", "  more", "- 240101#A3 stays", ""],
                                                                        "dst.zo": ["# D\u2028x", "\x0c", "- 240101#B1 existing", ""]}, dict(plain, line_no=4), "dst.zo", None, [f"- {ZID} moved text", "  more"])
    run.floor("move scenarios", n, 46)


def check(run: Run) -> None:
    model = PyModel(run.repo)
    run.rule("C10.R1", "conservation, by abstract runs of _move_note end to end over virtual pages (16 layouts: same page, missing destination, destinations ending in blank / item / header / nothing, free text or whitespace-only lines after the last item, source note first / last / with priority and date, look-alike neighbours, U+2028 / form feed): the source loses exactly the note's lines, the destination gains its rendering once, every other line is kept")
    run.rule("C10.R2", "anchored locator, by abstract runs of _move_note: an item of every kind (with and without priority / modify date) is found at its own-ZID position among lines that merely mention the ZID (in the text, after another ZID, in a continuation line, as the prefix of a longer ZID)")
    run.rule("C10.R3", "tables: item-prefix tuples == NoteType values + ' '; tag sigils of the hidden-metadata helpers agree with each other and with the grammar")
    run.rule("C10.R4", "order and errors, by abstract runs of _move_note: the destination is written before the source; a destination that cannot be written / a source that no longer holds the note give a non-zero status and remove nothing; both file operations write the page themselves on success; _to_done_note only changes the payload")
    run.rule("C10.R5", "inherited metadata is spliced in directly after the note's own ZID; the destination's rendering carries it in every move scenario (plain, closing, cancelling, same page, new page)")
    run.rule("C10.R7", "a missing destination is created from ITS template: _move_note hands the creation to init_from_template (move scenario 'created from its template'), whose first-match / no-clobber / "
             "exact-rendering scenarios (C16.R1-R3) are adopted")
    run.rule("C10.R6", "the text that lands in the destination is Note.to_string(): the renderer obligations C12.R1-R3 (kind character, priority for every live todo kind, derivable piece sequence) are adopted")
    from . import c12

    sub = Run("C12", run.tier, run.repo)
    c12.check(sub)
    run.floor("adopted renderer obligations", run.adopt(sub, ("C12.R1", "C12.R2", "C12.R3"), "C10.R6"), 8)
    move_scenarios(run, model)
    from .c16 import init_scenarios

    init_scenarios(run, model, rid_as="C10.R7")
    _tables(run, model)
    _order_and_errors(run, model)
    run.units = dict(functions=[F_ADD, F_DEL, F_MOVE, F_DONE, F_HIDDEN, F_MUTATES])
    run.assumptions += ["Path.read_text/write_text semantics", "the index's note.body line count equals the note's line count in the file"]
