"""C10 -- `note move` relocates exactly one note and loses nothing."""

from __future__ import annotations

import ast

from ..core import Run
from ..effects import Effects
from ..grammar import FILE_PARSER, ParserGrammar
from ..paths import enum_paths, first_index
from ..pymodel import PyModel, literal_strs, walk_no_nested
from ..shapes import Const, Hole, ShapeEval, render
from ..util import base_name, find_calls, if_chain, names_loaded

F_ADD = "zorg.storage.file._manager.FileManager.add_note"
F_DEL = "zorg.storage.file._manager.FileManager.delete_note"
F_MOVE = "zorg.service.note_utils._move_note"
F_DONE = "zorg.service.note_utils._to_done_note"
F_HIDDEN = "zorg.service.note_utils._add_hidden_metadata"
F_MUTATES = "zorg.service.note_utils._get_hidden_metadata_mutates"
FILE_M = "src/zorg/storage/file/_manager.py"
FILE_U = "src/zorg/service/note_utils.py"


def _lits(fi, e: ast.expr):
    """String literals of a tuple / list expression, looking through a module-level constant."""
    if isinstance(e, ast.Name) and isinstance(fi.module.assigns.get(e.id), (ast.Tuple, ast.List, ast.Constant)):
        e = fi.module.assigns[e.id]
    return literal_strs(e)


def _note_type_values(model: PyModel) -> set[str]:
    ci = model.cls("zorg.domain.types.NoteType")
    return {s.value.value for s in ci.node.body if isinstance(s, ast.Assign) and isinstance(s.value, ast.Constant)}


def _affine(e: ast.expr, env: dict) -> tuple:
    """expr -> (symbol, offset): `x`, `x + 1`, `x - 1`, `len(xs)`; anything else is its own symbol."""
    if isinstance(e, ast.Name):
        return env.get(e.id, (e.id, 0))
    if isinstance(e, ast.BinOp) and isinstance(e.op, (ast.Add, ast.Sub)) and isinstance(e.right, ast.Constant) and isinstance(e.right.value, int):
        s, o = _affine(e.left, env)
        return (s, o + (e.right.value if isinstance(e.op, ast.Add) else -e.right.value))
    txt = ast.unparse(e)
    for nm, (s, o) in env.items():
        pass
    return (txt, 0)


def _conservation(run: Run, model: PyModel) -> None:
    """lines[:S] + note + lines[E:]  with  E == S, or E == S + 1 and lines[S] shown blank on that path.
    S and E are followed as affine forms (symbol + constant) through the paths of add_note with its helpers folded in."""
    from ..flatten import flat_info

    fi = flat_info(model, F_ADD)
    fn = fi.node
    concat = None
    for n in walk_no_nested(fn):
        if isinstance(n, ast.BinOp) and isinstance(n.op, ast.Add):
            subs = [s for s in ast.walk(n) if isinstance(s, ast.Subscript) and isinstance(s.slice, ast.Slice)]
            if len(subs) == 2 and all(base_name(s.value) == base_name(subs[0].value) for s in subs):
                if concat is None or len(ast.unparse(n)) > len(ast.unparse(concat)):
                    concat = n
    slice_assign = None
    if concat is None:
        # in-place form: lines[S:E] = note_lines
        for n in walk_no_nested(fn):
            if isinstance(n, ast.Assign) and isinstance(n.targets[0], ast.Subscript) and isinstance(n.targets[0].slice, ast.Slice) and n.targets[0].slice.lower is not None and n.targets[0].slice.upper is not None:
                slice_assign = n
    if concat is None and slice_assign is None:
        run.undecided("C10.R1", "add_note", "cannot find `lines[:s] + new + lines[e:]`")
        return
    if concat is not None:
        subs = [s for s in ast.walk(concat) if isinstance(s, ast.Subscript) and isinstance(s.slice, ast.Slice)]
        head = next((s for s in subs if s.slice.lower is None and s.slice.upper is not None), None)
        tail = next((s for s in subs if s.slice.upper is None and s.slice.lower is not None), None)
        if head is None or tail is None:
            run.undecided("C10.R1", "add_note", "the two slices are not lines[:s] and lines[e:]")
            return
        lines, S_expr, E_expr, site = base_name(head.value), head.slice.upper, tail.slice.lower, concat
    else:
        t = slice_assign.targets[0]
        lines, S_expr, E_expr, site = base_name(t.value), t.slice.lower, t.slice.upper, slice_assign
    n_paths = 0
    for p in enum_paths(fn, unroll=1):
        ci = first_index(p, lambda n: n is site)
        if ci < 0:
            continue
        n_paths += 1
        env: dict[str, tuple] = {}
        ver: dict[str, int] = {}
        blank: set[tuple] = set()
        line_of: dict[str, str] = {}  # loop element variable -> index variable of the same iteration

        def fresh(nm: str) -> tuple:
            ver[nm] = ver.get(nm, 0) + 1
            return (f"{nm}#{ver[nm]}", 0)

        for ev in p.events[:ci]:
            if ev[0] == "iter":
                t, it = ev[1].target, ev[1].iter
                for nme in [x.id for x in ast.walk(t) if isinstance(x, ast.Name)]:
                    env[nme] = fresh(nme)
                line_of = {}
                if isinstance(t, ast.Tuple) and len(t.elts) == 2 and isinstance(it, ast.Call) and ast.unparse(it.func) == "enumerate" and it.args and base_name(it.args[0]) == lines \
                        and all(isinstance(x, ast.Name) for x in t.elts):
                    line_of = {t.elts[1].id: t.elts[0].id}
            elif ev[0] == "assume" and ev[2] is True:
                e = ev[1]
                if isinstance(e, ast.Compare) and len(e.ops) == 1 and isinstance(e.ops[0], ast.Eq) and isinstance(e.comparators[0], ast.Constant) and e.comparators[0].value == "":
                    l = e.left
                    if isinstance(l, ast.Call) and isinstance(l.func, ast.Attribute) and l.func.attr == "strip" and not l.args:
                        tgt = l.func.value
                        if isinstance(tgt, ast.Name) and tgt.id in line_of:
                            blank.add(_affine(ast.Name(id=line_of[tgt.id], ctx=ast.Load()), env))
                        if isinstance(tgt, ast.Subscript) and base_name(tgt.value) == lines and not isinstance(tgt.slice, ast.Slice):
                            blank.add(_affine(tgt.slice, env))
                elif isinstance(e, ast.UnaryOp) and isinstance(e.op, ast.Not) and isinstance(e.operand, ast.Call) and isinstance(e.operand.func, ast.Attribute) and e.operand.func.attr == "strip":
                    tgt = e.operand.func.value  # `not line.strip()`
                    if isinstance(tgt, ast.Name) and tgt.id in line_of:
                        blank.add(_affine(ast.Name(id=line_of[tgt.id], ctx=ast.Load()), env))
                    if isinstance(tgt, ast.Subscript) and base_name(tgt.value) == lines and not isinstance(tgt.slice, ast.Slice):
                        blank.add(_affine(tgt.slice, env))
            elif ev[0] == "stmt" and isinstance(ev[1], (ast.Assign, ast.AnnAssign)) and getattr(ev[1], "value", None) is not None:
                st = ev[1]
                tg = st.targets if isinstance(st, ast.Assign) else [st.target]
                for t in tg:
                    if isinstance(t, ast.Name):
                        v = st.value
                        if isinstance(v, (ast.Name, ast.BinOp)) or (isinstance(v, ast.Call) and ast.unparse(v.func) == "len"):
                            form = _affine(v, env)
                            # an expression that is its own symbol and mentions variables is re-versioned when those change; keep as text
                            env[t.id] = form
                        else:
                            env[t.id] = fresh(t.id)
                    elif isinstance(t, (ast.Tuple, ast.List)):
                        for x in ast.walk(t):
                            if isinstance(x, ast.Name):
                                env[x.id] = fresh(x.id)
            elif ev[0] == "stmt" and isinstance(ev[1], ast.AugAssign) and isinstance(ev[1].target, ast.Name):
                env[ev[1].target.id] = fresh(ev[1].target.id)
        S, E = _affine(S_expr, env), _affine(E_expr, env)
        same = S[0] == E[0]
        ok = same and (E[1] == S[1] or (E[1] == S[1] + 1 and S in blank))
        if same and E[1] == S[1] + 1 and S not in blank:
            msg = (f"on a path of add_note `{lines}[{ast.unparse(S_expr)}]` is dropped (the tail starts one line later) without having been shown to be blank: the destination loses that line "
                   "(e.g. a page whose last line is a section header without trailing newline)")
        else:
            msg = f"on a path of add_note the relation between `{ast.unparse(S_expr)}` = {S} and `{ast.unparse(E_expr)}` = {E} is not `equal` or `one blank line apart`: lines of the destination may be lost or duplicated"
        run.check("C10.R1", "the line replaced by the moved note is blank (or nothing is replaced)", ok, "FileManager.add_note", site, msg, file=FILE_M, node=site, detail=dict(path=p.describe(16)))
    run.floor("paths through the insertion in add_note", n_paths, 2)
    # the inserted lines are the note's own text
    mid = [x for x in ast.walk(fn) if isinstance(x, ast.Call) and isinstance(x.func, ast.Attribute) and x.func.attr == "split"]
    ok = any("to_string" in ast.unparse(m) and m.args and isinstance(m.args[0], ast.Constant) and m.args[0].value == "\n" for m in mid)
    run.check("C10.R1", "the inserted lines are note.to_string() split on '\\n'", ok, "FileManager.add_note", site, "the inserted text is not note.to_string().split('\\n')", file=FILE_M, node=site)
    for nm, f in (("add_note", fn), ("delete_note", flat_info(model, F_DEL).node)):
        splits = [c for c in find_calls(f, "split") if "read_text" in ast.unparse(c)]
        bad = [c for c in splits if not (c.args and isinstance(c.args[0], ast.Constant) and c.args[0].value == "\n")]
        bad += find_calls(f, "splitlines")
        joins = [c for c in find_calls(f, "join") if isinstance(c.func.value, ast.Constant)]
        badj = [c for c in joins if c.func.value.value != "\n"]
        run.check("C10.R1", f"{nm}: the page is split and joined on '\\n' only", not bad and not badj and bool(splits) and bool(joins), f"FileManager.{nm}",
                  (bad + badj + [f])[0] if (bad or badj) else "split/join", "the page is not split/joined on exactly '\\n' (line numbers and other lines shift)", file=FILE_M, node=f)


def _locator(run: Run, model: PyModel) -> None:
    from ..flatten import flat_info

    fi = flat_info(model, F_DEL)
    fn = fi.node
    cond = None
    # the predicate under which the scan over the page's lines records the index of the current line
    for loop in walk_no_nested(fn):
        if not (isinstance(loop, ast.For) and isinstance(loop.target, ast.Tuple) and len(loop.target.elts) == 2 and isinstance(loop.target.elts[0], ast.Name)
                and isinstance(loop.iter, ast.Call) and ast.unparse(loop.iter.func) == "enumerate"):
            continue
        idx = loop.target.elts[0].id
        for n in ast.walk(loop):
            if isinstance(n, ast.If) and any((isinstance(s, ast.Assign) and isinstance(s.value, ast.Name) and s.value.id == idx) or (isinstance(s, ast.Return) and isinstance(s.value, ast.Name) and s.value.id == idx)
                                             for s in n.body):
                cond = n.test
    if cond is None:
        run.undecided("C10.R2", "delete_note", "cannot find the predicate that locates the note's first line")
        return
    if isinstance(cond, ast.Compare) and isinstance(cond.ops[0], ast.In):
        run.refuted("C10.R2", "FileManager.delete_note", cond, f"`{ast.unparse(cond)}` selects the first line that merely CONTAINS the ZID: when an earlier note mentions "
                    "the ZID, that note is deleted and the moved note stays in the source page", file=FILE_M, node=cond)
        return
    if isinstance(cond, ast.Call):
        tgt = model.callee(fi, cond)
        if tgt in model.funcs:
            h = model.funcs[tgt]
            anchored = bool(find_calls(h.node, "startswith")) or any(isinstance(c, ast.Call) and ast.unparse(c.func) in ("re.match", "re.fullmatch") for c in ast.walk(h.node))
            zparam = h.params()[-1].arg
            eq = [c for c in ast.walk(h.node) if isinstance(c, ast.Compare) and isinstance(c.ops[0], ast.Eq) and zparam in names_loaded(c)]
            contains = [c for c in ast.walk(h.node) if isinstance(c, ast.Compare) and isinstance(c.ops[0], ast.In) and zparam in names_loaded(c.left)]
            run.check("C10.R2", "the locator anchors the ZID at the item's own-ZID position", anchored and bool(eq) and not contains, h.name, (contains or [cond])[0],
                      f"{h.name} does not pin the ZID to the position right after the item prefix (anchored={anchored}, equality={bool(eq)}, substring tests={len(contains)})",
                      file=h.file, node=h.node)
            # the prefix tuple of the locator covers every kind
            kinds = _note_type_values(model)
            tup = [_lits(h, c.args[0]) for c in find_calls(h.node, "startswith") if c.args and _lits(h, c.args[0])]
            if tup:
                got = set(tup[0])
                run.check("C10.R3", "locator prefixes == {kind + ' '}", got == {k + " " for k in kinds}, h.name, f"prefixes {sorted(got)}",
                          f"{h.name} recognises the item prefixes {sorted(got)}, expected {sorted(k + ' ' for k in kinds)}", file=h.file, node=h.node)
            # skips optional priority and modify date
            pops = [c for c in find_calls(h.node, "pop")]
            run.check("C10.R2", "the locator skips the optional priority and modify date", len(pops) >= 2 and any("is_short_date_spec" in ast.unparse(x) for x in ast.walk(h.node)), h.name,
                      "optional prefix words", f"{h.name} does not skip both the optional priority and the optional YYMMDD modify date before comparing the ZID", file=h.file, node=h.node)
            return
    run.undecided("C10.R2", "delete_note", f"unrecognised locator predicate `{ast.unparse(cond)[:80]}`")


def _tables(run: Run, model: PyModel) -> None:
    kinds = _note_type_values(model)
    from ..flatten import flat_info

    fa = flat_info(model, F_ADD)
    tup = [_lits(fa, c.args[0]) for c in find_calls(fa.node, "startswith") if c.args and _lits(fa, c.args[0])]
    if not tup:
        run.undecided("C10.R3", "add_note", "cannot find the item-prefix tuple")
    else:
        run.check("C10.R3", "add_note item prefixes == {kind + ' '}", set(tup[0]) == {k + " " for k in kinds}, "FileManager.add_note", f"prefixes {sorted(tup[0])}",
                  f"add_note recognises item prefixes {sorted(tup[0])}, expected {sorted(k + ' ' for k in kinds)}: notes of a missing kind are not seen and the moved note is inserted in the wrong place",
                  file=FILE_M, node=fa.node)
    # tag sigils: grammar
    g = ParserGrammar(run.repo, FILE_PARSER)
    gram = {}
    for rule, name in (("area", "areas"), ("context", "contexts"), ("person", "people"), ("project", "projects")):
        toks = [t for lbl in g.child_at(rule, 0) if lbl[0] == "tok" for t in [lbl[1]]]
        lits = {g.token_literal(t) or _lexer_literal(run, g.token_name(t)) for t in toks}
        gram[name] = next(iter(lits)) if len(lits) == 1 else None
    run.floor("tag kinds in the grammar table", len([v for v in gram.values() if v]), 4)
    _hidden_metadata_eval(run, model, gram)


def _hidden_metadata_eval(run: Run, model: PyModel, gram: dict) -> None:
    """Abstract evaluation of _add_hidden_metadata on generic notes (marker values): every inherited tag / property the body
    does not already spell out is inserted, with the grammar's sigil, directly after the note's own ZID -- also when a
    modify date precedes the ZID -- and nothing already present is repeated."""
    from ..absint import Interp, Raised, State
    from ..absval import HObj, Ref

    I = Interp(model)
    ZID = "240101#00"
    vals = {"projects": "P", "areas": "A", "contexts": "C", "people": "Q"}
    if any(v is None for v in gram.values()):
        run.undecided("C10.R3", "grammar", f"cannot read the tag sigils from the grammar: {gram}")
        return
    words = {gram[k] + v for k, v in vals.items()}
    scen = [
        ("plain item", f"{ZID} text", f"{ZID} ", " text", words | {"k::v"}),
        ("item with a modify date", f"240102 {ZID} text", f"240102 {ZID} ", " text", words | {"k::v"}),
        ("tag and property already in the body", f"{ZID} text {gram['areas']}A k::w", f"{ZID} ", f" text {gram['areas']}A k::w", words - {gram["areas"] + "A"}),
    ]
    n = 0
    for label, body, pre, post, want in scen:
        st = State()

        def L(*xs):
            return st.alloc(HObj("list", items=list(xs)))

        note = st.alloc(HObj("obj", cls="zorg.domain.models._page.Note", fields=dict(
            body=body, zid=ZID, projects=L("P"), areas=L("A"), contexts=L("C"), people=L("Q"), properties=st.alloc(HObj("dict", fields={"k": "v"})), links=L(),
            todo_payload=None, create_date=None, modify_date=None, line_no=3, file_path=None, block=None)))
        try:
            res = I.run_function(F_HIDDEN, [note], st=st)
        except Exception as e:
            run.undecided("C10.R3", "_add_hidden_metadata", f"cannot evaluate abstractly: {type(e).__name__}: {e}")
            return
        for v, s in res:
            n += 1
            if isinstance(v, Raised) or s.imprecise or not isinstance(v, Ref):
                run.undecided("C10.R3", "_add_hidden_metadata", f"{label}: " + (f"raises {v.exc}" if isinstance(v, Raised) else "; ".join(s.imprecise[:2]) or repr(v)))
                continue
            got = s.obj(v).fields.get("body")
            if not isinstance(got, str):
                run.undecided("C10.R3", "_add_hidden_metadata", f"{label}: body evaluates to {got!r}")
                continue
            anchored = got.startswith(pre) and got.endswith(post) and len(got) >= len(pre) + len(post)
            run.check("C10.R5", f"{label}: inherited metadata is inserted directly after the note's own ZID", anchored, "_add_hidden_metadata", f"{label}: {body!r} -> {got!r}",
                      f"for a {label} ({body!r}) the body becomes {got!r}: the metadata is not spliced in right after the ZID (with a modify date in front, tags between date and ZID "
                      "make the note lose its identity when the page is compiled again)", file=FILE_U, node=model.func(F_HIDDEN).node)
            if anchored:
                mid = got[len(pre):len(got) - len(post)].split()
                run.check("C10.R3", f"{label}: exactly the missing inherited tags and properties are written, with the grammar's sigils", sorted(mid) == sorted(want) and len(mid) == len(set(mid)),
                          "_add_hidden_metadata", f"{label}: inserted {mid}",
                          f"for a {label} the inserted words are {mid}, expected {sorted(want)} (sigils from the grammar: {gram}): inherited metadata is lost, duplicated or written with the wrong sigil",
                          file=FILE_U, node=model.func(F_HIDDEN).node)
            orig = s.obj(note).fields.get("body")
            run.check("C10.R4", f"{label}: the note handed in is not modified in place", orig == body, "_add_hidden_metadata", "mutates its argument",
                      "the note object read from the index is modified in place: delete_note afterwards looks for a body that no longer matches the source page", file=FILE_U, node=model.func(F_HIDDEN).node)
    run.floor("hidden-metadata evaluations", n, 3)


def _lexer_literal(run: Run, token_name: str):
    from ..grammar import FILE_LEXER, LexerGrammar

    lx = LexerGrammar(run.repo, FILE_LEXER)
    return lx.literal_of(token_name) if token_name in lx.rule_names else None


def _order_and_errors(run: Run, model: PyModel) -> None:
    eff = Effects(model)
    fm = model.func(F_MOVE)
    n = 0
    for p in enum_paths(fm.node):
        a = first_index(p, lambda x: isinstance(x, ast.Call) and isinstance(x.func, ast.Attribute) and x.func.attr == "add_note")
        d = first_index(p, lambda x: isinstance(x, ast.Call) and isinstance(x.func, ast.Attribute) and x.func.attr == "delete_note")
        if d >= 0:
            n += 1
            run.check("C10.R4", "the note is added to the destination before it is deleted from the source", 0 <= a < d, "_move_note", "delete before add",
                      "a path deletes the note from its source page before (or without) adding it to the destination: a failure in between loses the note", file=FILE_U, node=fm.node)
        if p.outcome == "return":
            ret = p.events[-1][1]
            # error branches: an `if error := ...` assumed true must return non-zero
            errs = [ev for ev in p.events if ev[0] == "assume" and ev[2] is True and isinstance(ev[1], ast.NamedExpr) and "error" in ev[1].target.id]
            if errs:
                v = ret.value
                run.check("C10.R4", "a failed step yields a non-zero exit status", isinstance(v, ast.Constant) and v.value not in (0, None), "_move_note", ret,
                          "a failed add/delete step does not produce a non-zero exit status", file=FILE_U, node=ret)
    run.floor("paths of _move_note reaching delete_note", n, 1)
    # typestate of the moved note: on every path, what add_note receives has passed through _add_hidden_metadata
    n_add = 0
    for p in enum_paths(fm.node):
        decorated: set[str] = set()
        for ev in p.events:
            nodes = [ev[1]] if ev[0] in ("stmt", "assume", "return") else []
            for top in nodes:
                if isinstance(top, (ast.Assign, ast.AnnAssign)) and isinstance(top.targets[0] if isinstance(top, ast.Assign) else top.target, ast.Name) and top.value is not None:
                    tgt = (top.targets[0] if isinstance(top, ast.Assign) else top.target).id
                    v = top.value
                    if isinstance(v, ast.Call) and ast.unparse(v.func).split(".")[-1] == "_add_hidden_metadata":
                        decorated.add(tgt)
                    elif isinstance(v, ast.Name):
                        (decorated.add if v.id in decorated else decorated.discard)(tgt)
                    elif isinstance(v, ast.Call) and v.args and isinstance(v.args[0], ast.Name) and ast.unparse(v.func).split(".")[-1] in ("_to_done_note", "replace"):
                        (decorated.add if v.args[0].id in decorated else decorated.discard)(tgt)
                    else:
                        decorated.discard(tgt)
                for c in ast.walk(top):
                    if isinstance(c, ast.Call) and isinstance(c.func, ast.Attribute) and c.func.attr == "add_note" and c.args:
                        n_add += 1
                        a0 = c.args[0]
                        ok = (isinstance(a0, ast.Name) and a0.id in decorated) or (isinstance(a0, ast.Call) and ast.unparse(a0.func).split(".")[-1] == "_add_hidden_metadata")
                        run.check("C10.R5", "the note written to the destination carries its inherited metadata on every path", ok, "_move_note", c,
                                  "a path reaches add_note with a note that did not pass through _add_hidden_metadata: the tags, links and properties the note inherited from its old page / "
                                  "sections are not spelled out and are lost (or replaced by those of the place it lands in)", file=FILE_U, node=c, detail=dict(path=p.describe(14)))
    run.floor("add_note sites on paths of _move_note", n_add, 1)
    # add_note / delete_note write the page themselves on every successful path
    from ..flatten import flat_info

    for q, nm in ((F_ADD, "add_note"), (F_DEL, "delete_note")):
        fi = flat_info(model, q)
        writes = [nd for nd, e in eff.direct(fi) if e.kind == "FILE_WRITE"]
        k = 0
        for p in enum_paths(fi.node):
            if p.outcome != "return":
                continue
            ret = p.events[-1][1]
            success = ret.value is None or (isinstance(ret.value, ast.Constant) and ret.value.value is None)
            if not success:
                continue
            k += 1
            w = any(first_index(p, lambda x, wn=wn: x is wn) >= 0 for wn in writes)
            run.check("C10.R4", f"{nm}: a successful call has written the page", w, f"FileManager.{nm}", "success without write",
                      f"{nm} can report success without having written the page itself (deferred / staged writes: the next step then reads stale content, "
                      "and a move within one page loses the note)", file=FILE_M, node=fi.node)
        run.floor(f"successful paths of {nm}", k, 1)
    # _to_done_note keeps everything but the payload
    fd = model.func(F_DONE)
    stores = [t for s in walk_no_nested(fd.node) if isinstance(s, ast.Assign) for t in s.targets if isinstance(t, ast.Attribute)]
    uses_replace = any(isinstance(c, ast.Call) and ast.unparse(c.func) == "replace" for c in ast.walk(fd.node))
    run.check("C10.R4", "_to_done_note copies the note and changes only the todo payload", uses_replace and {t.attr for t in stores} <= {"todo_payload"}, "_to_done_note",
              f"stores {[t.attr for t in stores]}", "_to_done_note changes fields other than todo_payload (or does not copy the note)", file=FILE_U, node=fd.node)


def _hidden_anchor(run: Run, model: PyModel) -> None:
    fh = model.func(F_HIDDEN)
    se = ShapeEval(model, fh)
    body_stores = [s for s in walk_no_nested(fh.node) if isinstance(s, ast.Assign) and any(isinstance(t, ast.Attribute) and t.attr == "body" for t in s.targets)]
    if len(body_stores) != 1:
        run.undecided("C10.R5", "_add_hidden_metadata", f"expected one assignment to .body, found {len(body_stores)}")
        return
    v = body_stores[0].value
    if isinstance(v, ast.Call) and isinstance(v.func, ast.Attribute) and v.func.attr == "replace" and len(v.args) >= 2:
        anchor = ast.unparse(v.args[0])
        rep = se.eval(v.args[1])
        ok_anchor = anchor.endswith(".zid")
        ok_rep = bool(rep) and all(len(s) >= 1 and isinstance(s[0], Hole) and s[0].source.endswith(".zid") for s in rep)
        run.check("C10.R5", "inherited metadata is inserted directly after the note's own ZID", ok_anchor and ok_rep, "_add_hidden_metadata", v,
                  f"the metadata is spliced in at `{anchor}` -> `{', '.join(render(s) for s in rep)}`, not right after the note's ZID", file=FILE_U, node=v)
        return
    anchors = [c for c in ast.walk(v) if isinstance(c, ast.Call) and isinstance(c.func, ast.Attribute) and c.func.attr in ("partition", "split", "index", "find")]
    for s in walk_no_nested(fh.node):
        if isinstance(s, ast.Assign):
            anchors += [c for c in ast.walk(s.value) if isinstance(c, ast.Call) and isinstance(c.func, ast.Attribute) and c.func.attr in ("partition", "split", "index", "find") and "body" in ast.unparse(c.func.value)]
    if anchors and not any("zid" in ast.unparse(a.args[0]) for a in anchors if a.args):
        run.refuted("C10.R5", "_add_hidden_metadata", anchors[0], f"the insertion point is found with `{ast.unparse(anchors[0])}`, i.e. not anchored at the note's ZID: when the body "
                    "starts with a modify date the tags land between the date and the ZID and the note loses its identity on recompilation", file=FILE_U, node=anchors[0])
        return
    run.undecided("C10.R5", "_add_hidden_metadata", "unrecognised way of splicing the metadata into the body")


def check(run: Run) -> None:
    model = PyModel(run.repo)
    run.rule("C10.R1", "conservation: in lines[:s] + note + lines[e:] either e == s, or e == s+1 with lines[s] proven blank on that path; pages are split/joined on '\\n'")
    run.rule("C10.R2", "anchored locator: the predicate choosing the source line pins the ZID to the own-ZID position (never substring containment)")
    run.rule("C10.R3", "tables: item-prefix tuples == NoteType values + ' '; tag sigils of the hidden-metadata helpers agree with each other and with the grammar")
    run.rule("C10.R4", "order and errors: add before delete; failures give a non-zero status; both file operations write the page themselves on success; _to_done_note only changes the payload")
    run.rule("C10.R5", "inherited metadata is spliced in directly after the note's own ZID, and every path of _move_note passes the note through it before add_note")
    run.rule("C10.R6", "the text that lands in the destination is Note.to_string(): the renderer obligations C12.R1-R3 (kind character, priority for every live todo kind, derivable piece sequence) are adopted")
    from . import c12

    sub = Run("C12", run.tier, run.repo)
    c12.check(sub)
    run.floor("adopted renderer obligations", run.adopt(sub, ("C12.R1", "C12.R2", "C12.R3"), "C10.R6"), 8)
    _conservation(run, model)
    _locator(run, model)
    _tables(run, model)
    _order_and_errors(run, model)
    run.units = dict(functions=[F_ADD, F_DEL, F_MOVE, F_DONE, F_HIDDEN, F_MUTATES])
    run.assumptions += ["Path.read_text/write_text semantics", "the index's note.body line count equals the note's line count in the file"]
