"""Engine G/X: grammar facts from the ATNs serialised in the generated modules.

The generated ``Zorg*Parser.py`` / ``Zorg*Lexer.py`` are *not imported*: the
integer list returned by ``serializedATN()`` and the name tables are read with
``ast.literal_eval`` and fed to the antlr4 runtime's ``ATNDeserializer`` -- the
same automaton the runtime interprets in production.
"""

from __future__ import annotations

import ast
from dataclasses import dataclass, field
from functools import lru_cache
from typing import Iterable, Optional

from antlr4.atn.ATNDeserializer import ATNDeserializer
from antlr4.atn.Transition import Transition

from .core import SRC, AnalysisError, Repo

EOF = -1


def _read_generated(repo: Repo, rel: str) -> dict:
    tree = repo.tree(rel)
    out: dict = {}
    for node in ast.walk(tree):
        if isinstance(node, ast.FunctionDef) and node.name == "serializedATN":
            for sub in ast.walk(node):
                if isinstance(sub, ast.Return) and sub.value is not None:
                    out["atn"] = ast.literal_eval(sub.value)
        if isinstance(node, ast.Assign) and len(node.targets) == 1 and isinstance(node.targets[0], ast.Name):
            nm = node.targets[0].id
            if nm in ("ruleNames", "literalNames", "symbolicNames", "channelNames", "modeNames"):
                try:
                    out[nm] = ast.literal_eval(node.value)
                except Exception:
                    pass
    if "atn" not in out or "ruleNames" not in out:
        raise AnalysisError(f"cannot read serialized ATN from {rel}")
    return out


class ParserGrammar:
    """Rule-level view of a parser ATN."""

    def __init__(self, repo: Repo, rel: str):
        self.rel = rel
        data = _read_generated(repo, rel)
        self.atn = ATNDeserializer().deserialize(data["atn"])
        self.rule_names: list[str] = list(data["ruleNames"])
        self.literal_names: list[str] = list(data.get("literalNames", []))
        self.symbolic_names: list[str] = list(data.get("symbolicNames", []))
        self.rule_index = {n: i for i, n in enumerate(self.rule_names)}
        self.max_token = self.atn.maxTokenType

    # ---- tokens
    def token_name(self, t: int) -> str:
        if t == EOF:
            return "EOF"
        if t < len(self.symbolic_names) and self.symbolic_names[t] not in ("<INVALID>", None):
            return self.symbolic_names[t]
        if t < len(self.literal_names) and self.literal_names[t] not in ("<INVALID>", None):
            return self.literal_names[t]
        return f"T{t}"

    def token_literal(self, t: int) -> Optional[str]:
        if 0 <= t < len(self.literal_names):
            lit = self.literal_names[t]
            if lit and lit != "<INVALID>":
                return ast.literal_eval(lit) if lit.startswith("'") else lit
        return None

    def token_type(self, name: str) -> int:
        if name == "EOF":
            return EOF
        for i, n in enumerate(self.symbolic_names):
            if n == name:
                return i
        for i, n in enumerate(self.literal_names):
            if n == name or n == f"'{name}'":
                return i
        raise AnalysisError(f"token {name} not in {self.rel}")

    # ---- transitions
    def _labels(self, tr) -> Optional[set[int]]:
        """Token set of a consuming transition, None for epsilon/rule."""
        st = tr.serializationType
        if st in (Transition.ATOM, Transition.RANGE, Transition.SET):
            return set(tr.label) if tr.label is not None else set()
        if st == Transition.NOT_SET:
            excl = set(tr.label) if tr.label is not None else set()
            return {t for t in range(1, self.max_token + 1) if t not in excl}
        if st == Transition.WILDCARD:
            return set(range(1, self.max_token + 1))
        return None

    def rule_elements(self, rule: str) -> "RuleNFA":
        return _rule_nfa(self, self.rule_index[rule])

    # ---- rule graph
    @lru_cache(maxsize=None)
    def calls(self, rule: str) -> frozenset[str]:
        nfa = self.rule_elements(rule)
        return frozenset(lbl[1] for _, lbl, _ in nfa.edges if lbl[0] == "rule")

    def reach_rules(self, rule: str) -> set[str]:
        seen: set[str] = set()
        stack = [rule]
        while stack:
            r = stack.pop()
            for c in self.calls(r):
                if c not in seen:
                    seen.add(c)
                    stack.append(c)
        return seen

    def callers(self, rule: str) -> set[str]:
        return {r for r in self.rule_names if rule in self.calls(r)}

    def is_recursive(self) -> set[str]:
        return {r for r in self.rule_names if r in self.reach_rules(r)}

    def tokens_of(self, rule: str) -> set[int]:
        """Tokens that appear directly as children of ``rule``."""
        out: set[int] = set()
        for _, lbl, _ in self.rule_elements(rule).edges:
            if lbl[0] == "tok":
                out |= set(lbl[1])
        return out

    @lru_cache(maxsize=None)
    def nullable(self, rule: str) -> bool:
        return self._nullable(rule, frozenset())

    def _nullable(self, rule: str, visiting: frozenset) -> bool:
        if rule in visiting:
            return False
        nfa = self.rule_elements(rule)
        # reachability start->stop using only eps edges and nullable rule edges
        seen = {nfa.start}
        stack = [nfa.start]
        while stack:
            s = stack.pop()
            if s == nfa.stop:
                return True
            for a, lbl, b in nfa.out(s):
                if b in seen:
                    continue
                if lbl[0] == "eps" or (lbl[0] == "rule" and self._nullable(lbl[1], visiting | {rule})):
                    seen.add(b)
                    stack.append(b)
        return False

    @lru_cache(maxsize=None)
    def first(self, rule: str) -> frozenset[int]:
        return frozenset(self._first(rule, frozenset()))

    def _first(self, rule: str, visiting: frozenset) -> set[int]:
        if rule in visiting:
            return set()
        nfa = self.rule_elements(rule)
        out: set[int] = set()
        seen = {nfa.start}
        stack = [nfa.start]
        while stack:
            s = stack.pop()
            for a, lbl, b in nfa.out(s):
                if lbl[0] == "tok":
                    out |= set(lbl[1])
                    continue
                if lbl[0] == "rule":
                    out |= self._first(lbl[1], visiting | {rule})
                    if not self.nullable(lbl[1]):
                        continue
                if b not in seen:
                    seen.add(b)
                    stack.append(b)
        return out

    def min_children(self, rule: str) -> int:
        """Minimum number of children of a ``rule`` context in an error-free tree."""
        nfa = self.rule_elements(rule)
        dist = {nfa.start: 0}
        frontier = [nfa.start]
        while frontier:
            nxt = []
            for s in frontier:
                for a, lbl, b in nfa.out(s):
                    d = dist[s] + (0 if lbl[0] == "eps" else 1)
                    if b not in dist or d < dist[b]:
                        dist[b] = d
                        nxt.append(b)
            frontier = nxt
        return dist.get(nfa.stop, 0)

    def child_at(self, rule: str, index: int) -> set[tuple]:
        """Possible labels ('tok', T) / ('rule', R) of child number ``index``."""
        nfa = self.rule_elements(rule)
        # positions: set of states after consuming k children
        cur = nfa.eps_closure({nfa.start})
        for _ in range(index):
            nxt = set()
            for s in cur:
                for a, lbl, b in nfa.out(s):
                    if lbl[0] != "eps":
                        nxt.add(b)
            cur = nfa.eps_closure(nxt)
        out: set[tuple] = set()
        for s in cur:
            for a, lbl, b in nfa.out(s):
                if lbl[0] == "tok":
                    for t in lbl[1]:
                        out.add(("tok", t))
                elif lbl[0] == "rule":
                    out.add(lbl)
        return out

    def derives(self, rule: str, toks: tuple[int, ...], depth: int = 0) -> bool:
        """Can ``rule`` derive exactly the token string ``toks`` (short strings only)?"""
        return len(toks) in self._derive_lens(rule, toks, 0, depth)

    def _derive_lens(self, rule: str, toks: tuple[int, ...], pos: int, depth: int) -> set[int]:
        """Set of end positions e such that rule derives toks[pos:e]."""
        if depth > 40:
            return set()
        nfa = self.rule_elements(rule)
        # configs: (state, position)
        seen = {(nfa.start, pos)}
        stack = [(nfa.start, pos)]
        ends: set[int] = set()
        while stack:
            s, p = stack.pop()
            if s == nfa.stop:
                ends.add(p)
            for a, lbl, b in nfa.out(s):
                if lbl[0] == "eps":
                    nxts = [(b, p)]
                elif lbl[0] == "tok":
                    nxts = [(b, p + 1)] if p < len(toks) and toks[p] in lbl[1] else []
                else:
                    nxts = [(b, e) for e in self._derive_lens(lbl[1], toks, p, depth + 1)]
                for c in nxts:
                    if c not in seen:
                        seen.add(c)
                        stack.append(c)
        return ends

    def alternatives(self, rule: str) -> list[set[tuple]]:
        """For a rule whose body is a plain alternation ``a | b | c``: the
        first-element label set of each alternative, in source order."""
        idx = self.rule_index[rule]
        start = self.atn.ruleToStartState[idx]
        s = start
        # skip leading epsilon chain to the first decision state
        guard = 0
        while len(s.transitions) == 1 and s.transitions[0].isEpsilon and guard < 10:
            s = s.transitions[0].target
            guard += 1
        alts = []
        for tr in s.transitions:
            t = tr
            st = tr.target if tr.isEpsilon and tr.serializationType != Transition.RULE else None
            labels: set[tuple] = set()
            # follow epsilons to the first consuming/rule transition of this alternative
            cur = tr
            hops = 0
            while cur.isEpsilon and cur.serializationType != Transition.RULE and hops < 10:
                nxt = cur.target.transitions
                if len(nxt) != 1:
                    break
                cur = nxt[0]
                hops += 1
            if cur.serializationType == Transition.RULE:
                labels.add(("rule", self.rule_names[cur.target.ruleIndex]))
            else:
                ls = self._labels(cur)
                if ls is not None:
                    for x in ls:
                        labels.add(("tok", x))
            alts.append(labels)
        return alts


@dataclass
class RuleNFA:
    start: int
    stop: int
    edges: list[tuple[int, tuple, int]] = field(default_factory=list)
    _out: dict[int, list[tuple[int, tuple, int]]] = field(default_factory=dict)

    def out(self, s: int) -> list[tuple[int, tuple, int]]:
        return self._out.get(s, [])

    def eps_closure(self, states: Iterable[int]) -> set[int]:
        seen = set(states)
        stack = list(seen)
        while stack:
            s = stack.pop()
            for a, lbl, b in self.out(s):
                if lbl[0] == "eps" and b not in seen:
                    seen.add(b)
                    stack.append(b)
        return seen


_NFA_CACHE: dict[tuple[int, int], RuleNFA] = {}


def _rule_nfa(g: ParserGrammar, idx: int) -> RuleNFA:
    key = (id(g), idx)
    if key in _NFA_CACHE:
        return _NFA_CACHE[key]
    start = g.atn.ruleToStartState[idx]
    stop = g.atn.ruleToStopState[idx]
    nfa = RuleNFA(start.stateNumber, stop.stateNumber)
    seen = {start.stateNumber}
    stack = [start]
    while stack:
        s = stack.pop()
        if s.stateNumber == stop.stateNumber:
            continue
        for tr in s.transitions:
            if tr.serializationType == Transition.RULE:
                lbl: tuple = ("rule", g.rule_names[tr.target.ruleIndex])
                tgt = tr.followState
            elif tr.isEpsilon:
                lbl = ("eps",)
                tgt = tr.target
            else:
                ls = g._labels(tr)
                lbl = ("tok", frozenset(ls or ()))
                tgt = tr.target
            nfa.edges.append((s.stateNumber, lbl, tgt.stateNumber))
            if tgt.stateNumber not in seen:
                seen.add(tgt.stateNumber)
                stack.append(tgt)
    for e in nfa.edges:
        nfa._out.setdefault(e[0], []).append(e)
    _NFA_CACHE[key] = nfa
    return nfa


# ------------------------------------------------------------------ lexer (X)
class LexerGrammar:
    """Character-level view of a lexer ATN (default mode only)."""

    def __init__(self, repo: Repo, rel: str):
        self.rel = rel
        data = _read_generated(repo, rel)
        self.atn = ATNDeserializer().deserialize(data["atn"])
        self.rule_names: list[str] = list(data["ruleNames"])
        self.symbolic_names: list[str] = list(data.get("symbolicNames", []))
        self.literal_names: list[str] = list(data.get("literalNames", []))
        # token rules in priority order = rules with a token type
        self.token_rules: list[tuple[int, str, int]] = []  # (rule index, name, token type)
        for i, name in enumerate(self.rule_names):
            tt = self.atn.ruleToTokenType[i]
            if tt and tt > 0:
                self.token_rules.append((i, name, tt))

    def _char_ok(self, tr, ch: int) -> Optional[bool]:
        st = tr.serializationType
        if st in (Transition.ATOM, Transition.RANGE, Transition.SET):
            return ch in tr.label
        if st == Transition.NOT_SET:
            return ch not in tr.label
        if st == Transition.WILDCARD:
            return True
        return None

    def _closure(self, configs: set[tuple]) -> set[tuple]:
        """configs: (state, stack tuple of follow states, token-rule index)."""
        seen = set(configs)
        stack = list(configs)
        while stack:
            s, stk, ri = stack.pop()
            st = self.atn.states[s]
            if st.stateType == 7:  # RULE_STOP
                if stk:
                    c = (stk[-1], stk[:-1], ri)
                    if c not in seen:
                        seen.add(c)
                        stack.append(c)
                continue
            for tr in st.transitions:
                if tr.serializationType == Transition.RULE:
                    c = (tr.target.stateNumber, stk + (tr.followState.stateNumber,), ri)
                elif tr.isEpsilon:
                    c = (tr.target.stateNumber, stk, ri)
                else:
                    continue
                if c not in seen:
                    seen.add(c)
                    stack.append(c)
        return seen

    def _start_configs(self) -> set[tuple]:
        cfgs = set()
        for i, _name, _tt in self.token_rules:
            cfgs.add((self.atn.ruleToStartState[i].stateNumber, (), i))
        return self._closure(cfgs)

    def _step(self, configs: set[tuple], ch: int) -> set[tuple]:
        nxt = set()
        for s, stk, ri in configs:
            st = self.atn.states[s]
            for tr in st.transitions:
                ok = self._char_ok(tr, ch)
                if ok:
                    nxt.add((tr.target.stateNumber, stk, ri))
        return self._closure(nxt)

    def _accepting(self, configs: set[tuple]) -> list[int]:
        """Token-rule indices accepting in this configuration set (priority order)."""
        acc = set()
        for s, stk, ri in configs:
            st = self.atn.states[s]
            if st.stateType == 7 and not stk and st.ruleIndex == ri:
                acc.add(ri)
        return sorted(acc)

    def first_token(self, text: str) -> Optional[tuple[str, int]]:
        """(token name, length) of the first token the lexer would emit on ``text``
        under longest-match / first-rule-wins; None if no rule matches."""
        configs = self._start_configs()
        best: Optional[tuple[str, int]] = None
        for i, ch in enumerate(text):
            configs = self._step(configs, ord(ch))
            if not configs:
                break
            acc = self._accepting(configs)
            if acc:
                best = (self.rule_names[acc[0]], i + 1)
        return best

    def tokenize(self, text: str) -> Optional[list[tuple[str, str]]]:
        out = []
        pos = 0
        while pos < len(text):
            ft = self.first_token(text[pos:])
            if ft is None:
                return None
            out.append((ft[0], text[pos : pos + ft[1]]))
            pos += ft[1]
        return out

    def rule_charset(self, rule: str) -> set[str]:
        """All characters a (fragment) rule can consume anywhere (ASCII)."""
        idx = self.rule_names.index(rule)
        start = self.atn.ruleToStartState[idx]
        stop = self.atn.ruleToStopState[idx]
        chars: set[str] = set()
        seen = {start.stateNumber}
        stack = [start]
        while stack:
            s = stack.pop()
            if s.stateNumber == stop.stateNumber:
                continue
            for tr in s.transitions:
                if tr.serializationType == Transition.RULE:
                    chars |= self.rule_charset(self.rule_names[tr.target.ruleIndex])
                    tgt = tr.followState
                elif tr.isEpsilon:
                    tgt = tr.target
                else:
                    for c in range(0, 128):
                        if self._char_ok(tr, c):
                            chars.add(chr(c))
                    tgt = tr.target
                if tgt.stateNumber not in seen:
                    seen.add(tgt.stateNumber)
                    stack.append(tgt)
        return chars

    def literal_of(self, rule: str) -> Optional[str]:
        """The single string a rule matches, if its language is one string."""
        idx = self.rule_names.index(rule)
        s = self.atn.ruleToStartState[idx]
        stop = self.atn.ruleToStopState[idx]
        out = []
        hops = 0
        while s.stateNumber != stop.stateNumber and hops < 200:
            hops += 1
            if len(s.transitions) != 1:
                return None
            tr = s.transitions[0]
            if tr.serializationType == Transition.RULE:
                sub = self.literal_of(self.rule_names[tr.target.ruleIndex])
                if sub is None:
                    return None
                out.append(sub)
                s = tr.followState
            elif tr.isEpsilon:
                s = tr.target
            else:
                if tr.serializationType != Transition.ATOM:
                    return None
                out.append(chr(tr.label[0]))
                s = tr.target
        return "".join(out)


FILE_PARSER = f"{SRC}/grammar/zorg_file/ZorgFileParser.py"
FILE_LEXER = f"{SRC}/grammar/zorg_file/ZorgFileLexer.py"
FILE_LISTENER = f"{SRC}/grammar/zorg_file/ZorgFileListener.py"
QUERY_PARSER = f"{SRC}/grammar/zorg_query/ZorgQueryParser.py"
QUERY_LEXER = f"{SRC}/grammar/zorg_query/ZorgQueryLexer.py"
QUERY_LISTENER = f"{SRC}/grammar/zorg_query/ZorgQueryListener.py"


def listener_methods(repo: Repo, rel: str) -> set[str]:
    tree = repo.tree(rel)
    out = set()
    for node in tree.body:
        if isinstance(node, ast.ClassDef):
            for sub in node.body:
                if isinstance(sub, ast.FunctionDef):
                    out.add(sub.name)
    return out
