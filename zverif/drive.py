"""Drive the .zo listener over a hand-built generic parse tree, in ParseTreeWalker order.

A tree node is ``T(rule, text, kids=[...], line=n)``; terminal children are ``Tok(name, text)``.  ``drive`` calls, for every
rule node, ``enter<Rule>`` (if the compiler class overrides it), then its children, then ``exit<Rule>`` -- exactly the
contract of antlr4's ParseTreeWalker -- on ONE abstract state, with a fresh interpreter (no atomic predicates: the date /
ZID recognisers are interpreted on the concrete marker words of the scenario).  Context objects answer the generated
accessors: ``ctx.getText()``, ``ctx.<rule>()`` (first child of that rule, or the list when several), ``ctx.<TOKEN>()``,
``ctx.children``, ``ctx.start.line``.  Every ``Note(...)`` construction is recorded with its keyword arguments.

This makes rules about *what the listener computes for an item* independent of which handler computes it (enterTodo_prefix
or exitBase_todo reading its children), of helper extraction and of the layout of the listener's state object.
"""

from __future__ import annotations

from dataclasses import dataclass, field
from typing import Any, Optional

from .absint import Interp, Raised, State
from .absval import HObj, Opaque, Ref
from .pymodel import PyModel

COMPILER = "zorg.service.compiler._file_compiler.ZorgFileCompiler"
NOTE = "zorg.domain.models._page.Note"


@dataclass
class Tok:
    name: str
    text: str


@dataclass
class T:
    rule: str
    text: str = ""
    kids: list = field(default_factory=list)
    line: int = 1

    def full_text(self) -> str:
        return self.text or "".join(k.full_text() if isinstance(k, T) else k.text for k in self.kids)


class Driver:
    def __init__(self, model: PyModel):
        self.model = model
        self.nodes: dict[str, Any] = {}
        self.notes: list[dict] = []
        self.I = Interp(model, probes={"method:*": self._method, "getattr:*": self._getattr, NOTE: self._note_probe}, max_states=4000)

    # ---------------------------------------------------------------- context objects
    def ctx(self, node: Any) -> Opaque:
        tag = f"n{len(self.nodes)}"
        self.nodes[tag] = node
        return Opaque("vctx", tag)

    def _kid_ctx(self, k: Any) -> Opaque:
        for tag, n in self.nodes.items():
            if n is k:
                return Opaque("vctx", tag)
        return self.ctx(k)

    def _method(self, I, recv, name, args, kwargs, st, node):
        if recv.cls == "vtok":
            return None
        if recv.cls == "vdate":
            if name == "date":
                return [(recv, st)]
            return None
        if recv.cls.startswith("ext:datetime") or recv.cls in ("ext:dt.datetime", "ext:dt.date"):
            # dates are markers carrying the text they were parsed from; an impossible calendar date raises like the library does
            if name == "strptime" and args and isinstance(args[0], str):
                digits = "".join(ch for ch in args[0] if ch.isdigit())
                ok = len(digits) == 8 and 1 <= int(digits[4:6]) <= 12 and 1 <= int(digits[6:8]) <= (31, 29 if int(digits[:4]) % 4 == 0 and (int(digits[:4]) % 100 != 0 or int(digits[:4]) % 400 == 0) else 28, 31, 30, 31, 30, 31, 31, 30, 31, 30, 31)[int(digits[4:6]) - 1]
                if not ok:
                    return [(Raised("ValueError", node, "strptime"), st)]
                return [(Opaque("vdate", digits), st)]
            if name in ("today", "now"):
                return [(Opaque("vdate", "TODAY"), st)]
        if recv.cls != "vctx":
            if recv.cls.startswith("ext:") and ("ogger" in recv.cls or "logrus" in recv.cls) and name in ("debug", "info", "warning", "warn", "error", "exception", "critical", "log", "bind"):
                return [(None, st)]
            return None
        n = self.nodes[recv.tag]
        if name == "getText":
            return [(n.full_text() if isinstance(n, T) else n.text, st)]
        if isinstance(n, Tok):
            return [(None, st)]
        if name == "getChildCount":
            return [(len(n.kids), st)]
        if name == "getChild" and args and isinstance(args[0], int):
            return [(self._kid_ctx(n.kids[args[0]]) if 0 <= args[0] < len(n.kids) else None, st)]
        want = name.rstrip("_") if name.endswith("_") and not name.isupper() else name
        hits = [k for k in n.kids if (isinstance(k, T) and k.rule == want) or (isinstance(k, Tok) and k.name == name)]
        if args and isinstance(args[0], int):
            return [(self._kid_ctx(hits[args[0]]) if args[0] < len(hits) else None, st)]
        many = name in getattr(n, "_list_accessors", ())
        if many or len(hits) > 1:
            return [(st.alloc(HObj("list", items=[self._kid_ctx(k) for k in hits])), st)]
        return [(self._kid_ctx(hits[0]) if hits else None, st)]

    def _getattr(self, I, v, name, st, node):
        if v.cls == "vctx":
            n = self.nodes[v.tag]
            if name == "children":
                kids = n.kids if isinstance(n, T) else []
                return [(st.alloc(HObj("list", items=[self._kid_ctx(k) for k in kids])) if kids else None, st)]
            if name in ("start", "stop"):
                return [(Opaque("vtok", str(getattr(n, "line", 1))), st)]
        if v.cls == "vtok" and name == "line":
            return [(int(v.tag), st)]
        return None

    def _note_probe(self, I, args, kwargs, st, node):
        def snap(v):
            if isinstance(v, Ref):
                h = st.obj(v)
                if h.kind == "obj":
                    return {"__cls__": h.cls.split(".")[-1], **{k: snap(x) for k, x in h.fields.items() if not k.startswith("_")}}
                if h.kind in ("list", "set"):
                    return [snap(x) for x in h.items]
                if h.kind == "dict":
                    return {k: snap(x) for k, x in h.fields.items()}
            return v

        kw = {k: snap(v) for k, v in kwargs.items()}
        if args:
            kw.setdefault("body", snap(args[0]))
        self.notes.append(kw)
        st.trace.append(("note", len(self.notes) - 1))
        return [(Opaque("note", str(len(self.notes) - 1)), st)]

    # ---------------------------------------------------------------- walking
    def new_listener(self, st: State, tree0: Any) -> Ref:
        from .listener import rebuild

        return rebuild(tree0, st)

    def walk(self, st: State, root: Ref, node: Any) -> Optional[Raised]:
        """Returns the first Raised, or None.  Forks are not followed: a fork makes the state imprecise."""
        if isinstance(node, Tok):
            return None
        cap = node.rule[0].upper() + node.rule[1:]
        for phase in ("enter", "exit"):
            if phase == "exit":
                for k in node.kids:
                    r = self.walk(st, root, k)
                    if r is not None:
                        return r
            q = f"{COMPILER}.{phase}{cap}"
            if q in self.model.funcs:
                fi = self.model.funcs[q]
                self.I.ctx_stack.append((fi.module, fi.cls))
                try:
                    self.I.steps = 0
                    res = self.I.call_func(q, [root, self._kid_ctx(node)], {}, st)
                finally:
                    self.I.ctx_stack.pop()
                if len(res) != 1:
                    st.note(f"{phase}{cap} forks into {len(res)} states on a concrete scenario")
                    if not res:
                        return Raised("NoResult", None)
                v, s2 = res[0]
                if s2 is not st:
                    # adopt the resulting state in place (single-state driving)
                    st.__dict__.update(s2.__dict__)
                if isinstance(v, Raised):
                    return v
        return None


def word_atoms(text: str, line: int = 1) -> list:
    """space_atoms for a body made of plain id words:  (SPACE atom)+  with atom -> word_group -> word -> unquoted_word -> id_group -> id.
    A word of the DATE / ZID / PRIORITY token shapes gets the corresponding child (id -> priv_id -> date | zid | PRIORITY), as the parser builds it."""
    import re

    atoms = []
    TAGS = {"+": ("project", "PLUS"), "#": ("area", "HASH"), "@": ("context", "AT_SIGN"), "%": ("person", "PERCENT")}

    def idn_of(w: str) -> T:
        return T("id", kids=[T("priv_id", kids=[Tok("NUM_ID" if w.isdigit() else "ID", w)], line=line)], line=line)

    for w in text.split(" "):
        special = None
        if len(w) > 1 and w[0] in TAGS and re.fullmatch(r"[A-Za-z0-9_]+", w[1:]):
            rule, tok = TAGS[w[0]]
            special = T("tag", kids=[T(rule, kids=[Tok(tok, w[0]), idn_of(w[1:])], line=line)], line=line)
        elif re.fullmatch(r"[A-Za-z_][A-Za-z0-9_]*::[A-Za-z0-9_]+", w):
            k, v = w.split("::")
            special = T("property", kids=[T("simple_prop", kids=[idn_of(k), Tok("COLON", ":"), Tok("COLON", ":"), T("simple_prop_value", kids=[idn_of(v)], line=line)], line=line)], line=line)
        elif re.fullmatch(r"\[\[[A-Za-z0-9_]+\]\]", w):
            special = T("link", kids=[Tok("T__0", "[["), T("id_group", kids=[idn_of(w[2:-2])], line=line), Tok("T__1", "]]")], line=line)
        elif re.fullmatch(r"https?://[A-Za-z0-9_./-]+", w):
            # url : url_schema url_domain ...  -- built from tokens only: a bare URL contributes NO `id` node
            special = T("url", kids=[T("url_schema", kids=[Tok("ID", w.split(":")[0]), Tok("COLON", ":"), Tok("FSLASH", "/"), Tok("FSLASH", "/")], line=line), T("url_domain", kids=[Tok("ID", w.split("//", 1)[1])], line=line)], line=line)
        if special is not None:
            atoms.append(T("space_atom", kids=[Tok("SPACE", " "), T("atom", kids=[T("word_group", kids=[T("word", kids=[T("unquoted_word", kids=[special])])])])], line=line))
            continue
        if re.fullmatch(r"[0-9]{4}-[0-9]{2}-[0-9]{2}", w):
            inner: list = [T("date", kids=[Tok("DATE", w)], line=line)]
        elif re.fullmatch(r"[0-9]{6}#[0-9A-Za-z]{2,3}", w):
            inner = [T("zid", kids=[Tok("ZID", w)], line=line)]
        elif re.fullmatch(r"P[0-9]", w):
            inner = [Tok("PRIORITY", w)]
        elif re.fullmatch(r"[0-9]+", w):
            inner = [Tok("NUM_ID", w)]
        elif w in ("o", "x"):
            inner = [Tok("LOWER_O" if w == "o" else "LOWER_X", w)]
        else:
            inner = [Tok("ID", w)]
        idn = T("id", kids=[T("priv_id", kids=inner, line=line)], line=line)
        atoms.append(T("space_atom", kids=[Tok("SPACE", " "), T("atom", kids=[T("word_group", kids=[T("word", kids=[T("unquoted_word", kids=[T("id_group", kids=[idn])])])])])], line=line))
    return atoms


def item_tree(prefix: str, body: str, priority: Optional[str] = None, line: int = 3) -> T:
    """`- body` (note) or `<prefix> [Pn] body` (todo) as the parse tree the grammar builds for a one-line item of plain words."""
    nb = T("note_body", kids=[T("space_atoms", kids=word_atoms(body, line), line=line)] if body else [], line=line)
    if not body:
        nb.text = " "
    if prefix == "-":
        return T("item", kids=[T("note", kids=[Tok("DASH", "-"), T("base_note", kids=[nb, Tok("NL", "\n")], line=line)], line=line)], line=line)
    names = {"o": "LOWER_O", "x": "LOWER_X", "~": "TILDE", "<": "LANGLE", ">": "RANGLE"}
    kids: list = [T("todo_prefix", kids=[Tok(names.get(prefix, "SYMBOL"), prefix)], line=line)]
    if priority:
        kids += [Tok("SPACE", " "), T("priority", kids=[Tok("PRIORITY", priority)], line=line)]
    kids += [nb, Tok("NL", "\n")]
    return T("item", kids=[T("todo", kids=[T("base_todo", kids=kids, line=line)], line=line)], line=line)


def header_tree(level: int, marker: str, text: str, line: int) -> T:
    """`<marker> text` as h<level>_header : H<level>_HEADER space_atoms eol."""
    return T(f"h{level}_header", kids=[Tok(f"H{level}_HEADER", marker), T("space_atoms", kids=word_atoms(text, line), line=line), T("eol", kids=[Tok("NL", "\n")], line=line)], line=line)


def head_tree(text: str, line: int = 1) -> T:
    """`# text` as head : comment+ with comment : HASH space_atoms NL."""
    return T("head", kids=[T("comment", kids=[Tok("HASH", "#"), T("space_atoms", kids=word_atoms(text, line), line=line), Tok("NL", "\n")], line=line)], line=line)
