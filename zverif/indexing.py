"""Rules shared by the indexing properties C05 / C06 / C11 / C13 (handlers, repo, write-back)."""

from __future__ import annotations

import ast
from typing import Optional

from .core import Run
from .decide import formula, single_bool_defs, truth_table
from .effects import Effects
from .paths import enum_paths, first_index, all_indices
from .pymodel import PyModel, walk_no_nested
from .util import base_name, clock_calls, find_calls, kwarg, names_loaded, split_join_mismatch

H = "zorg.service.handlers"
REPO = "zorg.storage.sql._repo"
FILE_H = "src/zorg/service/handlers.py"
FILE_R = "src/zorg/storage/sql/_repo.py"


# ------------------------------------------------------------------ affine helper
def affine(expr: ast.expr, lenvars: dict[str, str]) -> Optional[dict]:
    """expr as {symbol: coeff, 1: const}; `len(X...)` maps to symbol 'N'; attribute `.line_no` to 'L'."""
    if isinstance(expr, ast.Constant) and isinstance(expr.value, int):
        return {1: expr.value}
    if isinstance(expr, ast.Attribute) and expr.attr == "line_no":
        return {"L": 1}
    if isinstance(expr, ast.Call) and isinstance(expr.func, ast.Name) and expr.func.id == "len":
        return {"N": 1, "_len_arg": ast.unparse(expr.args[0])}
    if isinstance(expr, ast.Name) and expr.id in lenvars:
        return affine(ast.parse(lenvars[expr.id], mode="eval").body, {k: v for k, v in lenvars.items() if k != expr.id})
    if isinstance(expr, ast.BinOp) and isinstance(expr.op, (ast.Add, ast.Sub)):
        a, b = affine(expr.left, lenvars), affine(expr.right, lenvars)
        if a is None or b is None:
            return None
        out = {k: v for k, v in a.items()}
        sign = 1 if isinstance(expr.op, ast.Add) else -1
        for k, v in b.items():
            if k == "_len_arg":
                out[k] = v
            else:
                out[k] = out.get(k, 0) + sign * v
        return out
    return None


def writeback_conservation(run: Run, model: PyModel, rid: str) -> None:
    """Abstract runs of the two registered write-back handlers (NewZorgNotesEvent: ZIDs, ModifiedZorgNotesEvent: modify dates) over a virtual page
    (nothing is read from or written to a disk): the text written back is the page's text with exactly the FIRST line of each listed note replaced by
    what the same handler makes of that line when it is the only line of a page (metamorphic: no expectation about the rewritten line itself) --
    every other line, every other character (form feeds, U+2028, carriage returns, the final newline or its absence) unchanged.
    The rule is about what is written, not about how the line list is spliced or which helpers / parameters carry the line function."""
    from .absint import Raised
    from .absval import HObj
    from .indexscen import event_handlers, writeback_line
    from .virtual import World, vpath

    pages = {
        "adjacent multi-line notes": ["# header", "- first note", "  second line of it", "  third line of it", "o P2 a todo", "  its continuation", "", "- last"],
        "unusual characters above the notes": ["pasted\u2028text with a line separator", "form\x0cfeed and carriage\rreturn", "- note one", "  cont\u2028inued", "- note two", ""],
        "first and last line of the page": ["- top", "middle", "x bottom"],
    }
    # note -> (1-based line_no, number of lines)
    notes = {
        "adjacent multi-line notes": [(2, 3), (5, 2)],
        "unusual characters above the notes": [(3, 2), (5, 1)],
        "first and last line of the page": [(1, 1), (3, 1)],
    }
    n = 0
    for event, field in (("NewZorgNotesEvent", "new_notes"), ("ModifiedZorgNotesEvent", "modified_notes")):
        hs = event_handlers(model, event)
        if len(hs) != 1:
            run.undecided(rid, "EVENT_HANDLERS", f"{event} has {len(hs)} registered handlers")
            continue
        fi = model.func(hs[0])
        for label, lines in pages.items():
            text = "\n".join(lines)
            W = World(model, files={"p.zo": "h1"}, old_map={"p.zo": "h0"}, indexed={"p.zo"}, errors=set(), whitelist=[], contents={"/Z/p.zo": text})
            specs = []
            for k, (ln, cnt) in enumerate(notes[label]):
                body_lines = lines[ln - 1:ln - 1 + cnt]
                first = body_lines[0].split(" ", 2 if body_lines[0].startswith("o P2 ") else 1)[-1]
                specs.append(dict(body="\n".join([first] + body_lines[1:]), zid=f"240101#0{k}", line_no=ln))

            def build(st, specs=specs):
                objs = [st.alloc(HObj("obj", cls="zorg.domain.models._page.Note", fields=dict(todo_payload=None, modify_date=None, create_date=None, file_path=None, block=None, **sp))) for sp in specs]
                return {"zorg_page_path": vpath("/Z/p.zo"), field: st.alloc(HObj("list", items=objs))}

            try:
                res = W.run(hs[0], {}, build=build)
            except Exception as e:  # noqa: BLE001
                run.undecided(rid, fi.name, f"{label}: cannot interpret: {type(e).__name__}: {str(e)[:100]}")
                continue
            want = list(lines)
            bad = None
            for sp in specs:
                one, why = writeback_line(model, event, lines[sp["line_no"] - 1], dict(body=sp["body"].split("\n")[0], zid=sp["zid"]), field)
                if one is None:
                    bad = why
                    break
                want[sp["line_no"] - 1] = one
            if bad is not None and bad.startswith("VIOLATION: "):
                run.refuted(rid, "write-back", f"{fi.name}: lines below the first line change", f"write-back ({fi.name}): {bad[11:]}", file=FILE_H, node=fi.node)
                continue
            if bad is not None:
                run.undecided(rid, fi.name, f"{label}: {bad}")
                continue
            want_text = "\n".join(want)
            for v, trace, imprecise in res:
                n += 1
                if isinstance(v, Raised) and not imprecise and v.exc in ("IndexError", "KeyError", "TypeError", "AttributeError", "ValueError", "AssertionError"):
                    # a concrete page, nothing abstract in the run: the handler really dies here (the message bus swallows it and the file never receives the ZID / date)
                    run.refuted(rid, "write-back", f"{fi.name}, {label}: raises {v.exc}", f"write-back ({fi.name}) of a page ({label}) dies with an internal {v.exc}: the lines it addresses are not the note's lines "
                                "(line_no counts '\\n'-separated lines only), the event handler's exception is swallowed by the message bus and the file never receives what the index already holds",
                                file=FILE_H, node=fi.node)
                    continue
                if isinstance(v, Raised) or imprecise:
                    run.undecided(rid, fi.name, f"{label}: " + (f"raises {v.exc}" if isinstance(v, Raised) else "; ".join(imprecise[:2])))
                    continue
                writes = [t[2] for t in trace if t[0] == "write_text" and t[1] == "/Z/p.zo"]
                got = writes[-1] if writes else None
                detail = "nothing is written" if got is None else "wrote " + repr(got)[:160]
                if isinstance(got, str) and got != want_text:
                    gl, wl = got.split("\n"), want
                    k = next((i for i in range(min(len(gl), len(wl))) if gl[i] != wl[i]), min(len(gl), len(wl)))
                    detail = f"line {k + 1} becomes {gl[k]!r} instead of {wl[k]!r}" if k < min(len(gl), len(wl)) else f"{len(gl)} lines written, {len(wl)} expected"
                run.check(rid, f"{fi.name}, {label}: only the first line of each listed note changes, everything else is written back unchanged", got == want_text, "write-back", f"{fi.name}, {label}: {detail}",
                          f"write-back ({fi.name}) of a page ({label}): {detail}: lines of the note or of its neighbours are dropped, duplicated or rewritten (line_no counts '\\n'-separated lines only; "
                          "splitlines() also splits on U+2028, \\x0c, \\r ...), so ZIDs / dates land in other notes' text", file=FILE_H, node=fi.node)
    run.floor("write-back scenarios", n, 6)


def page_then_hashmap(run: Run, model: PyModel, eff: Effects, rid: str) -> None:
    fi = model.func(f"{H}._update_zo_file")
    n = 0
    for p in enum_paths(fi.node):
        if p.outcome == "raise":
            continue
        page_w, hash_w, other = [], [], []
        for i, e in enumerate(p.events):
            if e[0] != "stmt":
                continue
            for node, tag, via in eff.node_tags(fi, e[1]):
                if tag.startswith("FILE_WRITE:PARAM:"):
                    tag = "FILE_WRITE:PAGE"  # the function's own page parameter
                if tag == "FILE_WRITE:PAGE":
                    page_w.append(i)
                elif tag == "FILE_WRITE:HASHMAP":
                    hash_w.append(i)
                elif tag.startswith(("FILE_WRITE", "FILE_RENAME", "FILE_DELETE")):
                    other.append((i, tag, node))
        n += 1
        run.check(rid, "the page write is followed by a hash-map refresh before returning", bool(page_w) and bool(hash_w) and max(hash_w) > max(page_w), "_update_zo_file",
                  "page write without later hash refresh", "a path of _update_zo_file writes the page and returns without refreshing file_hash.json afterwards: the next reindex "
                  "sees zorg's own write-back as a user edit", file=FILE_H, node=fi.node)
        for i, tag, node in other:
            glob_visible = "DERIVED" in tag and (".zo" in tag or "name" in tag or "suffix" in tag)
            run.refuted(rid, "_update_zo_file", node, f"the write-back has an additional external effect `{tag}` ({ast.unparse(node)[:70]})"
                        + (": a sibling file derived from the page's name; `rglob('*.zo')` also matches dot-files, so a crash between this effect and the next leaves a file "
                           "that the next run indexes as a page of its own" if glob_visible else ": a new crash point whose recovery nothing handles"), file=FILE_H, node=node)
    run.floor("paths of _update_zo_file", n, 1)


def event_wiring(run: Run, model: PyModel, eff: Effects, rid: str, want_event: Optional[str] = None) -> None:
    tables = model.table_members()
    ev_tab = model.module_of("zorg.service.messagebus").assigns.get("EVENT_HANDLERS")
    cmd_tab = model.module_of("zorg.service.messagebus").assigns.get("COMMAND_HANDLERS")
    keys = set()
    for tab in (ev_tab, cmd_tab):
        if isinstance(tab, ast.Dict):
            for k in tab.keys:
                keys.add(ast.unparse(k).split(".")[-1])
    constructed = set()
    for q, fi in model.funcs.items():
        for c, t in model.calls_in(fi):
            if t and (t.startswith("zorg.domain.messages.events.") or t.startswith("zorg.domain.messages.commands.")):
                constructed.add(t.split(".")[-1])
    run.floor("message classes constructed", len(constructed), 5)
    for name in sorted(constructed):
        run.check(rid, f"{name} has a registered handler", name in keys, "messagebus", f"{name} not in handler tables", f"{name} is constructed but no handler is registered for it: it raises KeyError in the bus / is dropped", file="src/zorg/service/messagebus.py")
    if want_event:
        hs = []
        if isinstance(ev_tab, ast.Dict):
            for k, v in zip(ev_tab.keys, ev_tab.values):
                if ast.unparse(k).endswith(want_event):
                    hs = [model.resolve_expr(model.module_of("zorg.service.messagebus"), e) for e in (v.elts if isinstance(v, (ast.List, ast.Tuple)) else [v])]
        reach_page = any(h and "FILE_WRITE:PAGE" in eff.may(h) for h in hs)
        run.check(rid, f"the handler of {want_event} reaches the page write-back", reach_page, "messagebus", f"{want_event} -> {hs}", f"no handler of {want_event} writes the page", file="src/zorg/service/messagebus.py")


def zids_before_index(run: Run, model: PyModel, rid: str) -> None:
    fi = model.func(f"{REPO}.SQLRepo.add_file")
    n = 0
    for p in enum_paths(fi.node):
        conv = first_index(p, lambda x: isinstance(x, ast.Call) and isinstance(x.func, ast.Attribute) and x.func.attr == "from_entity")
        add = first_index(p, lambda x: isinstance(x, ast.Call) and isinstance(x.func, ast.Name) and x.func.id == "_add_zids")
        seen = first_index(p, lambda x: isinstance(x, ast.Call) and isinstance(x.func, ast.Attribute) and x.func.attr == "_record_seen_page")
        if conv >= 0:
            n += 1
            run.check(rid, "ZIDs are assigned before the page is converted for the index", 0 <= add < conv, "SQLRepo.add_file", "from_entity before _add_zids",
                      "add_file converts the page for the database before assigning ZIDs: notes are indexed without a ZID", file=FILE_R, node=fi.node)
            run.check(rid, "the page is recorded so its events are drained", seen >= 0, "SQLRepo.add_file", "no _record_seen_page", "add_file does not record the page: its NewZorgNotesEvent is never collected and the file never gains the ZIDs", file=FILE_R, node=fi.node)
    run.floor("paths of add_file", n, 1)
    zid_assignment_eval(run, model, rid)
    from .indexscen import event_handlers

    roots = event_handlers(model, "NewZorgNotesEvent") + event_handlers(model, "ModifiedZorgNotesEvent") + [f"{REPO}._add_zids", f"{H}._check_for_modified_notes"]
    slice_ = sorted(q for q in model.reachable(roots) if not q.startswith("zorg.shared.dates."))
    run.floor("functions of the ZID / modify-date write-back", len(slice_), 8)
    for f in (model.funcs[q] for q in slice_):
        for call, why in split_join_mismatch(f.node):
            run.refuted(rid, f.name, call, f"{f.name}: {why}: the text is re-flowed (multi-line bodies collapse, spacing changes), so index and file stop agreeing", file=f.file, node=call)


def zid_assignment_eval(run: Run, model: PyModel, rid: str) -> None:
    """Abstract evaluation of _add_zids on a generic page and of _add_zid_to_line on the matching file lines:
    every note without ZID gets the allocator's next ZID and is queued for write-back, notes that have one are untouched,
    and the indexed body equals the file line behind the item prefix -- for a plain first word, a YYYY-MM-DD first word,
    and a first word that only looks like a date (the date recogniser is an uninterpreted predicate answering the same on both sides)."""
    from .absint import Interp, Raised, State
    from .absval import HObj, Opaque, Ref, Term
    from .indexscen import writeback_line

    LONG = {"2024-03-13": True, "2024x03y13": False, "2024-13-39": False}
    asked: list = []

    def long_date(I, args, kwargs, st, node):
        w = args[0] if args else None
        asked.append(w)
        return [(bool(LONG.get(w, False)) if isinstance(w, str) else False, st)]

    def get_next(I, args, kwargs, st, node):
        k = st.meta.get("zid_counter", 0) + 1
        st.meta["zid_counter"] = k
        return [(f"<Z{k}>", st)]

    def construct_any(I, args, kwargs, st, node):
        return [(Opaque("zidmanager"), st)]

    def meth(I, recv, name, args, kwargs, st, node):
        if recv.cls == "zidmanager" and name == "get_next":
            return get_next(I, args, kwargs, st, node)
        if recv.cls.startswith("ext:"):
            # loggers return nothing; anything else (datetime.strptime on the scenario's valid dates, ...) yields some object
            is_log = ("ogger" in recv.cls or "logrus" in recv.cls) and name in ("debug", "info", "warning", "warn", "error", "exception", "critical", "log", "bind")
            return [(None if is_log else Opaque(recv.cls + "." + name + "!"), st)]
        return None

    ZM = "zorg.storage.sql._zid_manager.ZIDManager"
    I = Interp(model, probes={"zorg.shared.dates.is_long_date_spec": long_date, f"{ZM}.get_next": get_next, ZM: construct_any, "method:*": meth}, max_states=4000)
    fz = model.func(f"{REPO}._add_zids")
    bodies = ["plain  first word\n  second line", "2024-03-13 dated  note", "2024x03y13 look-alike", "  2024-13-39 impossible date", "10d relative look-alike", "240102 short date first", "P2P priority look-alike", "P10 another one", "P1 priority-shaped first word of a plain note",
              "2024-03-13\n  a first line that is only a date", "2024-03-13  two blanks after the date", "trailing blank \n  second line"]
    st = State()

    def N(body, zid):
        return st.alloc(HObj("obj", cls="zorg.domain.models._page.Note", fields=dict(
            body=body, zid=zid, modify_date=Term("marker:D", ()), create_date=Term("marker:D", ()), todo_payload=None, line_no=3, file_path=None, block=None,
            projects=st.alloc(HObj("list")), areas=st.alloc(HObj("list")), contexts=st.alloc(HObj("list")), people=st.alloc(HObj("list")),
            links=st.alloc(HObj("list")), properties=st.alloc(HObj("dict")))))

    has = N("240101#00 already has one", "240101#00")
    news = [N(b, None) for b in bodies]
    page = st.alloc(HObj("obj", cls="zorg.domain.models._page.Page", fields=dict(notes=st.alloc(HObj("list", items=[news[0], has] + news[1:])), events=st.alloc(HObj("list")), path=Opaque("path:PAGE"))))
    try:
        res = I.run_function(f"{REPO}._add_zids", [Opaque("path:ZDIR"), page], st=st)
    except Exception as e:
        run.undecided(rid, "_add_zids", f"cannot evaluate abstractly: {type(e).__name__}: {e}")
        return
    n = 0
    for v, s in res:
        n += 1
        if isinstance(v, Raised) or s.imprecise:
            run.undecided(rid, "_add_zids", (f"raises {v.exc}" if isinstance(v, Raised) else "; ".join(s.imprecise[:2])))
            continue
        hf = s.obj(has).fields
        run.check(rid, "a note that has a ZID is left alone", hf["zid"] == "240101#00" and hf["body"] == "240101#00 already has one", "_add_zids", "note with ZID changed",
                  "a note that already has a ZID gets another one / its body rewritten", file=FILE_R, node=fz.node)
        zids = [s.obj(x).fields["zid"] for x in news]
        run.check(rid, "every note without ZID gets a fresh one from the allocator", all(isinstance(z, str) and z.startswith("<Z") for z in zids) and len(set(zids)) == len(zids), "_add_zids", f"zids {zids}",
                  f"after _add_zids the ZID-less notes have ZIDs {zids}: not every note got its own ZID from the allocator", file=FILE_R, node=fz.node)
        evs = s.obj(s.obj(page).fields["events"]).items
        queued = []
        if len(evs) == 1 and isinstance(evs[0], Ref):
            for x in s.obj(evs[0]).fields.values():
                if isinstance(x, Ref) and s.obj(x).kind == "list":
                    queued = list(s.obj(x).items)
        run.check(rid, "exactly the notes that received a ZID are queued for the file write-back (one event)", len(evs) == 1 and queued == news, "_add_zids", f"{len(evs)} events, {len(queued)} notes queued",
                  "the NewZorgNotesEvent does not list exactly the notes that received a ZID: the file never gains some ZIDs and every later run assigns new ones", file=FILE_R, node=fz.node)
        # sibling agreement index body <-> file line
        for x, body in zip(news, bodies):
            f = s.obj(x).fields
            zid = f["zid"]
            first_line = body.split("\n")[0]
            text = first_line.lstrip() if body.startswith(" ") else first_line
            w0 = text.split(" ")[0]
            real_priority = len(w0) == 2 and w0[0] == "P" and w0[1].isdigit()
            # the same text as a plain note, as a todo, and as a todo with a priority (a todo's own priority word is not part of its body, so a body that starts with one is only tried behind a priority)
            # ... and with redundant blanks between kind, priority and text (the compiler's body does not contain them, so the file line must not keep them either)
            prefixes = ["- ", "o P1 ", "  x P0 ", "-   ", "o P1   "] + ([] if real_priority else ["o ", "~ ", "<  "])
            for prefix in prefixes:
                lv, why = writeback_line(model, "NewZorgNotesEvent", prefix + text, dict(body=f["body"], zid=zid), "new_notes", probes={"zorg.shared.dates.is_long_date_spec": long_date})
                if lv is None and why.startswith("VIOLATION: "):
                    run.refuted(rid, "write-back", "ZID write-back: lines below the first line change", f"ZID write-back: {why[11:]}", file=FILE_R, node=fz.node)
                    continue
                if lv is None:
                    run.undecided(rid, "ZID write-back", why)
                    continue
                for _ in (0,):
                    idx_first = f["body"].split("\n")[0] if isinstance(f["body"], str) else None
                    canon = " ".join(prefix.split()) + " "
                    canon = prefix[:len(prefix) - len(prefix.lstrip())] + canon  # indentation is kept, blanks inside the prefix are single
                    ok = idx_first is not None and lv == canon + idx_first
                    run.check(rid, f"index body and file line agree after the ZID is added (`{prefix}`, first word {first_line.split()[0]!r})", ok, "_add_zids/_add_zid_to_line",
                              f"{prefix + text!r}: index {idx_first!r} file {lv!r}",
                              f"for an item `{prefix}{text}` the indexed body starts {idx_first!r} but the file line becomes {lv!r}: index and file disagree (and the page is not re-read, its hash having been refreshed)",
                              file=FILE_R, node=fz.node)
            want_rest = first_line.lstrip()
            if LONG.get(want_rest.split(" ")[0]):
                want_rest = want_rest.split(" ", 1)[1] if " " in want_rest else ""
            exp = f"{zid} {want_rest}" + body[len(first_line):]
            run.check(rid, f"the indexed body is the ZID, one blank and the note's own text (first word {first_line.split()[0]!r})", f["body"] == exp, "_add_zids", f"{body!r} -> {f['body']!r}",
                      f"the body {body!r} is indexed as {f['body']!r}, expected {exp!r} (only a real YYYY-MM-DD first word is dropped; blanks and line breaks are kept)", file=FILE_R, node=fz.node)
    run.floor("_add_zids evaluations", n, 1)
    # no ZID-less note -> no event
    st2 = State()
    st = st2
    only = N("240101#05 x", "240101#05")
    page2 = st2.alloc(HObj("obj", cls="zorg.domain.models._page.Page", fields=dict(notes=st2.alloc(HObj("list", items=[only])), events=st2.alloc(HObj("list")), path=Opaque("path:PAGE"))))
    for v, s in I.run_function(f"{REPO}._add_zids", [Opaque("path:ZDIR"), page2], st=st2):
        evs = s.obj(s.obj(page2).fields["events"]).items
        run.check(rid, "no write-back event when no note needed a ZID", not evs and not s.imprecise, "_add_zids", f"{len(evs)} events", "a page whose notes all have ZIDs still queues a write-back (the file is rewritten on every run)", file=FILE_R, node=fz.node)


def change_detection(run: Run, model: PyModel, rid: str) -> None:
    fi = model.func(f"{H}.reindex_database")
    fn = fi.node
    loops = [l for l in walk_no_nested(fn) if isinstance(l, ast.For) and any("remove_file_by_name" in ast.unparse(x) for x in ast.walk(l))]
    if len(loops) != 1:
        run.undecided(rid, "reindex_database", "cannot find the per-page loop")
        return
    loop = loops[0]
    ifs = [s for s in loop.body if isinstance(s, ast.If) and any("remove_file_by_name" in ast.unparse(x) for x in ast.walk(s))]
    if len(ifs) != 1:
        run.undecided(rid, "reindex_database", "cannot find the change test")
        return
    test = ifs[0].test
    tvars = [n.id for n in ast.walk(loop.target) if isinstance(n, ast.Name)]

    def matcher(e: ast.expr):
        if isinstance(e, ast.Compare) and len(e.ops) == 1:
            l, op, r = e.left, e.ops[0], e.comparators[0]
            if isinstance(op, ast.In) and isinstance(l, ast.Name) and l.id in tvars and "old" in ast.unparse(r):
                return ("present", True)
            if isinstance(op, (ast.NotEq, ast.Eq)) and isinstance(l, ast.Subscript) and "old" in ast.unparse(l.value):
                return ("same", isinstance(op, ast.Eq))
            if isinstance(op, (ast.NotEq, ast.Eq)) and isinstance(r, ast.Subscript) and "old" in ast.unparse(r.value):
                return ("same", isinstance(op, ast.Eq))
            if isinstance(op, (ast.NotEq, ast.Eq)) and isinstance(l, ast.Call) and isinstance(l.func, ast.Attribute) and l.func.attr == "get" and "old" in ast.unparse(l.func.value):
                return ("known_same", isinstance(op, ast.Eq))
        return None

    f = formula(test, matcher, single_bool_defs(fn))
    try:
        from .decide import atoms, evaluate

        names = sorted(atoms(f))
        bad = []
        for present in (False, True):
            for same in (False, True):
                if not present and same:
                    continue
                val = {"present": present, "same": same, "known_same": present and same}
                if not set(names) <= set(val):
                    raise KeyError(names)
                got = evaluate(f, val)
                want = (not present) or (not same)
                if got != want:
                    bad.append((present, same, got))
        run.check(rid, "a page is processed iff it is new or its hash differs", not bad, "reindex_database", test,
                  f"`{ast.unparse(test)}` processes a page wrongly for (already indexed, same hash) = {[(p, s) for p, s, _ in bad]}: "
                  + ("changed pages are skipped" if any(not g for _, _, g in bad) else "unchanged pages are re-indexed / new pages skipped"), file=FILE_H, node=test)
    except KeyError as e:
        run.undecided(rid, "reindex_database", f"unrecognised atoms in the change test: {e}")
    # KeyError safety: a subscript of the old map must be guarded by the membership test to its left
    if any(isinstance(n, ast.Subscript) and "old" in ast.unparse(n.value) for n in ast.walk(test)):
        first = test.values[0] if isinstance(test, ast.BoolOp) and isinstance(test.op, ast.Or) else None
        if isinstance(first, ast.UnaryOp) and isinstance(first.op, ast.Not):
            first = first.operand
        if isinstance(first, ast.Compare) and isinstance(first.ops[0], ast.NotIn):
            first = ast.Compare(left=first.left, ops=[ast.In()], comparators=first.comparators)
        m = matcher(first) if first is not None else None
        ok = m is not None and m[0] == "present"
        run.check(rid, "the old hash is only looked up for pages known to the old map", ok, "reindex_database", test, "the old hash is subscripted without first testing membership: KeyError on new pages", file=FILE_H, node=test)


def remove_add_commit(run: Run, model: PyModel, eff: Effects, rid: str) -> None:
    fi = model.func(f"{H}.reindex_database")
    n = 0
    for p in enum_paths(fi.node, unroll=1):
        rm = first_index(p, lambda x: isinstance(x, ast.Call) and isinstance(x.func, ast.Attribute) and x.func.attr == "remove_file_by_name")
        ad = first_index(p, lambda x: isinstance(x, ast.Call) and isinstance(x.func, ast.Attribute) and x.func.attr == "add_file")
        if ad < 0:
            continue
        n += 1
        commits = [i for i in all_indices(p, lambda x: isinstance(x, ast.Call) and isinstance(x.func, ast.Attribute) and x.func.attr == "commit") if i > ad]
        run.check(rid, "the old rows of a page are removed before the page is added again", 0 <= rm < ad, "reindex_database", "add_file before remove_file_by_name",
                  "a changed page is added to the index before its previous rows are removed: its notes are duplicated", file=FILE_H, node=fi.node)
        run.check(rid, "every added page is committed", bool(commits) and p.outcome != "raise" or p.outcome == "raise", "reindex_database", "add_file without commit",
                  "a page is added but the handler can return without committing it", file=FILE_H, node=fi.node)
    run.floor("paths of reindex_database that add a page", n, 2)
    fr = model.func(f"{REPO}.SQLRepo.remove_file_by_name")
    loops = [l for l in walk_no_nested(fr.node) if isinstance(l, ast.For) and ast.unparse(l.iter).endswith(".notes")]
    ok = False
    if len(loops) == 1:
        ok = any(isinstance(s, ast.Expr) and ast.unparse(s.value).endswith(f"delete({ast.unparse(loops[0].target)})") for s in loops[0].body)
    run.check(rid, "every note row of a removed page is deleted", ok, "SQLRepo.remove_file_by_name", "note deletion loop", "remove_file_by_name does not unconditionally delete every note of the page", file=FILE_R, node=fr.node)
    txt = ast.unparse(fr.node)
    run.check(rid, "sections, blocks and the page row are deleted too", "_delete_sections_and_blocks" in txt and "delete(sql_page)" in txt.replace("self._session.", ""), "SQLRepo.remove_file_by_name", "page row deletion",
              "remove_file_by_name leaves the page's sections/blocks/page row behind", file=FILE_R, node=fr.node)


def stale_pages(run: Run, model: PyModel, rid: str) -> None:
    fi = model.func(f"{H}.reindex_database")
    fn = fi.node
    # does anything derived from the OLD map (keys not in the current set) reach remove_file_by_name?
    old_names = {n.targets[0].id for n in walk_no_nested(fn) if isinstance(n, ast.Assign) and isinstance(n.targets[0], ast.Name) and "old" in n.targets[0].id} | \
                {n.target.id for n in walk_no_nested(fn) if isinstance(n, ast.AnnAssign) and isinstance(n.target, ast.Name) and "old" in n.target.id}
    removes = [c for c in ast.walk(fn) if isinstance(c, ast.Call) and isinstance(c.func, ast.Attribute) and c.func.attr == "remove_file_by_name"]
    fed_by_old = False
    for c in removes:
        arg = c.args[0] if c.args else None
        if isinstance(arg, ast.Name):
            for l in walk_no_nested(fn):
                if isinstance(l, ast.For) and arg.id in {n.id for n in ast.walk(l.target) if isinstance(n, ast.Name)} and names_loaded(l.iter) & old_names and c in list(ast.walk(l)):
                    if not any(isinstance(x, ast.Name) and x.id == "file_to_hash" for x in ast.walk(l.iter)) or "-" in ast.unparse(l.iter) or "not in" in ast.unparse(l):
                        fed_by_old = True
    run.check(rid, "pages that disappeared from disk are removed from the index", fed_by_old, "reindex_database", "no removal of pages missing from the current file set",
              "reindex_database only iterates the files that exist now: the notes of a deleted or renamed page stay in the index forever", file=FILE_H, node=fn)


def hash_ack(run: Run, model: PyModel, eff: Effects, rid: str) -> None:
    """Every HASHMAP write of the reindex cascade acknowledges only pages this command processed."""
    fi = model.func(f"{H}.reindex_database")
    fn = fi.node
    loops = [l for l in walk_no_nested(fn) if isinstance(l, ast.For) and any("remove_file_by_name" in ast.unparse(x) for x in ast.walk(l))]
    processed = None
    if len(loops) == 1:
        processed = base_name(loops[0].iter)
    writes = [c for c in ast.walk(fn) if isinstance(c, ast.Call) and model.callee(fi, c) == f"{H}._write_file_hash_to_disk"]
    run.floor("hash-map writes in reindex_database", len(writes), 1)
    for c in writes:
        arg = c.args[1] if len(c.args) > 1 else None
        ok = isinstance(arg, ast.Name) and arg.id == processed
        run.check(rid, "reindex_database records hashes only for the pages it examined", ok, "reindex_database", c,
                  f"the hash map written by reindex_database is `{ast.unparse(arg) if arg is not None else '?'}`, not the map `{processed}` whose pages were compared and processed: "
                  "pages that were never re-read are recorded as up to date and their pending edits are missed forever", file=FILE_H, node=c)
    if len(loops) == 1:
        inside = [c for c in writes if any(c is x for x in ast.walk(loops[0]))]
        for c in inside:
            arg = c.args[1] if len(c.args) > 1 else None
            if isinstance(arg, ast.Name) and arg.id == processed:
                run.refuted(rid, "reindex_database", c, f"the whole map `{processed}` (new hashes of EVERY examined file) is written to file_hash.json inside the per-page loop: if a later page "
                            "makes the run stop (a refused broken page, a crash), pages that were not processed yet are already recorded as up to date and are skipped forever "
                            "(a refused broken page is silently accepted on the next run)", file=FILE_H, node=c)
    # the hashes themselves: always computed from the file's current content
    fm = model.func(f"{H}._get_file_hash_map")
    stores = [n for n in walk_no_nested(fm.node) if isinstance(n, ast.Assign) and isinstance(n.targets[0], ast.Subscript)]
    bad = [s2 for s2 in stores if not (isinstance(s2.value, ast.Call) and model.callee(fm, s2.value) == f"{H}._hash_file")]
    run.check(rid, "every recorded hash is computed from the file's current content", bool(stores) and not bad, "_get_file_hash_map", bad[0] if bad else "hash source",
              f"`{ast.unparse(bad[0])[:80] if bad else ''}`: a hash is taken from somewhere other than _hash_file(path) (e.g. reused from the old map on an mtime test): "
              "a content change that keeps an old mtime (cp -p, rsync -t, restore from backup) is never noticed", file=FILE_H, node=bad[0] if bad else fm.node)
    fu = model.func(f"{H}._update_zo_file")
    for c in ast.walk(fu.node):
        if isinstance(c, ast.Call) and model.callee(fu, c) == f"{H}._write_file_hash_to_disk":
            arg = c.args[1] if len(c.args) > 1 else None
            full = isinstance(arg, ast.Call) and model.callee(fu, arg) == f"{H}._get_file_hash_map" and kwarg(arg, "paths") is None and len(arg.args) == 1
            run.check(rid, "the write-back refreshes the hash of the written page only", not full, "_update_zo_file", c,
                      "the write-back recomputes and stores the hashes of ALL pages (`_get_file_hash_map(zdir)`): after `db reindex a.zo` the write-back of a.zo also acknowledges "
                      "an edited-but-unprocessed b.zo, whose edit the next plain reindex then misses", file=FILE_H, node=c)


def stamp_table(run: Run, model: PyModel, rid: str) -> None:
    """Abstract evaluation of _check_for_modified_notes on a generic page (two notes; the second is the control and is never
    edited) for the 8 valuations of (had this ZID before, differs from the indexed note, already dated today) x (stamped
    before / never stamped).  Dates are uninterpreted terms (`today` is whatever date.today() returns; other days are
    pairwise different markers); bodies are generic strings whose blanks are irregular so that split()/join(" ") slips show."""
    from .absbuiltins import strftime_shape
    from .absint import Interp, Raised, State
    from .absval import CharSet, HObj, Opaque, Ref, SeqStr, Term

    def fz(I, v, st):
        return I.B.freeze_term(I, v, st)

    def call_any(I, fv, args, kwargs, st, node):
        if fv.cls.startswith("ext:"):
            return [(Term(fv.cls[4:], tuple(fz(I, a, st) for a in args)), st)]
        return None

    def meth(I, recv, name, args, kwargs, st, node):
        if recv.cls.startswith("ext:"):
            return [(Term(recv.cls[4:] + "." + name, tuple(fz(I, a, st) for a in args)), st)]
        return None

    def tm(I, recv, name, args, kwargs, st, node):
        if name == "strftime" and args and isinstance(args[0], str):
            return [(strftime_shape(args[0]), st)]
        return None

    TODAY = Term("datetime.date.today", ())
    OLD, CREATED, FUTURE = Term("marker:OTHER_DAY", ()), Term("marker:CREATE_DAY", ()), Term("marker:LATER_DAY", ())
    RANK = {CREATED: 0, OLD: 1, TODAY: 2, FUTURE: 3}  # the scenario's calendar: created < stamped earlier < today < a day still to come

    def cmp_days(I, op, l, r, st):
        import operator as _op

        fn = {ast.Lt: _op.lt, ast.LtE: _op.le, ast.Gt: _op.gt, ast.GtE: _op.ge}.get(type(op))
        if fn is not None and l in RANK and r in RANK:
            return fn(RANK[l], RANK[r])
        return None

    I = Interp(model, probes={"method:*": meth, "call:*": call_any, "method:term": tm, "compare": cmp_days}, max_states=4000)
    Q = f"{H}._check_for_modified_notes"
    fq = model.func(Q)
    D6 = tuple(CharSet(frozenset("0123456789")) for _ in range(6))
    n = 0
    # "index only": the index holds a stamped copy, the file never received the stamp (the run that stamped it died before the write-back) -- the next run
    # compiles the unstamped line again
    for stamped_before in (False, True, "index only"):
        for has_old in (False, True):
            for changed in (False, True):
                for dated in (False, True, "later"):
                    st = State()

                    def N(body, md, zid, omd=None):
                        return st.alloc(HObj("obj", cls="zorg.domain.models._page.Note", fields=dict(
                            body=body, zid=zid, modify_date=md, create_date=CREATED, todo_payload=None, line_no=3, file_path=None, block=None,
                            projects=st.alloc(HObj("list")), areas=st.alloc(HObj("list")), contexts=st.alloc(HObj("list")), people=st.alloc(HObj("list")),
                            links=st.alloc(HObj("list")), properties=st.alloc(HObj("dict")))))

                    rest = "240101#00 text  with   blanks\n  second line"
                    pre = "240105 " if stamped_before else ""
                    pre_file = "240105 " if stamped_before is True else ""
                    new_body = pre_file + (rest.replace("text", "edited") if changed else rest)
                    old_md = OLD if stamped_before else CREATED
                    file_md = OLD if stamped_before is True else CREATED  # what compiling the file's line yields
                    if stamped_before == "index only" and dated:
                        continue  # a line without a stamp cannot be dated today / later
                    note = N(new_body, FUTURE if dated == "later" else TODAY if dated else file_md, "240101#00")
                    old = N(pre + rest, old_md, "240101#00" if has_old else "240101#99")
                    ctrl, ctrl_old = N("240101#01 control", CREATED, "240101#01"), N("240101#01 control", CREATED, "240101#01")
                    page = st.alloc(HObj("obj", cls="zorg.domain.models._page.Page", fields=dict(notes=st.alloc(HObj("list", items=[note, ctrl])), events=st.alloc(HObj("list")), path=Opaque("path:PAGE"))))
                    oldp = st.alloc(HObj("obj", cls="zorg.domain.models._page.Page", fields=dict(notes=st.alloc(HObj("list", items=[old, ctrl_old])), events=st.alloc(HObj("list")), path=Opaque("path:PAGE"))))
                    label = f"had_zid_before={has_old}, changed={changed}, dated_today={dated if dated != 'later' else 'no (dated on a later day)'}, stamped_before={stamped_before}"
                    if dated == "later":
                        dated = False
                    try:
                        res = I.run_function(Q, [Opaque("path:ZDIR"), page, oldp], st=st)
                    except Exception as e:
                        run.undecided(rid, "_check_for_modified_notes", f"cannot evaluate abstractly: {type(e).__name__}: {e}")
                        return
                    want = has_old and (changed or stamped_before == "index only") and not dated  # an index-only stamp makes the compiled note differ from the indexed one
                    for v, s in res:
                        n += 1
                        if isinstance(v, Raised) or s.imprecise:
                            run.undecided(rid, "_check_for_modified_notes", f"{label}: " + (f"raises {v.exc}" if isinstance(v, Raised) else "; ".join(s.imprecise[:2])))
                            continue
                        f = s.obj(note).fields
                        stamped = f["modify_date"] == TODAY and not dated
                        body_changed = f["body"] != new_body
                        run.check(rid, f"stamped iff had the ZID before, differs and is not dated today [{label}]", stamped == want and body_changed == want, "_check_for_modified_notes",
                                  f"{label}: stamped={stamped} body rewritten={body_changed}",
                                  f"with {label} the note is {'stamped' if stamped else 'not stamped'} and its body is {'rewritten' if body_changed else 'left alone'}; it should be "
                                  f"{'stamped' if want else 'left alone'} (a note is stamped exactly when the page had a note with that ZID, the note differs from it and does not carry today's date)",
                                  file=FILE_H, node=fq.node)
                        cf = s.obj(ctrl).fields
                        run.check(rid, f"an unedited neighbour is never stamped [{label}]", cf["modify_date"] == CREATED and cf["body"] == "240101#01 control", "_check_for_modified_notes",
                                  f"{label}: control note changed", "a note that was not edited is stamped / rewritten together with its neighbour", file=FILE_H, node=fq.node)
                        evs = s.obj(s.obj(page).fields["events"]).items
                        run.check(rid, f"the modify-date event is queued iff a note was stamped [{label}]", (len(evs) == 1) == want and len(evs) <= 1, "_check_for_modified_notes",
                                  f"{label}: {len(evs)} events", f"with {label}, {len(evs)} events are queued (expected {1 if want else 0}): the file is not updated to match the index, or rewritten needlessly",
                                  file=FILE_H, node=fq.node)
                        if want and stamped:
                            exp_rest = rest.replace("text", "edited") if changed else rest
                            got = f["body"]
                            ok = isinstance(got, SeqStr) and tuple(got.parts[:6]) == D6 and "".join(p if isinstance(p, str) else "?" for p in got.parts[6:]) == " " + exp_rest
                            run.check("C11.R6", f"the re-stamped body is the new date, one blank, and the note's text with its old stamp removed [{'stamped before' if stamped_before is True else 'stamped in the index only (interrupted write-back)' if stamped_before else 'first stamp'}]", ok,
                                      "_check_for_modified_notes", f"stamped_before={stamped_before}: body {got!r}"[:200],
                                      f"the stamped body becomes {got!r}; expected YYMMDD + ' ' + {exp_rest!r}: the indexed body no longer equals the file (runs of blanks / line breaks collapse, "
                                      "or a word that is not the old stamp is dropped -- e.g. the ZID, when the index holds a stamp the file never received), so the note is stamped again whenever "
                                      "anything else on the page changes", file=FILE_H, node=fq.node)
                            if evs:
                                ev = s.obj(evs[0]) if isinstance(evs[0], Ref) else None
                                notes_f = [x for x in (ev.fields.values() if ev else []) if isinstance(x, Ref) and s.obj(x).kind == "list"]
                                in_ev = [it for x in notes_f for it in s.obj(x).items]
                                run.check(rid, "the event names exactly the stamped notes", in_ev == [note], "_check_for_modified_notes", f"event notes {len(in_ev)}",
                                          "the queued event does not list exactly the stamped note(s)", file=FILE_H, node=fq.node)
    run.floor("stamp-table evaluations", n, 24)


def eq_fields(run: Run, model: PyModel, rid: str) -> None:
    """Note.__eq__ evaluated abstractly on pairs of notes that differ in exactly one field: equal iff body and todo_payload agree
    (whatever the comparison is written as: `and` chain, tuple comparison, helper key function)."""
    from .absint import Interp, Raised, State
    from .absval import HObj, Opaque, Term

    NOTE = "zorg.domain.models._page.Note"
    fi = model.func(f"{NOTE}.__eq__")
    ci = model.cls(NOTE)
    fields = [k for k in ci.fields if not k.startswith("_")]
    run.floor("Note fields", len(fields), 10)
    I = Interp(model, max_states=2000)
    nt = {m.member: m for m in I.B.enum_members(I, model.cls("zorg.domain.models._types.NoteType"))} if "zorg.domain.models._types.NoteType" in model.classes else {}
    if not nt:
        nt = {m.member: m for m in I.B.enum_members(I, model.cls(model.resolve_dotted("zorg.domain.models._page.NoteType") or "zorg.domain.types.NoteType"))}

    def mk(st, **over):
        def payload(prio, status):
            return st.alloc(HObj("obj", cls="zorg.domain.models._page.TodoPayload", fields=dict(priority=prio, status=nt[status])))

        base = dict(body="T1 some text", file_path=Opaque("vpath", "/Z/a.zo"), line_no=3, areas=st.alloc(HObj("list", items=["a"])), block=None, contexts=st.alloc(HObj("list")),
                    create_date=Term("marker:D1", ()), links=st.alloc(HObj("list")), modify_date=Term("marker:D1", ()), people=st.alloc(HObj("list")), projects=st.alloc(HObj("list")),
                    properties=st.alloc(HObj("dict", fields={"k": "v"})), todo_payload=payload("P2", "OPEN_TODO"), zid="240101#00")
        for k, v in over.items():
            base[k] = payload(*v) if k == "todo_payload" and isinstance(v, tuple) else (st.alloc(v) if isinstance(v, HObj) else v)
        for k in fields:
            base.setdefault(k, None)
        return st.alloc(HObj("obj", cls=NOTE, fields=base))

    cases = [("an identical note", {}, True), ("another text", dict(body="T1 other text"), False), ("another todo status", dict(todo_payload=("P2", "CLOSED_TODO")), False),
             ("another priority", dict(todo_payload=("P1", "OPEN_TODO")), False), ("a plain note instead of a todo", dict(todo_payload=None), False),
             ("another line", dict(line_no=9), True), ("another page", dict(file_path=Opaque("vpath", "/Z/b.zo")), True), ("another ZID field", dict(zid="240101#01"), True),
             ("another modify date", dict(modify_date=Term("marker:D2", ())), True), ("another create date", dict(create_date=Term("marker:D2", ())), True),
             ("other tags", dict(areas=HObj("list", items=["b"]), projects=HObj("list", items=["p"])), True), ("other properties", dict(properties=HObj("dict", fields={"k": "w"})), True)]
    # pairs whose two sides both differ from the base note: the priority of a closed / cancelled todo is not part of its text form, but it is part of its todo state
    pairs = [("a closed todo with another priority", dict(todo_payload=("P2", "CLOSED_TODO")), dict(todo_payload=("P0", "CLOSED_TODO")), False),
             ("a cancelled todo with another priority", dict(todo_payload=("P3", "CANCELED_TODO")), dict(todo_payload=("P1", "CANCELED_TODO")), False),
             ("a closed todo vs the same text cancelled", dict(todo_payload=("P2", "CLOSED_TODO")), dict(todo_payload=("P2", "CANCELED_TODO")), False),
             ("text that differs only in surrounding blanks", dict(body="T1 some text"), dict(body=" T1 some text \n"), False)]
    n = 0
    for label, over_a, over, want in [(l, {}, o, w) for l, o, w in cases] + pairs:
        st = State()
        a, b = mk(st, **over_a), mk(st, **over)
        try:
            res = I.run_function(f"{NOTE}.__eq__", [a, b], st=st)
        except Exception as e:  # noqa: BLE001
            run.undecided(rid, "Note.__eq__", f"{label}: cannot interpret: {type(e).__name__}: {str(e)[:100]}")
            continue
        for v, s in res:
            n += 1
            if isinstance(v, Raised) or s.imprecise or not isinstance(v, bool):
                run.undecided(rid, "Note.__eq__", f"{label}: " + (f"raises {v.exc}" if isinstance(v, Raised) else "; ".join(s.imprecise[:2]) or repr(v)))
                continue
            run.check(rid, f"Note equality against {label}: {want}", v is want, "Note.__eq__", f"{label}: {v}",
                      f"a note compared with {label} is {'equal' if v else 'different'}: " + ("an edit to the text or todo state goes unnoticed (no stamp)" if v else "an untouched note looks modified (spurious stamp)"),
                      file="src/zorg/domain/models/_page.py", node=fi.node)
    st = State()
    res = I.run_function(f"{NOTE}.__eq__", [mk(st), "T1 some text"], st=st)
    for v, s in res:
        n += 1
        run.check(rid, "a note never equals a non-note", v is False and not s.imprecise, "Note.__eq__", f"note == str: {v}", "a note compares equal to (or raises on) an object that is not a note",
                  file="src/zorg/domain/models/_page.py", node=fi.node)
    run.floor("Note.__eq__ evaluations", n, 16)


def clock_agreement(run: Run, model: PyModel, rid: str) -> None:
    from .indexscen import event_handlers

    n = 0
    roots = [f"{H}._check_for_modified_notes"] + event_handlers(model, "ModifiedZorgNotesEvent")
    for q in sorted(model.reachable(roots)):
        fi = model.func(q)
        for call, kind in clock_calls(fi.node):
            n += 1
            run.check(rid, f"{fi.name}: 'today' is the local calendar day", kind == "local", fi.name, call,
                      f"{fi.name} reads the clock with `{ast.unparse(call)}` while the other side of the stamping uses the local date: when local and UTC days differ, "
                      "index and file are stamped with different dates", file=fi.file, node=call)
    run.floor("clock reads in the stamping cascade", n, 1)


def commit_sites(run: Run, model: PyModel, eff: Effects, rid: str) -> None:
    """The database is committed only by SQLSession.commit and inside the per-page removal (remove_file_by_name and helpers only it calls)."""
    sites = sorted(q for q, fi in model.funcs.items() if any(e.kind == "DB_COMMIT" for _, e in eff.direct(fi)))
    RM = f"{REPO}.SQLRepo.remove_file_by_name"
    SC = "zorg.storage.sql._session.SQLSession.commit"
    callers: dict[str, set[str]] = {}
    for q, fi in model.funcs.items():
        for c in ast.walk(fi.node):
            if isinstance(c, ast.Call):
                t = model.callee(fi, c)
                if t in model.funcs:
                    callers.setdefault(t, set()).add(q)

    def only_from_removal(q: str, seen: frozenset = frozenset()) -> bool:
        if q == RM:
            return True
        if q in seen or not callers.get(q):
            return False
        return all(only_from_removal(c2, seen | {q}) for c2 in callers[q])

    bad = [q for q in sites if q != SC and not only_from_removal(q)]
    run.check(rid, "the database is committed only through SQLSession.commit and the per-page removal", not bad and SC in sites, "commit sites", f"{[q.split('zorg.')[-1] for q in bad] or 'ok'}",
              f"functions that commit the database outside SQLSession.commit / the per-page removal: {[q.split('zorg.')[-1] for q in bad]}", file=FILE_R)
    fx = model.func("zorg.storage.sql._session.SQLSession.__exit__")
    ok = any(isinstance(c, ast.Call) and isinstance(c.func, ast.Attribute) and c.func.attr == "rollback" for c in ast.walk(fx.node))
    run.check(rid, "leaving a session rolls back uncommitted work", ok, "SQLSession.__exit__", "rollback", "SQLSession.__exit__ does not roll back", file=fx.file, node=fx.node)


def hash_after_commit(run: Run, model: PyModel, eff: Effects, rid: str) -> None:
    """reindex: no HASHMAP write covering a page between adding it and committing it."""
    fi = model.func(f"{H}.reindex_database")
    n = 0
    for p in enum_paths(fi.node, unroll=1):
        ad = first_index(p, lambda x: isinstance(x, ast.Call) and isinstance(x.func, ast.Attribute) and x.func.attr == "add_file")
        if ad < 0 or p.outcome == "raise":
            continue
        commits = [i for i in all_indices(p, lambda x: isinstance(x, ast.Call) and isinstance(x.func, ast.Attribute) and x.func.attr == "commit") if i > ad]
        first_commit = commits[0] if commits else len(p.events)
        n += 1
        early = []
        for i, e in enumerate(p.events[:first_commit]):
            if e[0] == "stmt" and i >= 0:
                for node, tag, via in eff.node_tags(fi, e[1]):
                    if tag == "FILE_WRITE:HASHMAP" and i > first_index(p, lambda x: isinstance(x, ast.Call) and isinstance(x.func, ast.Attribute) and x.func.attr == "remove_file_by_name"):
                        early.append(node)
        run.check(rid, "the hash map is not written between indexing a page and committing it", not early, "reindex_database", early[0] if early else "-",
                  "reindex_database writes file_hash.json for a page before that page's rows are committed: if the process dies in between, the rerun finds a matching hash, "
                  "skips the page, and the index never receives it", file=FILE_H, node=early[0] if early else fi.node)
    run.floor("committing paths of reindex_database", n, 2)


def ack_before_writeback(run: Run, model: PyModel, eff: Effects, rid: str) -> None:
    """A command that skips work by hash must not acknowledge a page while its write-back event is still queued."""
    for name in ("reindex_database",):
        q = f"{H}.{name}"
        fi = model.func(q)
        may = eff.may(q)
        writes_map = any(t == "FILE_WRITE:HASHMAP" for t in may)
        queues = sorted(t for t in may if t.startswith("EVENT:") and ("NewZorgNotes" in t or "ModifiedZorgNotes" in t))
        reads_map = "file_hash" in ast.unparse(fi.node) and ("read_bytes" in ast.unparse(fi.node) or "json.load" in ast.unparse(fi.node))
        run.check(rid, f"{name} does not acknowledge pages whose write-back is still pending", not (writes_map and queues and reads_map), name,
                  "hash map written by the command, write-back handled after it returns",
                  f"{name} writes file_hash.json (hashes taken BEFORE the write-back) and returns; the queued {queues} run afterwards. If the process dies before a page's "
                  "write-back, the rerun finds the recorded hash unchanged and skips the page: the file never gains the ZIDs / modify dates the index already has",
                  file=FILE_H, node=fi.node)


def hashmap_readers(run: Run, model: PyModel, rid: str) -> None:
    """Only `db reindex` may depend on the content of file_hash.json (create and the write-back only overwrite it):
    every function that reads it is reachable from reindex_database and from no other registered handler."""
    readers = []
    for q, fi in model.funcs.items():
        if not q.startswith(H):
            continue
        txt = ast.unparse(fi.node)
        for c in ast.walk(fi.node):
            if isinstance(c, ast.Call) and isinstance(c.func, ast.Attribute) and c.func.attr in ("read_bytes", "read_text") and "hash" in ast.unparse(c.func.value):
                readers.append(q)
            if isinstance(c, ast.Call) and ast.unparse(c.func) in ("json.load",) and "hash" in txt:
                readers.append(q)
    readers = sorted(set(readers))
    entry = [q for q in (f"{H}.create_database", f"{H}.add_zids_to_notes_in_file", f"{H}.update_note_modify_dates", f"{H}.reindex_database_after_edit") if q in model.funcs]
    offenders = []
    for e in entry:
        reach = model.reachable([e])
        offenders += [(e.split(".")[-1], r.split(".")[-1]) for r in readers if r in reach]
    from_reindex = all(r in model.reachable([f"{H}.reindex_database"]) for r in readers)
    run.check(rid, "only reindex_database depends on the content of file_hash.json", not offenders and from_reindex and bool(readers), "handlers", f"readers {[r.split('.')[-1] for r in readers]} offenders {offenders}",
              f"file_hash.json is read on the path of {offenders or [r.split('.')[-1] for r in readers]}: `db create` and the write-back handlers used to only overwrite it, which is why they survive a torn (truncated) hash map; "
              "a reader on their path turns a torn write into a JSONDecodeError on every re-run", file=FILE_H)


def removal_internals(run: Run, model: PyModel, rid: str) -> None:
    """Abstract run of SQLRepo.remove_file_by_name on a virtual row graph (a page with two notes, tags and property links -- some
    shared with other notes, some not -- and H1 > H2 > H3 > H4 sections with blocks at every level): every row that belongs to the
    page is deleted exactly once (notes, sections, blocks, the page, its property links), tags / properties only when no other note
    uses them, and a page that is not indexed is a no-op returning None."""
    from .absint import Interp, Raised, State
    from .absval import HObj, Opaque, Ref

    Q = f"{REPO}.SQLRepo.remove_file_by_name"
    fq = model.func(Q)

    def run_once(indexed: bool):
        st = State()
        names: dict = {}

        def O(tag, **f):
            r = st.alloc(HObj("obj", cls="vrow", fields=dict(_v=tag, **f)))
            names[r.addr] = tag
            return r

        def L(*xs):
            return st.alloc(HObj("list", items=list(xs)))

        shared_tag = O("tag:shared", notes=None)
        own_tag = O("tag:own", notes=None)
        prop_shared = O("prop:shared", links=None)
        prop_own = O("prop:own", links=None)
        n1 = O("note:1", zid="240101#00", body="240101#00 one", id=1, todo_status=None, todo_priority=None, create_date=Opaque("d"), modify_date=Opaque("d"))
        n2 = O("note:2", zid=None, body="", id=2, todo_status=None, todo_priority=None, create_date=None, modify_date=None)
        other = O("note:other-page", zid="240101#09", body="x", id=9)
        st.obj(shared_tag).fields["notes"] = L(n1, other)
        st.obj(own_tag).fields["notes"] = L(n1)
        pl1 = O("plink:1", prop=prop_shared)
        pl2 = O("plink:2", prop=prop_own)
        st.obj(prop_shared).fields["links"] = L(pl1, O("plink:other"))
        st.obj(prop_own).fields["links"] = L(pl2)
        for n, pls in ((n1, L(pl1, pl2)), (n2, L())):
            st.obj(n).fields.update(property_links=pls, areas=L(shared_tag) if n is n1 else L(), contexts=L(own_tag) if n is n1 else L(), people=L(), projects=L())
        b = [O(f"block:{i}") for i in range(5)]
        h4 = O("h4", blocks=L(b[4]))
        h3 = O("h3", blocks=L(b[3]), h4s=L(h4))
        h2 = O("h2", blocks=L(b[2]), h3s=L(h3))
        h1 = O("h1", blocks=L(b[1]), h2s=L(h2))
        h0 = O("h0", blocks=L(b[0]), h2s=L())
        page = O("page", notes=L(n1, n2), h1s=L(h0, h1), path="A.zo")

        def meth(I, recv, name, args, kwargs, s, node):
            if recv.cls == "vsql":
                if name == "exec":
                    return [(Opaque("vresult"), s)]
                if name == "delete":
                    a0 = args[0]
                    s.trace.append(("delete", names.get(a0.addr, "?") if isinstance(a0, Ref) else repr(a0)))
                    return [(None, s)]
                if name in ("commit", "flush", "add", "refresh"):
                    s.trace.append((name,))
                    return [(None, s)]
                return [(Opaque("vsql." + name), s)]
            if recv.cls == "vresult":
                if name in ("first", "one_or_none"):
                    return [(page if indexed else None, s)]
                if name == "all":
                    return [(L(page) if indexed else L(), s)]
            if recv.cls == "vconv":
                return [(Opaque("entity-page"), s)]
            if recv.cls.startswith("ext:"):
                is_log = ("ogger" in recv.cls or "logrus" in recv.cls) and name in ("debug", "info", "warning", "warn", "error", "exception", "critical", "log", "bind")
                return [(None if is_log else Opaque("vstmt"), s)]
            if recv.cls == "vstmt":
                return [(Opaque("vstmt"), s)]
            return None

        probes = {"method:*": meth, "call:*": lambda I, fv, args, kwargs, s, node: [(Opaque("vstmt"), s)] if fv.cls.startswith("ext:") else None,
                  "classattr": lambda I, v, name, s: [(Opaque("vcol"), s)], "compare": lambda I, op, l, r, s: Opaque("vcond")}
        I = Interp(model, probes=probes, max_states=4000)
        repo = st.alloc(HObj("obj", cls=f"{REPO}.SQLRepo", fields=dict(_session=Opaque("vsql"), _page_converter=Opaque("vconv"), _zdir=Opaque("vpath", "/Z"), _verbose=0, seen_pages=L())))
        return I.run_function(Q, [repo, "A.zo"], st=st)

    try:
        res = run_once(True)
        res_missing = run_once(False)
    except Exception as e:
        run.undecided(rid, "SQLRepo.remove_file_by_name", f"cannot interpret abstractly: {type(e).__name__}: {str(e)[:120]}")
        return
    must = {"note:1", "note:2", "h0", "h1", "h2", "h3", "h4", "block:0", "block:1", "block:2", "block:3", "block:4", "page", "plink:1", "plink:2", "prop:own", "tag:own"}
    never = {"note:other-page", "tag:shared", "prop:shared", "plink:other"}
    for v, s in res:
        if isinstance(v, Raised) or s.imprecise:
            run.undecided(rid, "SQLRepo.remove_file_by_name", (f"raises {v.exc}" if isinstance(v, Raised) else "; ".join(s.imprecise[:2])))
            continue
        deleted = [t[1] for t in s.trace if t[0] == "delete"]
        missing = sorted(must - set(deleted))
        wrong = sorted(set(deleted) & never)
        twice = sorted({d for d in deleted if deleted.count(d) > 1})
        run.check(rid, "removing a page deletes every row that belongs to it (notes, H1..H4 sections, blocks, property links, the page) exactly once", not missing and not twice, "SQLRepo.remove_file_by_name",
                  f"missing {missing} twice {twice}", f"remove_file_by_name leaves {missing} behind (deleted twice: {twice}): stale rows show up in queries or are duplicated when the page is added again", file=FILE_R, node=fq.node)
        # the removal commits while it works (after each property link / orphaned tag): the PAGE row is the handle by which a re-run finds what an interrupted removal left
        # behind, so it is deleted after the last of these commits (together with the rest, in the caller's transaction) -- never before one
        ev = [(t[0], t[1] if len(t) > 1 else None) for t in s.trace if t[0] in ("delete", "commit")]
        k_page = next((i for i, t in enumerate(ev) if t == ("delete", "page")), None)
        late = k_page is not None and any(t[0] == "commit" for t in ev[k_page + 1:])
        run.check(rid, "the page row is deleted after the removal's last interior commit", not late, "SQLRepo.remove_file_by_name", "a commit follows the deletion of the page row",
                  "remove_file_by_name deletes the page row and then commits while notes of the page are still to be removed: a run killed there leaves note rows without a page; the re-run no "
                  "longer finds the page by name, so those rows are never removed and the page is indexed twice", file=FILE_R, node=fq.node)
        run.check(rid, "rows shared with other pages (tags / properties still in use) are kept", not wrong, "SQLRepo.remove_file_by_name", f"deleted {wrong}",
                  f"remove_file_by_name also deletes {wrong}, which other pages' notes still use", file=FILE_R, node=fq.node)
        run.check(rid, "the removed page is handed back", v is not None, "SQLRepo.remove_file_by_name", "returns None for an indexed page", "remove_file_by_name returns None although the page was indexed (the caller then treats it as new: no modify dates are stamped)", file=FILE_R, node=fq.node)
    for v, s in res_missing:
        ok = v is None and not isinstance(v, Raised) and not [t for t in s.trace if t[0] == "delete"]
        run.check(rid, "removing a page that is not indexed is a no-op returning None", ok and not s.imprecise, "SQLRepo.remove_file_by_name", f"result {v!r}", f"remove_file_by_name on an unknown page gives {v!r} / deletes rows", file=FILE_R, node=fq.node)
    run.floor("abstract runs of remove_file_by_name", len(res) + len(res_missing), 2)
