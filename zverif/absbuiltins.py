"""Builtins, operators and methods on abstract values (engine A)."""

from __future__ import annotations

import ast
import operator
from typing import Any, Optional

from .absval import (
    BoundV, CharSet, ClassV, EnumV, FuncV, HObj, IntSet, LambdaV, OneOf, Opaque, Ref, SeqStr, Term, Text, Unknown, is_concrete, new_text,
)

BUILTIN_NAMES = {
    "len", "abs", "chr", "ord", "str", "int", "bool", "all", "any", "sorted", "set", "list", "tuple", "dict", "range",
    "enumerate", "zip", "isinstance", "min", "max", "print", "getattr", "setattr", "hasattr", "cast", "partial",
    "assert_never", "repr", "reversed", "sum", "frozenset", "iter", "next", "type", "field", "replace", "filter", "map", "slice", "vars",
}

DIGITS = frozenset("0123456789")


# ----------------------------------------------------------------- utilities
def hashable(v: Any) -> bool:
    # virtual paths are values identified by their text (see _equal): usable as dict keys / set members
    return is_concrete(v) or isinstance(v, (EnumV, Text, CharSet, SeqStr)) or (isinstance(v, Opaque) and v.cls in ("vpath", "vpattern"))


def dedupe(items: list) -> list:
    out = []
    for x in items:
        if not any(_same(x, y) for y in out):
            out.append(x)
    return out


def _same(a: Any, b: Any) -> bool:
    if isinstance(a, Text) and isinstance(b, Text):
        return a.labels == b.labels and a.kind == b.kind
    try:
        return type(a) is type(b) and a == b
    except Exception:
        return a is b


def list_extend(h: HObj, items: list) -> None:
    for x in items:
        if h.setlike and any(_same(x, y) for y in h.items):
            continue
        h.items.append(x)


def freeze(I, v: Any, st) -> Any:
    """Turn a heap container of constants into a concrete tuple/frozenset/dict view."""
    if isinstance(v, Ref):
        h = st.obj(v)
        if h.kind in ("list",):
            return tuple(freeze(I, x, st) for x in h.items)
        if h.kind == "set":
            return frozenset(freeze(I, x, st) for x in h.items if hashable(x))
        if h.kind == "dict":
            return FrozenDict({k: freeze(I, x, st) for k, x in h.fields.items()})
    return v


class FrozenDict(dict):
    def __hash__(self) -> int:  # type: ignore[override]
        return hash(tuple(sorted((repr(k), repr(v)) for k, v in self.items())))


TRUNCATED = "truncated"  # HObj.cls of the materialised prefix of an infinite iterator (itertools.count and what is mapped / filtered from it)
LAZY_PREFIX = 200


def is_truncated(v: Any, st) -> bool:
    return isinstance(v, Ref) and st.obj(v).kind == "list" and st.obj(v).cls == TRUNCATED


def iter_values(I, v: Any, st, allow_truncated: bool = False) -> Optional[list]:
    if is_truncated(v, st) and not allow_truncated:
        # only consumers that stop early (next, takewhile, islice, zip with something finite) may look at the prefix of an infinite iterator
        st.note("an infinite iterator is consumed by something that does not stop early")
    if isinstance(v, str):
        return list(v)
    if isinstance(v, (tuple, list, frozenset)):
        return list(v) if not isinstance(v, frozenset) else sorted(v, key=repr)
    if isinstance(v, SeqStr):
        return list(v.parts)
    if isinstance(v, FrozenDict):
        return list(v.keys())
    if isinstance(v, Ref):
        h = st.obj(v)
        if h.kind in ("list", "set"):
            return list(h.items)
        if h.kind == "dict":
            return list(h.fields.keys())
        nt = namedtuple_values(I, h)
        if nt is not None:
            return nt
    if isinstance(v, range):
        return list(v)
    hook = getattr(I, "probes", {}).get("iter") if I is not None else None
    if hook is not None and isinstance(v, Opaque):
        return hook(I, v, st)
    return None


def namedtuple_values(I, h: HObj) -> Optional[list]:
    """Field values, in declaration order, of an instance of a typing.NamedTuple subclass (it iterates / unpacks / indexes like a tuple)."""
    if h.kind != "obj" or not h.cls or I is None:
        return None
    ci = I.model.classes.get(h.cls)
    if ci is None or not any(ast.unparse(b).split(".")[-1] == "NamedTuple" for b in ci.node.bases):
        return None
    names = [f[0] for f in dataclass_fields(I, ci)]
    if not all(n in h.fields for n in names):
        return None
    return [h.fields[n] for n in names]


def abstract_elem(I, v: Any, st) -> Any:
    if isinstance(v, Text):
        return new_text(v.labels, v.kind + ".elem")
    return Unknown("element")


def text_labels(vals: list) -> frozenset:
    out: set = set()
    for v in vals:
        if isinstance(v, Text):
            out |= v.labels
    return frozenset(out)


def concat_str(I, parts: list, st) -> Any:
    flat: list = []
    hook = I.probes.get("str")
    if hook is not None:
        parts = [(hook(I, p, st) if isinstance(p, Opaque) and hook(I, p, st) is not None else p) for p in parts]
    for p in parts:
        if isinstance(p, str):
            flat.extend(p)
        elif isinstance(p, CharSet):
            flat.append(p)
        elif isinstance(p, SeqStr):
            flat.extend(p.parts)
        elif isinstance(p, (int, EnumV)) and not isinstance(p, bool):
            flat.extend(str(p)) if isinstance(p, int) else flat.append(p)
        else:
            # unknown-length piece: the result is a Text carrying all labels
            labels = text_labels([x for x in parts if isinstance(x, Text)])
            kinds = [x.kind for x in parts if isinstance(x, Text)]
            t = new_text(labels, "+".join(kinds) if kinds else "fstr")
            st.meta.setdefault("templates", {})[t.tid] = tuple(parts)
            return t
    if any(isinstance(x, EnumV) for x in flat):
        return Unknown("enum in f-string")
    if all(isinstance(x, str) for x in flat):
        return "".join(flat)
    return SeqStr(tuple(flat))


def format_value(I, v: Any, spec: Optional[str], st) -> Any:
    if spec is None:
        return v
    if isinstance(v, int) and not isinstance(v, bool):
        try:
            return format(v, spec)
        except Exception:
            return Unknown("format")
    if isinstance(v, str):
        try:
            return format(v, spec)
        except Exception:
            return Unknown("format")
    return Unknown(f"format spec {spec}")


def freeze_term(I, v: Any, st) -> Any:
    """Arguments of a Term: heap containers become tuples so the term is hashable."""
    if isinstance(v, Ref):
        h = st.obj(v)
        if h.kind in ("list", "set"):
            return ("list",) + tuple(freeze_term(I, x, st) for x in h.items)
        if h.kind == "dict":
            return ("dict",) + tuple((k, freeze_term(I, x, st)) for k, x in h.fields.items())
        return ("obj", h.cls)
    if isinstance(v, Text):
        return Term("text", (tuple(sorted(v.labels)), v.kind, v.tid))
    if isinstance(v, BoundV) and isinstance(v.recv, Term):
        return Term("." + v.name, (v.recv,))
    if isinstance(v, tuple):
        return tuple(freeze_term(I, x, st) for x in v)
    return v


def truth(I, v: Any, st) -> Optional[bool]:
    if isinstance(v, Unknown):
        return None
    if is_concrete(v):
        if isinstance(v, EnumV):
            return True
        return bool(v)
    if isinstance(v, (CharSet,)):
        return True
    if isinstance(v, SeqStr):
        return len(v) > 0
    if isinstance(v, Text):
        f = st.facts.get((v.tid, "nonempty"))
        return f
    if isinstance(v, Ref):
        h = st.obj(v)
        if h.kind in ("list", "set"):
            if h.cls == "textwords":
                return None
            if h.setlike and not h.items:
                return False
            return len(h.items) > 0
        if h.kind == "dict":
            return len(h.fields) > 0
        return True
    if isinstance(v, Opaque) and v.cls.startswith("ext:") and v.cls.endswith("()"):
        st.note(f"truthiness of library call result {v.cls}")
        return None
    if isinstance(v, (Opaque, FuncV, ClassV, BoundV, LambdaV, Term)):
        return True
    if isinstance(v, IntSet):
        if 0 not in v.values:
            return True
        if v.values == {0}:
            return False
        return None
    if isinstance(v, FrozenDict):
        return len(v) > 0
    if isinstance(v, range):
        return len(v) > 0
    return None


# ------------------------------------------------------------------- compare
_CMP = {
    ast.Eq: operator.eq, ast.NotEq: operator.ne, ast.Lt: operator.lt, ast.LtE: operator.le,
    ast.Gt: operator.gt, ast.GtE: operator.ge,
}


def compare(I, op, l: Any, r: Any, st, lexpr=None, rexpr=None) -> list:
    """-> list of (bool, state), refining CharSet / IntSet operands read from variables."""
    hook = I.probes.get("compare")
    if hook is not None and isinstance(l, (Opaque, Term)) and isinstance(r, (Opaque, Term)):
        hv = hook(I, op, l, r, st)
        if isinstance(hv, bool):
            return [(hv, st)]
    neg = isinstance(op, (ast.NotEq, ast.IsNot, ast.NotIn))
    if isinstance(op, (ast.Is, ast.IsNot, ast.Eq, ast.NotEq)):
        base = ast.Eq
        res = _equal(I, l, r, st, lexpr, rexpr)
        return [((not b) if neg else b, s) for b, s in res]
    if isinstance(op, (ast.In, ast.NotIn)):
        res = _contains(I, r, l, st, lexpr)
        return [((not b) if neg else b, s) for b, s in res]
    fn = _CMP.get(type(op))
    if fn is None:
        return _fork(st)
    if any(isinstance(x, Unknown) and x.why.startswith("len:") for x in (l, r)):
        return _fork(st)
    # split set-valued operands
    if isinstance(l, (CharSet, IntSet)) and is_concrete(r):
        return _split(I, l, lambda x: fn(x, r), st, lexpr)
    if isinstance(r, (CharSet, IntSet)) and is_concrete(l):
        return _split(I, r, lambda x: fn(l, x), st, rexpr)
    if is_concrete(l) and is_concrete(r) and not isinstance(l, EnumV) and not isinstance(r, EnumV):
        try:
            return [(bool(fn(l, r)), st)]
        except TypeError:
            return _fork(st)
    if isinstance(l, (CharSet, IntSet)) and isinstance(r, (CharSet, IntSet)):
        ls = l.chars if isinstance(l, CharSet) else l.values
        rs = r.chars if isinstance(r, CharSet) else r.values
        outcomes = {fn(a, b) for a in ls for b in rs}
        if len(outcomes) == 1:
            return [(outcomes.pop(), st)]
    st.note(f"comparison of abstract values {type(l).__name__} {type(op).__name__} {type(r).__name__}")
    return _fork(st)


def _fork(st) -> list:
    return [(True, st), (False, st.fork())]


def _split(I, sv: Any, pred, st, expr) -> list:
    members = sv.chars if isinstance(sv, CharSet) else sv.values
    yes = frozenset(x for x in members if pred(x))
    no = members - yes
    out = []
    mk = (lambda s: (next(iter(s)) if len(s) == 1 else CharSet(s, sv.sym))) if isinstance(sv, CharSet) else (lambda s: (next(iter(s)) if len(s) == 1 else IntSet(s)))
    if yes:
        s1 = st if not no else st.fork()
        I.refine(s1, expr, mk(yes))
        out.append((True, s1))
    if no:
        I.refine(st, expr, mk(no))
        out.append((False, st))
    return out


def _deep_concrete(v: Any) -> bool:
    if isinstance(v, (tuple, frozenset)):
        return all(_deep_concrete(x) for x in v)
    return is_concrete(v)


def _equal(I, l: Any, r: Any, st, lexpr, rexpr) -> list:
    for side, expr, other in ((l, lexpr, r), (r, rexpr, l)):
        if isinstance(side, OneOf):
            out = []
            for i, a in enumerate(side.alts):
                s2 = st if i == len(side.alts) - 1 else st.fork()
                I.refine(s2, expr, a)
                out.extend(_equal(I, a, other, s2, None, None) if side is l else _equal(I, other, a, s2, None, None))
            return out
    if isinstance(l, (CharSet, IntSet)) and is_concrete(r):
        return _split(I, l, lambda x: x == r, st, lexpr)
    if isinstance(r, (CharSet, IntSet)) and is_concrete(l):
        return _split(I, r, lambda x: x == l, st, rexpr)
    if any(isinstance(x, Unknown) and x.why.startswith("len:") for x in (l, r)):
        return _fork(st)
    if isinstance(l, tuple) and isinstance(r, tuple) and not (_deep_concrete(l) and _deep_concrete(r)):
        # element-wise, left to right
        if len(l) != len(r):
            return [(False, st)]
        pending = [(True, st)]
        for a, b in zip(l, r):
            nxt = []
            for ok, s2 in pending:
                nxt.extend(_equal(I, a, b, s2, None, None) if ok else [(False, s2)])
            pending = nxt
        return pending
    if is_concrete(l) and is_concrete(r):
        return [(l == r and type(l) is type(r) or (l == r and not isinstance(l, bool) and not isinstance(r, bool)), st)]
    if (isinstance(l, Ref) and is_concrete(r) and r is not None and not isinstance(r, tuple)) or (isinstance(r, Ref) and is_concrete(l) and l is not None and not isinstance(l, tuple)):
        return [(False, st)]  # a heap object never equals an enum member / scalar
    if isinstance(l, Opaque) and isinstance(r, Opaque) and l.cls == r.cls == "vpath":
        return [(l.tag == r.tag, st)]  # virtual paths are identified by their text
    if isinstance(l, Term) and isinstance(r, Term):
        if l == r:
            return [(True, st)]  # the same uninterpreted term
        if l.head.startswith("marker:") or r.head.startswith("marker:"):
            return [(False, st)]  # scenario markers denote pairwise different values
        st.note(f"equality of different library terms {l.head} / {r.head}")
        return _fork(st)
    if isinstance(l, Ref) and isinstance(r, Ref):
        if l == r:
            return [(True, st)]
        hl, hr = st.obj(l), st.obj(r)
        if hl.kind == "obj" and hr.kind == "obj" and hl.cls in I.model.classes and not getattr(I, "_in_eq", False):
            m = I.model.find_method(I.model.classes[hl.cls], "__eq__")
            if m is not None:
                I._in_eq = True
                try:
                    res = I.call_func(m.qualname, [l, r], {}, st)
                finally:
                    I._in_eq = False
                out = []
                for v, s2 in res:
                    if isinstance(v, bool):
                        out.append((v, s2))
                    else:
                        out.extend(I.truth_fork(v, s2))
                return out
        if hl.kind == "obj" and hr.kind == "obj" and hl.cls in I.model.classes and hr.cls in I.model.classes and is_dataclass(I.model.classes[hl.cls]) \
                and I.model.find_method(I.model.classes[hl.cls], "__eq__") is None:
            # the generated dataclass / NamedTuple __eq__: same class and field-wise equal
            if hl.cls != hr.cls:
                return [(False, st)]
            names = [f[0] if isinstance(f, tuple) else f for f in dataclass_fields(I, I.model.classes[hl.cls])]
            pending = [(True, st)]
            for nm in names:
                nxt = []
                for b, s2 in pending:
                    if not b:
                        nxt.append((False, s2))
                        continue
                    nxt.extend(_equal(I, s2.obj(l).fields.get(nm), s2.obj(r).fields.get(nm), s2, None, None))
                pending = nxt
            return pending
        if hl.kind == hr.kind and hl.kind in ("list", "set") and all(is_concrete(x) for x in hl.items + hr.items):
            if hl.kind == "set":
                return [(set(hl.items) == set(hr.items), st)]
            return [(hl.items == hr.items, st)]
        if hl.kind == hr.kind == "dict" and all(is_concrete(x) for x in list(hl.fields.values()) + list(hr.fields.values())):
            return [(hl.fields == hr.fields, st)]
        st.note(f"equality of two heap objects ({hl.kind} {hl.cls} / {hr.kind} {hr.cls})")
        return _fork(st)
    if (l is None) != (r is None):
        other = r if l is None else l
        if isinstance(other, Opaque) and other.cls.startswith("ext:") and other.cls.endswith("()"):
            # result of a call into a library we do not model: may well be None (re.match, dict.get, ...)
            st.note(f"None-ness of library call result {other.cls}")
            return _fork(st)
        if isinstance(other, (Ref, Opaque, Text, SeqStr, CharSet, FuncV, ClassV, EnumV, IntSet, LambdaV, Term, BoundV)):
            return [(False, st)]
        return _fork(st)
    if isinstance(l, SeqStr) and isinstance(r, str) or isinstance(r, SeqStr) and isinstance(l, str):
        seq, s = (l, r) if isinstance(l, SeqStr) else (r, l)
        if len(seq) != len(s):
            return [(False, st)]
        poss = all((p == c) if isinstance(p, str) else (c in p.chars) for p, c in zip(seq.parts, s))
        if not poss:
            return [(False, st)]
        cert = all(isinstance(p, str) for p in seq.parts)
        return [(True, st)] if cert else _fork(st)
    if isinstance(l, Ref) and is_concrete(r) or isinstance(r, Ref) and is_concrete(l):
        ref, c = (l, r) if isinstance(l, Ref) else (r, l)
        h = st.obj(ref)
        if h.kind == "set" and isinstance(c, frozenset) and all(is_concrete(x) for x in h.items):
            return [(frozenset(h.items) == c, st)]
        if h.kind == "list" and isinstance(c, (tuple, list)):
            if all(is_concrete(x) for x in h.items):
                return [(list(h.items) == list(c), st)]
        return [(False, st)] if c is None else _fork(st)
    if isinstance(l, Text) and isinstance(r, str) or isinstance(r, Text) and isinstance(l, str):
        t, s = (l, r) if isinstance(l, Text) else (r, l)
        key = (t.tid, "==", s)
        if key in st.facts:
            return [(st.facts[key], st)]
        s2 = st.fork()
        st.facts[key] = True
        s2.facts[key] = False
        if s == "":
            st.facts[(t.tid, "nonempty")] = False
            s2.facts[(t.tid, "nonempty")] = True
        return [(True, st), (False, s2)]
    if isinstance(l, Text) and isinstance(r, Text) and l.tid == r.tid:
        return [(True, st)]
    if isinstance(l, Opaque) and isinstance(r, Opaque):
        return _fork(st)
    return _fork(st)


def _contains(I, container: Any, item: Any, st, item_expr) -> list:
    members = None
    if isinstance(container, (tuple, frozenset, list, str)):
        members = container
    elif isinstance(container, FrozenDict):
        members = list(container.keys())
    elif isinstance(container, Ref):
        h = st.obj(container)
        if h.kind in ("list", "set"):
            members = h.items
        elif h.kind == "dict":
            members = list(h.fields.keys())
        elif h.kind == "obj" and h.cls in I.model.classes:
            m = I.model.find_method(I.model.classes[h.cls], "__contains__")
            if m is not None:
                out = []
                for v, s2 in I.call_func(m.qualname, [container, item], {}, st):
                    if isinstance(v, bool):
                        out.append((v, s2))
                    else:
                        out.extend(I.truth_fork(v, s2))
                return out
    if members is None:
        if isinstance(container, Text) and isinstance(item, str):
            key = (container.tid, "contains", item)
            if key in st.facts:
                return [(st.facts[key], st)]
            s2 = st.fork()
            st.facts[key] = True
            s2.facts[key] = False
            return [(True, st), (False, s2)]
        if isinstance(container, Opaque):
            st.note(f"membership in library value {container.cls}")
        return _fork(st)
    if isinstance(item, (CharSet, IntSet)) and all(is_concrete(m) for m in members):
        mem = set(members)
        return _split(I, item, lambda x: x in mem, st, item_expr)
    if is_concrete(item) and all(is_concrete(m) for m in members):
        if isinstance(members, str):
            return [(isinstance(item, str) and item in members, st)]
        return [(any(m == item and type(m) is type(item) for m in members), st)]
    # abstract members
    if any(m is item or _same(m, item) for m in members):
        return [(True, st)]
    if isinstance(item, Text) and all(is_concrete(m) for m in members):
        key = (item.tid, "in", tuple(sorted(map(repr, members))))
        if key in st.facts:
            return [(st.facts[key], st)]
        s2 = st.fork()
        st.facts[key] = True
        s2.facts[key] = False
        return [(True, st), (False, s2)]
    if is_concrete(item) and not members:
        return [(False, st)]
    if isinstance(item, Opaque) and item.cls == "vpath" and all(isinstance(m, Opaque) and m.cls == "vpath" for m in members):
        return [(any(m.tag == item.tag for m in members), st)]
    return _fork(st)


# ------------------------------------------------------------------ operators
def binop(I, op, l: Any, r: Any, st, node=None) -> list:
    hook = I.probes.get("binop")
    if hook is not None and (isinstance(l, (Opaque, Term)) or isinstance(r, (Opaque, Term))):
        v = hook(I, op, l, r, st)
        if v is not None:
            return [(v, st)]
    if isinstance(op, ast.Add):
        if isinstance(l, (str, SeqStr, CharSet, Text)) and isinstance(r, (str, SeqStr, CharSet, Text)):
            return [(concat_str(I, [l, r], st), st)]
        if isinstance(l, Ref) and isinstance(r, Ref) and st.obj(l).kind == "list" and st.obj(r).kind == "list":
            return [(st.alloc(HObj("list", items=list(st.obj(l).items) + list(st.obj(r).items))), st)]
        if isinstance(l, tuple) and isinstance(r, tuple):
            return [(l + r, st)]
    if isinstance(op, ast.BitOr):
        dl = _as_dict(l, st)
        dr = _as_dict(r, st)
        if dl is not None and dr is not None:
            d = dict(dl)
            dict_merge(d, dr)
            return [(st.alloc(HObj("dict", fields=d)), st)]
        if isinstance(l, frozenset) and isinstance(r, frozenset):
            return [(l | r, st)]
    if isinstance(op, ast.Mult) and isinstance(l, str) and isinstance(r, int):
        return [(l * r, st)]
    ops = {ast.Add: operator.add, ast.Sub: operator.sub, ast.Mult: operator.mul, ast.FloorDiv: operator.floordiv, ast.Mod: operator.mod}
    fn = ops.get(type(op))
    if fn is not None:
        def num(x):
            return isinstance(x, int) and not isinstance(x, bool)
        if num(l) and num(r):
            try:
                return [(fn(l, r), st)]
            except ZeroDivisionError:
                from .absint import Raised
                return [(Raised("ZeroDivisionError", node), st)]
        if (num(l) or isinstance(l, IntSet)) and (num(r) or isinstance(r, IntSet)):
            ls = l.values if isinstance(l, IntSet) else {l}
            rs = r.values if isinstance(r, IntSet) else {r}
            try:
                vals = frozenset(fn(a, b) for a in ls for b in rs)
                return [(next(iter(vals)) if len(vals) == 1 else IntSet(vals), st)]
            except ZeroDivisionError:
                pass
    if isinstance(op, ast.Sub) and isinstance(l, frozenset) and isinstance(r, frozenset):
        return [(l - r, st)]
    if isinstance(op, (ast.Sub, ast.BitAnd, ast.BitOr, ast.BitXor)):
        # set algebra on heap sets / frozensets of hashable scenario values (element order of the left operand, then the right, is kept: the result is a set, its order is not observable)
        def elems(x):
            if isinstance(x, frozenset):
                return sorted(x, key=repr)
            if isinstance(x, Ref) and st.obj(x).kind == "set" and not st.obj(x).setlike:
                return list(st.obj(x).items)
            return None
        le, re_ = elems(l), elems(r)
        if le is not None and re_ is not None and all(hashable(x) and is_concrete(x) for x in le + re_):
            if isinstance(op, ast.Sub):
                out = [x for x in le if x not in re_]
            elif isinstance(op, ast.BitAnd):
                out = [x for x in le if x in re_]
            elif isinstance(op, ast.BitOr):
                out = le + [x for x in re_ if x not in le]
            else:
                out = [x for x in le if x not in re_] + [x for x in re_ if x not in le]
            return [(st.alloc(HObj("set", items=dedupe(out))), st)]
    if isinstance(l, Opaque) or isinstance(r, Opaque):
        return [(Opaque("binop"), st)]
    st.note(f"binary operator {type(op).__name__} on {type(l).__name__}/{type(r).__name__}")
    return [(Unknown("binop"), st)]


def dict_merge(dst: dict, src: dict) -> None:
    """dst.update(src), except that summarised (abstract-key) pairs are unioned."""
    for k, v in src.items():
        if k == "__abstract__":
            pairs = list(dst.get("__abstract__", []))
            for a, b in v:
                if not any(_same(a, x) and _same(b, y) for x, y in pairs):
                    pairs.append((a, b))
            dst["__abstract__"] = pairs
        else:
            dst[k] = v


def _as_dict(v: Any, st) -> Optional[dict]:
    if isinstance(v, Ref) and st.obj(v).kind == "dict":
        return st.obj(v).fields
    if isinstance(v, FrozenDict):
        return dict(v)
    return None


def index_(I, base: Any, idx: Any, st, node=None) -> list:
    from .absint import Raised

    if isinstance(idx, slice):  # x[slice(a, b)]  ==  x[a:b]
        return slice_(I, base, (idx.start, idx.stop, idx.step), st, node)

    if isinstance(base, Opaque) and base.cls in ("ext:typing.Literal", "ext:typing_extensions.Literal"):
        # typing.Literal[a, b, Literal[c]] -- a value listing its (flattened) constant arguments
        flat: list = []
        for a in (idx if isinstance(idx, tuple) else (idx,)):
            if isinstance(a, Opaque) and a.cls == "typing.Literal":
                flat.extend(eval(a.tag, {"__builtins__": {}}))  # repr of a tuple of constants written two lines below
            elif a is None or isinstance(a, (bool, int, str, bytes)):
                flat.append(a)
            else:
                st.note("typing.Literal of a non-constant")
                return [(Unknown("Literal"), st)]
        return [(Opaque("typing.Literal", repr(tuple(flat))), st)]

    if isinstance(base, (str, tuple, list)):
        if isinstance(idx, int) and not isinstance(idx, bool):
            try:
                return [(base[idx], st)]
            except IndexError:
                return [(Raised("IndexError", node), st)]
        if isinstance(idx, IntSet):
            vals = []
            for i in sorted(idx.values):
                try:
                    vals.append(base[i])
                except IndexError:
                    return [(Raised("IndexError", node), st)]
            if isinstance(base, str):
                return [(CharSet(frozenset(vals)) if len(set(vals)) > 1 else vals[0], st)]
    if isinstance(base, SeqStr) and isinstance(idx, int):
        try:
            return [(base.parts[idx], st)]
        except IndexError:
            return [(Raised("IndexError", node), st)]
    if isinstance(base, FrozenDict):
        if hashable(idx) and idx in base:
            return [(base[idx], st)]
        if is_concrete(idx):
            return [(Raised("KeyError", node), st)]
    if isinstance(base, Ref):
        h = st.obj(base)
        if h.kind == "dict":
            if hashable(idx) and not isinstance(idx, (Text, CharSet, SeqStr)):
                if idx in h.fields:
                    return [(h.fields[idx], st)]
                if h.default is not None:
                    # collections.defaultdict: a missing key is created from the factory
                    out = []
                    for v, s2 in I.call(h.default, [], {}, st, node):
                        if not isinstance(v, Raised):
                            s2.obj(base).fields[idx] = v
                        out.append((v, s2))
                    return out
                return [(Raised("KeyError", node), st)]
            if isinstance(idx, (Text, CharSet, SeqStr)):
                # abstract key: any value or missing
                st.note("dict lookup with abstract key")
                return [(Unknown("dict[abstract]"), st)]
        if h.kind == "list" and h.cls == "textwords":
            return [(h.items[0], st)]
        if h.kind == "obj" and isinstance(idx, int) and not isinstance(idx, bool) and namedtuple_values(I, h) is not None:
            try:
                return [(namedtuple_values(I, h)[idx], st)]
            except IndexError:
                return [(Raised("IndexError", node), st)]
        if h.kind == "list" and isinstance(idx, int) and not isinstance(idx, bool):
            if h.setlike:
                st.note("index into summarised list")
                return [(Unknown("list[i]"), st)]
            try:
                return [(h.items[idx], st)]
            except IndexError:
                return [(Raised("IndexError", node), st)]
    if isinstance(base, Text):
        return [(new_text(base.labels, base.kind + "[i]"), st)]
    if isinstance(base, Opaque):
        hook = I.probes.get("index:*")
        if hook:
            r = hook(I, base, idx, st, node)
            if r is not None:
                return r
        return [(Opaque(base.cls + "[]", base.tag), st)]
    if isinstance(base, ClassV) or isinstance(base, BoundV):
        return [(base, st)]  # typing subscript  list[int] / Final[...]
    st.note(f"index into {type(base).__name__}")
    return [(Unknown("index"), st)]


def slice_(I, base: Any, bounds: tuple, st, node=None) -> list:
    lo, hi, step = bounds
    if isinstance(base, Ref) and st.obj(base).cls == "textwords":
        h = st.obj(base)
        return [(st.alloc(HObj("list", cls="textwords", items=list(h.items), setlike=True)), st)]
    if all(b is None or (isinstance(b, int) and not isinstance(b, bool)) for b in bounds):
        sl = slice(lo, hi, step)
        if isinstance(base, (str, tuple)):
            return [(base[sl], st)]
        if isinstance(base, SeqStr):
            parts = base.parts[sl]
            return [("".join(parts) if all(isinstance(p, str) for p in parts) else SeqStr(tuple(parts)), st)]
        if isinstance(base, Ref) and st.obj(base).kind == "list" and not st.obj(base).setlike:
            return [(st.alloc(HObj("list", items=list(st.obj(base).items[sl]))), st)]
    if isinstance(base, Text):
        return [(new_text(base.labels, base.kind), st)]
    if isinstance(base, Ref) and st.obj(base).kind == "list":
        h = st.obj(base)
        return [(st.alloc(HObj("list", cls=h.cls, items=list(h.items), setlike=True)), st)]
    if isinstance(base, Opaque):
        return [(Opaque(base.cls + "[:]"), st)]
    st.note(f"slice of {type(base).__name__}")
    return [(Unknown("slice"), st)]


def setattr_(I, obj: Any, name: str, val: Any, st) -> list:
    if isinstance(obj, Ref):
        st.obj(obj).fields[name] = val
        return [(None, st)]
    if isinstance(obj, (Opaque, Unknown)):
        hook = I.probes.get("setattr:" + (obj.cls if isinstance(obj, Opaque) else "?"))
        if hook:
            hook(I, obj, name, val, st)
        return [(None, st)]
    st.note(f"attribute store on {type(obj).__name__}")
    return [(None, st)]


def setitem_(I, obj: Any, idx: Any, val: Any, st) -> list:
    if isinstance(idx, slice):  # x[slice(a, b)] = ys  ==  x[a:b] = ys
        items = iter_values(I, val, st)
        if isinstance(obj, Ref) and st.obj(obj).kind == "list" and not st.obj(obj).setlike and items is not None and idx.step is None:
            st.obj(obj).items[idx.start:idx.stop] = list(items)
        else:
            st.note("slice store on abstract list / bounds")
        return [(None, st)]
    if isinstance(obj, Ref):
        h = st.obj(obj)
        if h.kind == "dict":
            if isinstance(idx, Text):
                # summarised dict keyed by abstract text: keep (key, value) pairs as a set
                pairs = h.fields.setdefault("__abstract__", [])
                if not any(_same(idx, k) and _same(val, v) for k, v in pairs):
                    pairs.append((idx, val))
                return [(None, st)]
            if hashable(idx):
                h.fields[idx] = val
                return [(None, st)]
        if h.kind == "list" and isinstance(idx, int) and not h.setlike:
            from .absint import Raised
            try:
                h.items[idx] = val
            except IndexError:
                return [(Raised("IndexError"), st)]
            return [(None, st)]
    if isinstance(obj, (Opaque, Unknown)):
        return [(None, st)]
    st.note(f"item store on {type(obj).__name__}")
    return [(None, st)]


# ----------------------------------------------------------------- attributes
def is_enum(I, ci) -> bool:
    return any(b.split(".")[-1] in ("Enum", "IntEnum", "StrEnum") for b in ci.bases)


def enum_members(I, ci) -> list:
    out = []
    n = 0
    for sub in ci.node.body:
        if isinstance(sub, ast.Assign) and len(sub.targets) == 1 and isinstance(sub.targets[0], ast.Name):
            n += 1
            v = sub.value
            if isinstance(v, ast.Constant):
                val = v.value
            else:
                val = n  # enum.auto()
            out.append(EnumV(ci.qualname, sub.targets[0].id, val))
    return out


def is_dataclass(ci) -> bool:
    return any("dataclass" in ast.unparse(d) for d in ci.node.decorator_list) or any(ast.unparse(b).split(".")[-1] == "NamedTuple" for b in ci.node.bases)


def dataclass_fields(I, ci) -> list:
    """[(name, default expr or None, owner ClassInfo)] in definition order over the MRO."""
    out: list = []
    for c in reversed(I.model.mro(ci)):
        if not is_dataclass(c):
            continue
        for sub in c.node.body:
            if isinstance(sub, ast.AnnAssign) and isinstance(sub.target, ast.Name):
                out = [x for x in out if x[0] != sub.target.id]
                out.append((sub.target.id, sub.value, c))
    return out


def init_dataclass(I, ci, ref: Ref, args: list, kwargs: dict, st) -> list:
    fields = dataclass_fields(I, ci)
    names = [f[0] for f in fields]
    h = st.obj(ref)
    given = dict(zip(names, args))
    given.update(kwargs)
    res = [(None, st)]
    for name, default, owner in fields:
        if name in given:
            def put(_, s, name=name):
                s.obj(ref).fields[name] = given[name]
                return [(None, s)]
            res = I.bind(res, put)
            continue
        if default is None:
            def miss(_, s, name=name):
                s.note(f"missing dataclass argument {name}")
                s.obj(ref).fields[name] = Unknown("missing")
                return [(None, s)]
            res = I.bind(res, miss)
            continue
        def dflt(_, s, name=name, default=default, owner=owner):
            I.ctx_stack.append((owner.module, owner))
            try:
                if isinstance(default, ast.Call) and ast.unparse(default.func).split(".")[-1] == "field":
                    fac = next((k.value for k in default.keywords if k.arg == "default_factory"), None)
                    dv = next((k.value for k in default.keywords if k.arg == "default"), None)
                    if fac is not None:
                        r = I.bind(I.eval(fac, s), lambda fv, s2: I.call(fv, [], {}, s2, default))
                    elif dv is not None:
                        r = I.eval(dv, s)
                    else:
                        r = [(Unknown("field()"), s)]
                else:
                    r = I.eval(default, s)
            finally:
                I.ctx_stack.pop()
            def store(v, s2):
                s2.obj(ref).fields[name] = v
                return [(None, s2)]
            return I.bind(r, store)
        res = I.bind(res, dflt)
    return [(v if v is not None else ref, s) for v, s in res]


def getattr_(I, v: Any, name: str, st, node=None) -> list:
    from .absint import ModuleV

    if isinstance(v, OneOf):
        out = []
        for i, a in enumerate(v.alts):
            s2 = st if i == len(v.alts) - 1 else st.fork()
            if node is not None and isinstance(node, ast.Attribute):
                I.refine(s2, node.value, a)
            out.extend(getattr_(I, a, name, s2, node))
        return out

    if isinstance(v, Ref):
        h = st.obj(v)
        if h.kind == "obj":
            if name in h.fields:
                return [(h.fields[name], st)]
            ci = I.model.classes.get(h.cls)
            if ci is not None:
                m = I.model.find_method(ci, name)
                if m is not None:
                    if any("property" in d for d in m.decorators()):
                        return I.call_func(m.qualname, [v], {}, st, node)
                    if any("staticmethod" in d for d in m.decorators()):
                        return [(FuncV(m.qualname), st)]
                    if any("classmethod" in d for d in m.decorators()):
                        return [(BoundV(ClassV(ci.qualname), name, m.qualname), st)]
                    return [(BoundV(v, name, m.qualname), st)]
                # class-level attribute
                for c in I.model.mro(ci):
                    for sub in c.node.body:
                        if isinstance(sub, ast.Assign) and any(isinstance(t, ast.Name) and t.id == name for t in sub.targets):
                            I.ctx_stack.append((c.module, c))
                            try:
                                return I.eval(sub.value, st)
                            finally:
                                I.ctx_stack.pop()
            if name == "__dict__":
                return [(st.alloc(HObj("dict", fields=dict(h.fields))), st)]
            st.note(f"unknown attribute {name} on {h.cls}")
            return [(Unknown(f"attr {name}"), st)]
        return [(BoundV(v, name), st)]
    if isinstance(v, ModuleV):
        mi = I.model.modules[v.dotted]
        r = I.module_name(mi, name, st)
        if isinstance(r, Unknown):
            sub = f"{v.dotted}.{name}"
            if sub in I.model.modules:
                return [(ModuleV(sub), st)]
        return [(r, st)]
    if isinstance(v, ClassV):
        ci = I.model.classes[v.qualname]
        if is_enum(I, ci):
            for m in enum_members(I, ci):
                if m.member == name:
                    return [(m, st)]
        m = I.model.find_method(ci, name)
        if m is not None:
            if any("classmethod" in d for d in m.decorators()):
                return [(BoundV(v, name, m.qualname), st)]
            return [(FuncV(m.qualname), st)]
        for c in I.model.mro(ci):
            for sub in c.node.body:
                if isinstance(sub, ast.Assign) and any(isinstance(t, ast.Name) and t.id == name for t in sub.targets):
                    return I.eval(sub.value, st)
        hook = I.probes.get("classattr")
        if hook:
            r = hook(I, v, name, st)
            if r is not None:
                return r
        return [(Unknown(f"class attr {name}"), st)]
    if isinstance(v, EnumV):
        if name == "value":
            return [(v.value, st)]
        if name == "name":
            return [(v.member, st)]
        ci = I.model.classes.get(v.cls)
        if ci is not None:
            m = I.model.find_method(ci, name)
            if m is not None:
                if any("property" in d for d in m.decorators()):
                    return I.call_func(m.qualname, [v], {}, st, node)
                return [(BoundV(v, name, m.qualname), st)]
    if isinstance(v, Term):
        return [(BoundV(v, name), st)]
    if isinstance(v, Opaque):
        hook = I.probes.get("getattr:" + v.cls) or I.probes.get("getattr:*")
        if hook:
            r = hook(I, v, name, st, node)
            if r is not None:
                return r
        return [(Opaque(f"{v.cls}.{name}", v.tag), st)]
    if isinstance(v, Unknown):
        return [(Unknown(f"{v.why}.{name}"), st)]
    if v is None:
        from .absint import Raised
        return [(Raised("AttributeError", node, f"None.{name}"), st)]
    return [(BoundV(v, name), st)]


# ----------------------------------------------------------- builtin functions
def atomic_predicate(I, qualname: str, args: list, st) -> list:
    """A pure predicate treated as one fact per argument (decided once per path)."""
    a = args[0] if args else None
    short = qualname.split(".")[-1]
    hook = I.probes.get("atomic:" + short)
    if hook is not None:
        r = hook(I, args, st)
        if r is not None:
            return r
    if isinstance(a, Text):
        key = (a.tid, short)
        if key in st.facts:
            return [(st.facts[key], st)]
        s2 = st.fork()
        st.facts[key] = True
        s2.facts[key] = False
        return [(True, st), (False, s2)]
    st.note(f"atomic predicate {short} on {type(a).__name__}")
    return [(True, st), (False, st.fork())]


def call_builtin(I, fv: BoundV, args: list, kwargs: dict, st, node=None) -> list:
    from .absint import PartialV, Raised

    name, recv = fv.name, fv.recv
    if recv is None:
        fn = globals().get("b_" + name)
        if fn is not None:
            return fn(I, args, kwargs, st, node)
        st.note(f"builtin {name} not modelled")
        return [(Unknown(name), st)]
    # ---- methods
    if isinstance(recv, BoundV) and recv.recv is None:
        fn = globals().get(f"b_{recv.name}_{name}")
        if fn is not None:
            return fn(I, args, kwargs, st, node)
    if isinstance(recv, Opaque) and f"{recv.cls}.{name}" in EXT_CALLS:
        r = EXT_CALLS[f"{recv.cls}.{name}"](I, args, kwargs, st, node)
        if r is not None:
            return r
    if isinstance(recv, str) and name == "translate" and args:
        table = _as_dict(args[0], st)
        if table is not None and all(isinstance(k, int) and (v is None or isinstance(v, (str, int))) for k, v in table.items()):
            return [(recv.translate(table), st)]
    if isinstance(recv, Ref):
        h = st.obj(recv)
        if h.kind == "obj" and name in h.fields and isinstance(h.fields[name], (FuncV, LambdaV, BoundV, PartialV, ClassV, Opaque, Term)):
            # a field that holds a callable:  casters.column(x)
            return I.call(h.fields[name], list(args), dict(kwargs), st, node)
        if h.kind in ("list", "set"):
            if name in ("append", "add"):
                list_extend(h, [args[0]]) if (h.setlike or h.kind == "set") else h.items.append(args[0])
                if h.kind == "set":
                    h.items = dedupe(h.items)
                return [(None, st)]
            if name in ("extend", "update"):
                items = iter_values(I, args[0], st)
                if items is None:
                    st.note("extend with abstract iterable")
                    items = [Unknown("extend")]
                list_extend(h, items) if (h.setlike or h.kind == "set") else h.items.extend(items)
                if h.kind == "set":
                    h.items = dedupe(h.items)
                return [(None, st)]
            if h.kind == "list" and not h.setlike and name == "popleft" and not args:  # collections.deque
                if not h.items:
                    return [(Raised("IndexError", node), st)]
                return [(h.items.pop(0), st)]
            if h.kind == "list" and not h.setlike and name == "appendleft" and len(args) == 1:
                h.items.insert(0, args[0])
                return [(None, st)]
            if name == "pop" and h.cls == "textwords":
                return [(h.items[0], st)]
            if name == "pop":
                if h.setlike:
                    st.note("pop from summarised list")
                    return [(Unknown("pop"), st)]
                idx = args[0] if args else -1
                if not h.items:
                    return [(Raised("IndexError", node), st)]
                if isinstance(idx, int):
                    try:
                        return [(h.items.pop(idx), st)]
                    except IndexError:
                        return [(Raised("IndexError", node), st)]
            if name in ("remove", "discard") and args:
                for i, x in enumerate(h.items):
                    if _same(x, args[0]):
                        del h.items[i]
                        return [(None, st)]
                return [(None, st)] if name == "discard" else [(Raised("ValueError", node), st)]
            if name == "copy":
                return [(st.alloc(h.clone()), st)]
            if name == "clear":
                h.items = []
                return [(None, st)]
            if name == "sort":
                return [(None, st)]
            if name == "index" and args and all(is_concrete(x) for x in h.items):
                try:
                    return [(h.items.index(args[0]), st)]
                except ValueError:
                    return [(Raised("ValueError", node), st)]
        if h.kind == "dict":
            if name == "get":
                k = args[0]
                d = args[1] if len(args) > 1 else kwargs.get("default")
                if not h.fields:
                    return [(d, st)]  # empty map: every key misses
                if hashable(k) and not isinstance(k, (Text, CharSet, SeqStr)):
                    return [(h.fields.get(k, d), st)]
                if isinstance(k, SeqStr) or isinstance(k, (Text, CharSet)):
                    st.note("dict.get with abstract key")
                    return [(Unknown("dict.get"), st)]
            if name == "items":
                return [(tuple((k, v) for k, v in h.fields.items() if k != "__abstract__"), st)]
            if name == "keys":
                return [(tuple(k for k in h.fields if k != "__abstract__"), st)]
            if name == "values":
                return [(tuple(v for k, v in h.fields.items() if k != "__abstract__"), st)]
            if name == "update" and args:
                d = _as_dict(args[0], st)
                if d is not None:
                    dict_merge(h.fields, d)
                    return [(None, st)]
            if name == "setdefault":
                return [(h.fields.setdefault(args[0], args[1] if len(args) > 1 else None), st)]
            if name == "copy":
                return [(st.alloc(h.clone()), st)]
            if name == "pop" and args and hashable(args[0]):
                if args[0] in h.fields:
                    return [(h.fields.pop(args[0]), st)]
                if len(args) > 1:
                    return [(args[1], st)]
                return [(Raised("KeyError", node), st)]
    if isinstance(recv, FrozenDict):
        if name == "get":
            return [(recv.get(args[0], args[1] if len(args) > 1 else None) if hashable(args[0]) else Unknown("get"), st)]
        if name in ("items", "keys", "values"):
            return [(tuple(getattr(recv, name)()), st)]
    if isinstance(recv, str) and all(is_concrete(a) and not isinstance(a, EnumV) for a in list(args) + list(kwargs.values())) and (not kwargs or name in ("splitlines", "split", "rsplit", "encode", "expandtabs")) or (isinstance(recv, str) and name in ("split",) and all(is_concrete(a) for a in list(args) + list(kwargs.values()))):
        if name == "join":
            pass
        elif name == "format":
            pass
        else:
            try:
                r = getattr(recv, name)(*args, **kwargs)
            except AttributeError as e:
                st.note(f"str.{name}: {e}")
                return [(Unknown(name), st)]
            except (TypeError, ValueError) as e:
                # concrete receiver, concrete arguments: the library raises exactly this
                from .absint import Raised

                return [(Raised(type(e).__name__, node, f"str.{name}: {e}"), st)]
            if isinstance(r, list):
                return [(st.alloc(HObj("list", items=r)), st)]
            return [(r, st)]
    if isinstance(recv, str) and name == "format" and I.probes.get("str.format") is not None:
        r = I.probes["str.format"](I, recv, args, kwargs, st, node)
        if r is not None:
            return r
    if isinstance(recv, str) and name == "format" and all(isinstance(a, (str, int)) and not isinstance(a, bool) for a in list(args) + list(kwargs.values())):
        try:
            return [(recv.format(*args, **kwargs), st)]
        except (IndexError, KeyError, ValueError) as e:
            from .absint import Raised

            return [(Raised(type(e).__name__, node, "str.format"), st)]
    if isinstance(recv, str) and name == "join" and args:
        items = iter_values(I, args[0], st)
        if items is not None:
            parts: list = []
            for i, x in enumerate(items):
                if i:
                    parts.append(recv)
                parts.append(x)
            if isinstance(args[0], Ref) and st.obj(args[0]).setlike:
                labels = text_labels(items)
                return [(new_text(labels, "joined"), st)]
            return [(concat_str(I, parts, st), st)]
        if isinstance(args[0], Text):
            return [(new_text(args[0].labels, "joined"), st)]
    if isinstance(recv, Term):
        hook = I.probes.get("method:term")
        if hook is not None:
            r = hook(I, recv, name, args, kwargs, st, node)
            if r is not None:
                return r
        kw = tuple(sorted((k, freeze_term(I, v, st)) for k, v in kwargs.items()))
        return [(Term("." + name, (recv,) + tuple(freeze_term(I, a, st) for a in args) + ((("kw",) + kw,) if kw else ())), st)]
    if isinstance(recv, (SeqStr, CharSet)):
        return str_method_abstract(I, recv, name, args, st)
    if isinstance(recv, Text):
        return text_method(I, recv, name, args, kwargs, st)
    if isinstance(recv, Opaque) and recv.cls == "re.Pattern":
        r = re_pattern_method(I, recv, name, args, kwargs, st, node)
        if r is not None:
            return r
        st.note(f"compiled pattern .{name}() on abstract text")
        return [(Unknown(f"re.{name}"), st)]
    if isinstance(recv, Opaque) and recv.cls == "re.Match":
        r = re_match_method(I, recv, name, args, kwargs, st)
        if r is not None:
            return r
    if isinstance(recv, Opaque):
        hook = I.probes.get("method:" + recv.cls.split(".")[0]) or I.probes.get("method:" + recv.cls) or I.probes.get("method:*")
        if hook:
            r = hook(I, recv, name, args, kwargs, st, node)
            if r is not None:
                return r
        if name == "strftime" and args and isinstance(args[0], str):
            return [(strftime_shape(args[0]), st)]
        return [(Opaque(f"{recv.cls}.{name}()", recv.tag), st)]
    if isinstance(recv, EnumV):
        st.note(f"enum method {name}")
    if isinstance(recv, tuple) and name in ("index", "count"):
        try:
            return [(getattr(recv, name)(*args), st)]
        except ValueError:
            return [(Raised("ValueError", node), st)]
    st.note(f"method {name} on {type(recv).__name__} not modelled")
    return [(Unknown(f".{name}()"), st)]


def strftime_shape(fmt: str) -> Any:
    parts: list = []
    i = 0
    widths = {"Y": 4, "m": 2, "d": 2, "H": 2, "M": 2, "S": 2, "y": 2, "j": 3}
    while i < len(fmt):
        if fmt[i] == "%" and i + 1 < len(fmt):
            w = widths.get(fmt[i + 1])
            if w is None:
                return new_text((), "strftime")
            parts.extend([CharSet(DIGITS)] * w)
            i += 2
        else:
            parts.append(fmt[i])
            i += 1
    return SeqStr(tuple(parts))


def _chars_of(p) -> frozenset:
    return frozenset([p]) if isinstance(p, str) else p.chars


def str_method_abstract(I, recv, name, args, st) -> list:
    parts = recv.parts if isinstance(recv, SeqStr) else (recv,)
    if name in ("isdigit", "isalpha", "isalnum", "islower", "isupper", "isspace"):
        res = set()
        per = []
        for p in parts:
            outcomes = {getattr(c, name)() for c in _chars_of(p)}
            per.append(outcomes)
        if all(o == {True} for o in per) and parts:
            return [(True, st)]
        if any(o == {False} for o in per) or not parts:
            return [(False, st)]
        if isinstance(recv, CharSet):
            return _split(I, recv, lambda c: getattr(c, name)(), st, None)
        return _fork(st)
    if name in ("upper", "lower"):
        new = tuple(getattr(p, name)() if isinstance(p, str) else CharSet(frozenset(getattr(c, name)() for c in p.chars)) for p in parts)
        return [(new[0] if isinstance(recv, CharSet) else SeqStr(new), st)]
    if name in ("startswith", "endswith") and args and isinstance(args[0], str) and isinstance(recv, SeqStr):
        a = args[0]
        seg = parts[: len(a)] if name == "startswith" else parts[len(parts) - len(a):]
        if len(a) > len(parts):
            return [(False, st)]
        poss = all(c in _chars_of(p) for p, c in zip(seg, a))
        cert = all(isinstance(p, str) and p == c for p, c in zip(seg, a))
        return [(True, st)] if cert else ([(False, st)] if not poss else _fork(st))
    if name == "partition" and args and isinstance(args[0], str) and len(args[0]) == 1 and isinstance(recv, SeqStr):
        sep = args[0]
        for i, p in enumerate(parts):
            cs = _chars_of(p)
            if cs == {sep}:
                mk = lambda ps: "".join(ps) if all(isinstance(x, str) for x in ps) else SeqStr(tuple(ps))
                return [((mk(parts[:i]), sep, mk(parts[i + 1:])), st)]
            if sep in cs:
                st.note("partition on uncertain separator position")
                return [(Unknown("partition"), st)]
        return [((recv, "", ""), st)]
    if name == "split" and args and isinstance(args[0], str) and len(args[0]) == 1 and isinstance(recv, SeqStr):
        sep = args[0]
        out, cur = [], []
        for p in parts:
            cs = _chars_of(p)
            if cs == {sep}:
                out.append(cur)
                cur = []
            elif sep in cs:
                st.note("split on uncertain separator position")
                return [(Unknown("split"), st)]
            else:
                cur.append(p)
        out.append(cur)
        mk = lambda ps: "".join(ps) if all(isinstance(x, str) for x in ps) else SeqStr(tuple(ps))
        return [(st.alloc(HObj("list", items=[mk(x) for x in out])), st)]
    if name in ("strip", "lstrip", "rstrip") and not args:
        if all(not any(c.isspace() for c in _chars_of(p)) for p in parts):
            return [(recv, st)]
    if name in ("strip", "lstrip", "rstrip") and len(args) == 1 and isinstance(args[0], str) and isinstance(recv, SeqStr):
        ps = list(parts)
        drop = set(args[0])

        def eat(from_end: bool) -> bool:
            while ps:
                cs = _chars_of(ps[-1] if from_end else ps[0])
                if cs <= drop:
                    ps.pop() if from_end else ps.pop(0)
                elif not (cs & drop):
                    return True
                else:
                    return False
            return True

        ok = (eat(True) if name in ("strip", "rstrip") else True) and (eat(False) if name in ("strip", "lstrip") else True)
        if ok:
            return [("".join(ps) if all(isinstance(x, str) for x in ps) else SeqStr(tuple(ps)), st)]
        st.note(f"str.{name}({args[0]!r}) on a string whose end may or may not be stripped")
        return [(Unknown(name), st)]
    if name == "replace" and len(args) == 2 and isinstance(args[0], str) and len(args[0]) == 1 and isinstance(args[1], str):
        a, b = args
        out: list = []
        for p in parts:
            cs = _chars_of(p)
            if cs == {a}:
                out.extend(b)
            elif a in cs:
                st.note("replace on uncertain character position")
                return [(Unknown("replace"), st)]
            else:
                out.append(p)
        return [("".join(out) if all(isinstance(x, str) for x in out) else SeqStr(tuple(out)), st)]
    if name in ("ljust", "rjust", "zfill") and args and isinstance(args[0], int) and (name == "zfill" or len(args) == 1 or (isinstance(args[1], str) and len(args[1]) == 1)):
        fill = "0" if name == "zfill" else (args[1] if len(args) > 1 else " ")
        pad = (fill,) * max(0, args[0] - len(parts))
        new = (tuple(parts) + pad) if name == "ljust" else (pad + tuple(parts))
        return [("".join(new) if all(isinstance(x, str) for x in new) else SeqStr(tuple(new)), st)]
    if name == "translate" and args:
        table = _as_dict(args[0], st) if isinstance(args[0], Ref) else (dict(args[0]) if isinstance(args[0], FrozenDict) else None)
        if table is not None and all(isinstance(k, int) for k in table):
            out2: list = []
            for p in parts:
                cs = _chars_of(p)
                hit = [c for c in cs if ord(c) in table]
                if not hit:
                    out2.append(p)
                elif len(cs) == 1:
                    r = table[ord(next(iter(cs)))]
                    out2.extend(r if isinstance(r, str) else ([] if r is None else [chr(r)]))
                else:
                    st.note("translate on uncertain character")
                    return [(Unknown("translate"), st)]
            return [("".join(out2) if all(isinstance(x, str) for x in out2) else SeqStr(tuple(out2)), st)]
    st.note(f"str.{name} on abstract string not modelled")
    return [(Unknown(f"str.{name}"), st)]


def text_method(I, t: Text, name: str, args: list, kwargs: dict, st) -> list:
    if name in ("strip", "lstrip", "rstrip", "lower", "upper", "title", "replace", "format", "removeprefix", "removesuffix", "rstrip", "translate", "casefold", "ljust", "rjust"):
        nt = new_text(t.labels | text_labels(list(args)), t.kind)
        st.meta.setdefault("derived", {})[nt.tid] = (t.tid, name, tuple(a if is_concrete(a) else repr(a) for a in args))
        return [(nt, st)]
    if name in ("split", "splitlines", "rsplit"):
        return [(st.alloc(HObj("list", cls="textwords", items=[new_text(t.labels, t.kind)], setlike=True)), st)]
    if name in ("startswith", "endswith", "isdigit", "isalpha", "isalnum", "islower", "isupper"):
        key = (t.tid, name, tuple(a if is_concrete(a) else repr(a) for a in args))
        if key in st.facts:
            return [(st.facts[key], st)]
        s2 = st.fork()
        st.facts[key] = True
        s2.facts[key] = False
        return [(True, st), (False, s2)]
    if name == "find":
        return [(Unknown("find"), st)]
    if name == "partition":
        return [((new_text(t.labels, t.kind), Unknown("sep"), new_text(t.labels, t.kind)), st)]
    st.note(f"text method {name}")
    return [(Unknown(f"text.{name}"), st)]


def b_len(I, args, kwargs, st, node):
    v = args[0]
    if isinstance(v, (str, tuple, list, frozenset, SeqStr, FrozenDict, range)):
        return [(len(v), st)]
    if isinstance(v, CharSet):
        return [(1, st)]
    if isinstance(v, Ref):
        h = st.obj(v)
        if h.cls == "textwords":
            return [(Unknown("len:textwords"), st)]
        if h.kind in ("list", "set") and not h.setlike:
            return [(len(h.items), st)]
        if h.kind == "dict" and "__abstract__" not in h.fields:
            return [(len(h.fields), st)]
    if isinstance(v, Text):
        hook = I.probes.get("len:text")
        if hook:
            r = hook(I, v, st)
            if r is not None:
                return r
    st.note(f"len of {type(v).__name__}")
    return [(Unknown("len"), st)]


def b_vars(I, args, kwargs, st, node):
    """vars(obj) for a heap object: its fields in definition order (a snapshot: stores through the result are not modelled)."""
    if len(args) == 1 and isinstance(args[0], Ref) and st.obj(args[0]).kind == "obj":
        return [(st.alloc(HObj("dict", cls="vars-snapshot", fields=dict(st.obj(args[0]).fields))), st)]
    st.note("vars() of a non-object")
    return [(Unknown("vars"), st)]


def b_slice(I, args, kwargs, st, node):
    if 1 <= len(args) <= 3 and not kwargs and all(a is None or (isinstance(a, int) and not isinstance(a, bool)) for a in args):
        return [(slice(*args), st)]
    st.note("slice() with abstract bounds")
    return [(Unknown("slice"), st)]


def b_abs(I, args, kwargs, st, node):
    v = args[0]
    if isinstance(v, int):
        return [(abs(v), st)]
    if isinstance(v, IntSet):
        return [(IntSet(frozenset(abs(x) for x in v.values)), st)]
    return [(Unknown("abs"), st)]


def b_chr(I, args, kwargs, st, node):
    v = args[0]
    if isinstance(v, int):
        return [(chr(v), st)]
    if isinstance(v, IntSet):
        return [(CharSet(frozenset(chr(x) for x in v.values)), st)]
    return [(Unknown("chr"), st)]


def b_ord(I, args, kwargs, st, node):
    v = args[0]
    if isinstance(v, str) and len(v) == 1:
        return [(ord(v), st)]
    if isinstance(v, CharSet):
        return [(IntSet(frozenset(ord(c) for c in v.chars)), st)]
    return [(Unknown("ord"), st)]


def b_str(I, args, kwargs, st, node):
    v = args[0] if args else ""
    if isinstance(v, (str, SeqStr, CharSet, Text)):
        return [(v, st)]
    if isinstance(v, int) and not isinstance(v, bool):
        return [(str(v), st)]
    if isinstance(v, Opaque):
        hook = I.probes.get("str")
        if hook is not None:
            r = hook(I, v, st)
            if r is not None:
                return [(r, st)]
        return [(new_text((), "str(" + v.cls + ")"), st)]
    if isinstance(v, Term) and v.head.split(".")[-1] in ("Path", "PurePath", "PosixPath") and len(v.args) == 1 and isinstance(v.args[0], str) \
            and "/" not in v.args[0] and v.args[0] not in ("", "."):
        return [(v.args[0], st)]  # str(Path(name)) == name for a plain, already normal name
    return [(Unknown("str"), st)]


def b_repr(I, args, kwargs, st, node):
    return [(Unknown("repr"), st)]


def b_int(I, args, kwargs, st, node):
    from .absint import Raised

    v = args[0]
    if isinstance(v, str):
        try:
            return [(int(v), st)]
        except ValueError:
            return [(Raised("ValueError", node), st)]
    if isinstance(v, int):
        return [(int(v), st)]
    if isinstance(v, CharSet) and all(c.isdigit() for c in v.chars):
        return [(IntSet(frozenset(int(c) for c in v.chars)), st)]
    if isinstance(v, SeqStr) and all(all(c.isdigit() for c in _chars_of(p)) for p in v.parts) and len(v.parts) <= 2:
        vals = {""}
        for p in v.parts:
            vals = {a + c for a in vals for c in _chars_of(p)}
        return [(IntSet(frozenset(int(x) for x in vals)), st)]
    st.note(f"int() of {type(v).__name__}")
    return [(Unknown("int"), st)]


def b_bool(I, args, kwargs, st, node):
    out = []
    for t, s in I.truth_fork(args[0], st):
        out.append((t, s))
    return out


def _all_any(I, args, st, want_all: bool):
    items = iter_values(I, args[0], st)
    if items is None:
        return _fork(st)
    states = [st]
    out = []
    for it in items:
        nxt = []
        for s in states:
            for t, s2 in I.truth_fork(it, s):
                if t == want_all:
                    nxt.append(s2)
                else:
                    out.append((not want_all, s2))
        states = nxt
    out.extend((want_all, s) for s in states)
    return out


def b_all(I, args, kwargs, st, node):
    return _all_any(I, args, st, True)


def b_any(I, args, kwargs, st, node):
    return _all_any(I, args, st, False)


def _orderable(k: Any) -> bool:
    """str / int / tuples of those: values Python orders the way the interpreter would."""
    if isinstance(k, bool):
        return False
    if isinstance(k, (str, int)):
        return True
    if isinstance(k, Opaque) and k.cls == "vpath":
        return True  # pathlib orders paths by their parts; for the scenario paths (same depth conventions) that is the order of their text
    return isinstance(k, tuple) and all(_orderable(x) for x in k)


def _ord(k: Any) -> Any:
    if isinstance(k, Opaque):
        return tuple(k.tag.split("/"))
    if isinstance(k, tuple):
        return tuple(_ord(x) for x in k)
    return k


def _ext_itemgetter(I, args, kwargs, st, node):
    """operator.itemgetter(i[, j...]) on constant indices: a closure over index_."""
    if not args or not all(isinstance(a, (int, str)) for a in args):
        st.note("itemgetter of abstract index")
        return [(Unknown("itemgetter"), st)]
    from .absval import LambdaV

    body = f"__o[{args[0]!r}]" if len(args) == 1 else "(" + ", ".join(f"__o[{a!r}]" for a in args) + ")"
    return [(LambdaV(ast.parse(f"lambda __o: {body}", mode="eval").body, {}, None), st)]


def b_sorted(I, args, kwargs, st, node):
    items = iter_values(I, args[0], st)
    if items is None:
        st.note("sorted() of an abstract iterable")
        return [(Unknown("sorted"), st)]
    if kwargs.get("key") is not None and items:
        keyed = st.alloc(HObj("list"))

        def step(it, k, s):
            s.obj(keyed).items.append((k, it))
            return [(None, s)]

        out = []
        for _, s in _hof(I, kwargs["key"], list(items), st, step):
            pairs = s.obj(keyed).items
            order = None
            if all(_orderable(k) for k, _ in pairs):
                try:
                    order = sorted(range(len(pairs)), key=lambda i: _ord(pairs[i][0]), reverse=bool(kwargs.get("reverse")))
                except TypeError:
                    order = None
            if order is not None:
                out.append((s.alloc(HObj("list", items=[pairs[i][1] for i in order])), s))
            else:
                if len(pairs) > 1:
                    s.note("sorted(): keys that cannot be ordered here (result order unknown)")
                out.append((s.alloc(HObj("list", items=[it for _, it in pairs], setlike=len(pairs) > 1)), s))
        return out
    if all(_orderable(x) for x in items) and kwargs.get("key") is None:
        try:
            return [(st.alloc(HObj("list", items=sorted(items, key=_ord, reverse=bool(kwargs.get("reverse"))))), st)]
        except TypeError:
            pass
    setlike = isinstance(args[0], Ref) and (st.obj(args[0]).setlike or st.obj(args[0]).kind == "set")
    return [(st.alloc(HObj("list", items=list(items), setlike=True if setlike or len(items) > 1 else False)), st)]


def b_set(I, args, kwargs, st, node):
    if not args:
        return [(st.alloc(HObj("set")), st)]
    items = iter_values(I, args[0], st)
    if items is None:
        return [(Unknown("set"), st)]
    return [(st.alloc(HObj("set", items=dedupe(items))), st)]


b_frozenset = b_set


def b_list(I, args, kwargs, st, node):
    if not args:
        return [(st.alloc(HObj("list")), st)]
    items = iter_values(I, args[0], st)
    if items is None:
        return [(Unknown("list"), st)]
    setlike = isinstance(args[0], Ref) and st.obj(args[0]).setlike
    return [(st.alloc(HObj("list", items=list(items), setlike=setlike)), st)]


def b_tuple(I, args, kwargs, st, node):
    if not args:
        return [((), st)]
    items = iter_values(I, args[0], st)
    if items is None:
        return [(Unknown("tuple"), st)]
    return [(tuple(items), st)]


def b_dict(I, args, kwargs, st, node):
    d: dict = {}
    if args:
        src = _as_dict(args[0], st)
        if src is None:
            items = iter_values(I, args[0], st)
            if items is None:
                return [(Unknown("dict"), st)]
            for it in items:
                if isinstance(it, tuple) and len(it) == 2 and hashable(it[0]):
                    d[it[0]] = it[1]
        else:
            d.update(src)
    d.update(kwargs)
    return [(st.alloc(HObj("dict", fields=d)), st)]


def b_range(I, args, kwargs, st, node):
    if all(isinstance(a, int) for a in args):
        return [(tuple(range(*args)), st)]
    return [(Unknown("range"), st)]


def b_enumerate(I, args, kwargs, st, node):
    items = iter_values(I, args[0], st)
    if items is None:
        return [(Unknown("enumerate"), st)]
    start = args[1] if len(args) > 1 else kwargs.get("start", 0)
    return [(tuple((i + start, x) for i, x in enumerate(items)), st)]


def b_zip(I, args, kwargs, st, node):
    its = [iter_values(I, a, st, allow_truncated=True) for a in args]
    if any(i is None for i in its):
        st.note("zip over abstract iterable")
        return [(Unknown("zip"), st)]
    finite = [len(i) for a, i in zip(args, its) if not is_truncated(a, st)]
    if not finite or any(is_truncated(a, st) and len(i) < min(finite) for a, i in zip(args, its)):
        st.note("zip of infinite iterators only / beyond the modelled prefix")
        return [(Unknown("zip"), st)]
    return [(tuple(zip(*its)), st)]


def b_reversed(I, args, kwargs, st, node):
    items = iter_values(I, args[0], st)
    return [(tuple(reversed(items)) if items is not None else Unknown("reversed"), st)]


def b_isinstance(I, args, kwargs, st, node):
    v, c = args
    classes = c if isinstance(c, tuple) else (c,)
    if isinstance(v, Ref) and st.obj(v).kind == "obj":
        ci = I.model.classes.get(st.obj(v).cls)
        if ci is not None and all(isinstance(x, ClassV) for x in classes):
            mro = {k.qualname for k in I.model.mro(ci)}
            return [(any(x.qualname in mro for x in classes), st)]
    if isinstance(v, Ref) and st.obj(v).kind in ("list", "dict", "set"):
        names = {x.name if isinstance(x, BoundV) else "" for x in classes}
        return [(st.obj(v).kind in names, st)]
    if isinstance(v, Opaque) and all(isinstance(x, ClassV) for x in classes):
        ci = I.model.classes.get(v.cls)
        if ci is not None:
            mro = {k.qualname for k in I.model.mro(ci)}
            return [(any(x.qualname in mro for x in classes), st)]
    if isinstance(v, EnumV) and all(isinstance(x, ClassV) for x in classes):
        return [(any(x.qualname == v.cls for x in classes), st)]
    if isinstance(v, (str, SeqStr, Text, CharSet)):
        return [(any(isinstance(x, BoundV) and x.name == "str" for x in classes), st)]
    return _fork(st)


def _extreme(I, args, kwargs, st, node, want_max: bool):
    from .absint import Raised

    vals = list(args) if len(args) > 1 else iter_values(I, args[0], st)
    if vals is not None and not vals and len(args) == 1 and set(kwargs) <= {"default"}:
        if "default" in kwargs:
            return [(kwargs["default"], st)]
        return [(Raised("ValueError", node, "max()/min() of an empty sequence"), st)]
    if "default" in kwargs and len(args) == 1 and vals:
        kwargs = {k: v for k, v in kwargs.items() if k != "default"}
    homogeneous = vals and (all(isinstance(x, int) and not isinstance(x, bool) for x in vals) or all(isinstance(x, str) for x in vals))
    if homogeneous and not kwargs and not (len(args) == 1 and isinstance(args[0], Ref) and st.obj(args[0]).setlike):
        return [((max if want_max else min)(vals), st)]
    hook = I.probes.get("compare")
    if vals and hook is not None and not kwargs and all(isinstance(x, Opaque) for x in vals):
        best = vals[0]
        for x in vals[1:]:
            gt = hook(I, ast.Gt(), x, best, st)
            if not isinstance(gt, bool):
                break
            if gt == want_max:
                best = x
        else:
            return [(best, st)]
    st.note(f"{'max' if want_max else 'min'}() of abstract values")
    return [(Unknown("max" if want_max else "min"), st)]


def b_min(I, args, kwargs, st, node):
    return _extreme(I, args, kwargs, st, node, False)


def b_max(I, args, kwargs, st, node):
    return _extreme(I, args, kwargs, st, node, True)


def b_sum(I, args, kwargs, st, node):
    items = iter_values(I, args[0], st) if args else None
    start = args[1] if len(args) > 1 else kwargs.get("start", 0)
    if items is not None and isinstance(start, (int, float)) and all(isinstance(x, (int, float)) for x in items) \
            and not (isinstance(args[0], Ref) and st.obj(args[0]).setlike):
        return [(sum(items, start), st)]
    st.note("sum over abstract values")
    return [(Unknown("sum"), st)]


def b_print(I, args, kwargs, st, node):
    hook = I.probes.get("print")
    if hook is not None:
        hook(I, args, kwargs, st, node)
    return [(None, st)]


def b_getattr(I, args, kwargs, st, node):
    obj, name = args[0], args[1]
    if isinstance(name, str):
        res = getattr_(I, obj, name, st, node)
        if len(args) > 2:
            res = [(args[2] if isinstance(v, Unknown) else v, s) for v, s in res]
        return res
    st.note("getattr with abstract name")
    return [(Unknown("getattr"), st)]


def b_setattr(I, args, kwargs, st, node):
    if isinstance(args[1], str):
        return setattr_(I, args[0], args[1], args[2], st)
    st.note("setattr with abstract name")
    return [(None, st)]


def b_hasattr(I, args, kwargs, st, node):
    return _fork(st)


def b_cast(I, args, kwargs, st, node):
    return [(args[1], st)]


def b_partial(I, args, kwargs, st, node):
    from .absint import PartialV

    return [(PartialV(args[0], tuple(args[1:]), tuple(kwargs.items())), st)]


def b_assert_never(I, args, kwargs, st, node):
    from .absint import Raised

    return [(Raised("AssertionError", node, "assert_never"), st)]


def b_iter(I, args, kwargs, st, node):
    return [(args[0], st)]


def b_next(I, args, kwargs, st, node):
    from .absint import Raised

    items = iter_values(I, args[0], st, allow_truncated=True) if args else None
    if items is None:
        st.note("next() of an abstract iterator")
        return [(Unknown("next"), st)]
    if not items and is_truncated(args[0], st):
        st.note(f"no element among the first {LAZY_PREFIX} of an infinite iterator")
        return [(Unknown("next"), st)]
    if items:
        # iterators are materialised lists: next() consumes the head
        if isinstance(args[0], Ref) and st.obj(args[0]).kind == "list":
            st.obj(args[0]).items = list(items[1:])
        return [(items[0], st)]
    if len(args) > 1:
        return [(args[1], st)]
    return [(Raised("StopIteration", node), st)]


def b_type(I, args, kwargs, st, node):
    v = args[0]
    if isinstance(v, Ref) and st.obj(v).kind == "obj":
        return [(ClassV(st.obj(v).cls), st)]
    if isinstance(v, Opaque) and v.cls in I.model.classes:
        return [(ClassV(v.cls), st)]
    return [(Unknown("type"), st)]


def b_field(I, args, kwargs, st, node):
    return [(Unknown("field"), st)]


def b_replace(I, args, kwargs, st, node):
    """dataclasses.replace(obj, **changes)"""
    v = args[0]
    if isinstance(v, Ref) and st.obj(v).kind == "obj":
        h = st.obj(v).clone()
        h.fields.update(kwargs)
        return [(st.alloc(h), st)]
    return [(Opaque("replace"), st)]


def _hof(I, fn, items: list, st, step) -> list:
    """Fold `step(acc_state, item, fn_result)` over items, forking with the interpreter; acc lives in the state (a heap list)."""
    res = [(None, st)]
    for it in items:
        def one(_, s, it=it):
            return I.bind(I.call(fn, [it], {}, s), lambda v, s2, it=it: step(it, v, s2))
        res = I.bind(res, one)
    return res


def b_filter(I, args, kwargs, st, node):
    fn, items = args[0], iter_values(I, args[1], st, allow_truncated=True) if len(args) > 1 else None
    if items is None:
        st.note("filter over abstract iterable")
        return [(Unknown("filter"), st)]
    out = st.alloc(HObj("list", cls=TRUNCATED if is_truncated(args[1], st) else ""))

    def step(it, v, s):
        def keep(b, s2):
            if b:
                s2.obj(out).items.append(it)
            return [(None, s2)]
        return [r for b, s2 in I.truth_fork(v, s) for r in keep(b, s2)]

    if fn is None:
        st.obj(out).items = [x for x in items if truth(I, x, st)]
        return [(out, st)]
    return [(out, s) for _, s in _hof(I, fn, items, st, step)]


def b_map(I, args, kwargs, st, node):
    fn, items = args[0], iter_values(I, args[1], st, allow_truncated=True) if len(args) == 2 else None
    if items is None:
        st.note("map over abstract iterable / several iterables")
        return [(Unknown("map"), st)]
    out = st.alloc(HObj("list", cls=TRUNCATED if is_truncated(args[1], st) else ""))

    def step(it, v, s):
        s.obj(out).items.append(v)
        return [(None, s)]

    return [(out, s) for _, s in _hof(I, fn, items, st, step)]


def _ext_takewhile(I, args, kwargs, st, node, drop=False):
    trunc = len(args) > 1 and is_truncated(args[1], st)
    fn, items = args[0], iter_values(I, args[1], st, allow_truncated=True) if len(args) > 1 else None
    if items is None:
        st.note("takewhile/dropwhile over abstract iterable")
        return [(Unknown("takewhile"), st)]
    out = st.alloc(HObj("list", cls=TRUNCATED if (trunc and drop) else ""))
    flag = st.alloc(HObj("list", items=[True]))  # still in the leading run

    def step(it, v, s):
        res = []
        if not s.obj(flag).items[0]:
            if drop:
                s.obj(out).items.append(it)
            return [(None, s)]
        for b, s2 in I.truth_fork(v, s):
            if b:
                if not drop:
                    s2.obj(out).items.append(it)
            else:
                s2.obj(flag).items[0] = False
                if drop:
                    s2.obj(out).items.append(it)
            res.append((None, s2))
        return res

    # the predicate must not be evaluated after the run ended: emulate by short-circuiting inside step
    res = [(None, st)]
    for it in items:
        def one(_, s, it=it):
            if not s.obj(flag).items[0]:
                return step(it, None, s)
            return I.bind(I.call(fn, [it], {}, s), lambda v, s2, it=it: step(it, v, s2))
        res = I.bind(res, one)
    if trunc:
        for _, s in res:
            if s.obj(flag).items[0]:
                s.note("takewhile/dropwhile: the leading run does not end within the modelled prefix of an infinite iterator")
    return [(out, s) for _, s in res]


def _ext_dropwhile(I, args, kwargs, st, node):
    return _ext_takewhile(I, args, kwargs, st, node, drop=True)


def _ext_islice(I, args, kwargs, st, node):
    items = iter_values(I, args[0], st, allow_truncated=True) if args else None
    if items is None or not all(a is None or isinstance(a, int) for a in args[1:]):
        st.note("islice over abstract iterable / bounds")
        return [(Unknown("islice"), st)]
    if is_truncated(args[0], st):
        sl = slice(*args[1:])
        if sl.stop is None or sl.stop > len(items):
            st.note("islice of an infinite iterator beyond the modelled prefix")
            return [(Unknown("islice"), st)]
    return [(st.alloc(HObj("list", items=list(items)[slice(*args[1:])])), st)]


def _ext_groupby(I, args, kwargs, st, node):
    items = iter_values(I, args[0], st) if args else None
    key = kwargs.get("key", args[1] if len(args) > 1 else None)
    if items is None:
        st.note("groupby over abstract iterable")
        return [(Unknown("groupby"), st)]
    out = st.alloc(HObj("list"))

    def step(it, k, s):
        groups = s.obj(out).items
        if groups and _same(groups[-1][0], k):
            s.obj(groups[-1][1]).items.append(it)
        else:
            if groups and not (is_concrete(k) and is_concrete(groups[-1][0])):
                s.note("groupby: equality of abstract keys")
            groups.append((k, s.alloc(HObj("list", items=[it]))))
        return [(None, s)]

    if key is None:
        res = [(None, st)]
        for it in items:
            res = I.bind(res, lambda _, s, it=it: step(it, it, s))
        return [(out, s) for _, s in res]
    return [(out, s) for _, s in _hof(I, key, items, st, step)]


def _ext_reduce(I, args, kwargs, st, node):
    from .absint import Raised

    fn = args[0]
    items = iter_values(I, args[1], st) if len(args) > 1 else None
    if items is None:
        st.note("reduce over abstract iterable")
        return [(Unknown("reduce"), st)]
    items = list(items)
    if len(args) > 2:
        acc = args[2]
    elif items:
        acc = items.pop(0)
    else:
        return [(Raised("TypeError", node), st)]
    res = [(acc, st)]
    for it in items:
        res = I.bind(res, lambda a, s, it=it: I.call(fn, [a, it], {}, s))
    return res


def b_str_maketrans(I, args, kwargs, st, node):
    if len(args) == 1:
        d = _as_dict(args[0], st)
        if d is not None and all(isinstance(k, (str, int)) for k in d):
            return [(st.alloc(HObj("dict", fields={(ord(k) if isinstance(k, str) else k): v for k, v in d.items()})), st)]
    if len(args) >= 2 and all(isinstance(a, str) for a in args):
        return [(st.alloc(HObj("dict", fields=dict(str.maketrans(*args)))), st)]
    st.note("str.maketrans with abstract arguments")
    return [(Unknown("maketrans"), st)]


def b_dict_fromkeys(I, args, kwargs, st, node):
    items = iter_values(I, args[0], st) if args else None
    if items is None or not all(hashable(k) for k in items):
        st.note("dict.fromkeys over abstract iterable")
        return [(Unknown("fromkeys"), st)]
    return [(st.alloc(HObj("dict", fields={k: (args[1] if len(args) > 1 else None) for k in items})), st)]


def _ext_chain(I, args, kwargs, st, node):
    out: list = []
    for a in args:
        items = iter_values(I, a, st)
        if items is None:
            st.note("itertools.chain over abstract iterable")
            out.append(Unknown("chain"))
        else:
            out.extend(items)
    return [(st.alloc(HObj("list", items=out)), st)]


def _ext_chain_from_iterable(I, args, kwargs, st, node):
    outer = iter_values(I, args[0], st) if args else None
    if outer is None:
        st.note("itertools.chain.from_iterable over abstract iterable")
        return [(Unknown("chain"), st)]
    return _ext_chain(I, list(outer), kwargs, st, node)


def _ext_attrgetter(I, args, kwargs, st, node):
    from .absval import LambdaV

    if len(args) == 1 and isinstance(args[0], str) and args[0].isidentifier():
        lam = ast.parse(f"lambda __o: __o.{args[0]}", mode="eval").body
        return [(LambdaV(lam, {}, None), st)]
    st.note("operator.attrgetter with several / dotted names")
    return [(Unknown("attrgetter"), st)]


def _ext_count(I, args, kwargs, st, node):
    """itertools.count(start=0, step=1): the first LAZY_PREFIX values, marked as the prefix of an infinite iterator."""
    start = args[0] if args else kwargs.get("start", 0)
    step = args[1] if len(args) > 1 else kwargs.get("step", 1)
    if isinstance(start, int) and isinstance(step, int) and not isinstance(start, bool):
        return [(st.alloc(HObj("list", cls=TRUNCATED, items=[start + i * step for i in range(LAZY_PREFIX)])), st)]
    st.note("itertools.count with abstract start / step")
    return [(Unknown("count"), st)]


def _ext_methodcaller(I, args, kwargs, st, node):
    """operator.methodcaller(name, *a, **kw)(obj) == obj.name(*a, **kw)   (constant arguments only)."""
    from .absval import LambdaV

    if args and isinstance(args[0], str) and args[0].isidentifier() and all(is_concrete(a) and not isinstance(a, EnumV) for a in list(args[1:]) + list(kwargs.values())):
        extra = ", ".join([repr(a) for a in args[1:]] + [f"{k}={v!r}" for k, v in kwargs.items()])
        lam = ast.parse(f"lambda __o: __o.{args[0]}({extra})", mode="eval").body
        return [(LambdaV(lam, {}, None), st)]
    st.note("operator.methodcaller with abstract arguments")
    return [(Unknown("methodcaller"), st)]


def _ext_newtype(I, args, kwargs, st, node):
    """typing.NewType(name, tp) is the identity function at run time."""
    from .absval import LambdaV

    return [(LambdaV(ast.parse("lambda __x: __x", mode="eval").body, {}, None), st)]


def _ext_not(I, args, kwargs, st, node):
    """operator.not_(x) == not x."""
    if len(args) != 1:
        return None
    out = []
    for t, s2 in I.truth_fork(args[0], st, None):
        out.append((not t, s2))
    return out


def _ext_truth(I, args, kwargs, st, node):
    if len(args) != 1:
        return None
    return [(t, s2) for t, s2 in I.truth_fork(args[0], st, None)]


def _ext_re_findall(I, args, kwargs, st, node):
    """re.findall on two constant strings is a library fact; on anything abstract it is not modelled."""
    import re as _re

    if len(args) >= 2 and isinstance(args[0], str) and isinstance(args[1], str) and not kwargs and len(args) == 2:
        try:
            found = _re.findall(args[0], args[1])
        except _re.error:
            st.note("re.findall: invalid pattern")
            return [(Unknown("findall"), st)]
        return [(st.alloc(HObj("list", items=[x if isinstance(x, str) else tuple(x) for x in found])), st)]
    st.note("re.findall on abstract text")
    return [(Unknown("findall"), st)]


def _re_const(kind: str):
    """re.match / re.search / re.fullmatch of a CONSTANT pattern on a CONSTANT string: a library fact (None or a match whose groups are constants)."""

    def f(I, args, kwargs, st, node):
        import re as _re

        if len(args) in (2, 3) and all(isinstance(a, str) for a in args[:2]) and all(isinstance(a, int) for a in args[2:]) and not kwargs:
            try:
                m = getattr(_re, kind)(*args)
            except _re.error:
                st.note(f"re.{kind}: invalid pattern")
                return [(Unknown(kind), st)]
            if m is None:
                return [(None, st)]
            return [(Opaque("re.Match", repr((kind,) + tuple(args))), st)]
        return None  # abstract operands: fall back to the generic treatment of library calls

    return f


def _ext_re_escape(I, args, kwargs, st, node):
    import re as _re

    if len(args) == 1 and isinstance(args[0], str) and not kwargs:
        return [(_re.escape(args[0]), st)]
    return None


def _re_sub_const(kind: str):
    """re.sub / re.subn(pattern, repl, string[, count]) on constants with a string replacement: a library fact."""

    def f(I, args, kwargs, st, node):
        import re as _re

        if 3 <= len(args) <= 4 and all(isinstance(a, str) for a in args[:3]) and all(isinstance(a, int) for a in args[3:]) and not kwargs:
            try:
                r = getattr(_re, kind)(*args)
            except (_re.error, IndexError):
                st.note(f"re.{kind}: invalid pattern / replacement")
                return [(Unknown(kind), st)]
            return [(r, st)]
        if 3 <= len(args) <= 4 and isinstance(args[0], str) and isinstance(args[2], str) and all(isinstance(a, int) for a in args[3:]) and not kwargs \
                and isinstance(args[1], (FuncV, LambdaV, BoundV)):
            # a replacement FUNCTION, interpreted once per (library-computed) match of the constant pattern in the constant text
            class _Abstract(Exception):
                pass

            def repl(m):
                mo = Opaque("re.Match", repr(("at", args[0], args[2], m.start())))
                r = I.call(args[1], [mo], {}, st, node)
                if len(r) != 1 or not isinstance(r[0][0], str) or r[0][1] is not st:
                    raise _Abstract()
                return r[0][0]

            try:
                out = getattr(_re, kind)(args[0], repl, args[2], *args[3:])
            except _Abstract:
                st.note(f"re.{kind}: the replacement function does not evaluate to one constant string per match")
                return [(Unknown(kind), st)]
            except _re.error:
                st.note(f"re.{kind}: invalid pattern")
                return [(Unknown(kind), st)]
            return [(out, st)]
        return None

    return f


def _ext_re_compile(I, args, kwargs, st, node):
    if len(args) in (1, 2) and isinstance(args[0], str) and all(isinstance(a, int) for a in args[1:]) and not kwargs:
        return [(Opaque("re.Pattern", repr(tuple(args))), st)]
    return None


def re_pattern_method(I, recv, name, args, kwargs, st, node):
    """pattern.match(s) / .search / .fullmatch / .findall / .sub on constants == the module-level function with the pattern's constants."""
    spec = eval(recv.tag, {"__builtins__": {}})  # repr written by _ext_re_compile
    if len(spec) == 1 and name in ("match", "search", "fullmatch") and len(args) == 1:
        return _re_const(name)(I, [spec[0]] + list(args), kwargs, st, node)
    if len(spec) == 1 and name == "findall" and len(args) == 1:
        return _ext_re_findall(I, [spec[0]] + list(args), kwargs, st, node)
    if len(spec) == 1 and name in ("sub", "subn") and 2 <= len(args) <= 3:
        return _re_sub_const(name)(I, [spec[0]] + list(args), kwargs, st, node)
    if len(spec) == 1 and name == "split" and len(args) == 1 and isinstance(args[0], str):
        import re as _re

        return [(st.alloc(HObj("list", items=_re.split(spec[0], args[0]))), st)]
    if name == "pattern" and not args:
        return [(spec[0], st)]
    return None


def re_match_method(I, recv, name, args, kwargs, st):
    """Methods of a match object produced by _re_const (recomputed from its constants)."""
    import re as _re

    spec = eval(recv.tag, {"__builtins__": {}})  # the repr written by _re_const: a tuple of str / int constants
    m = _re.compile(spec[1]).match(spec[2], spec[3]) if spec[0] == "at" else getattr(_re, spec[0])(*spec[1:])
    if m is None or kwargs or not all(isinstance(a, (int, str)) for a in args):
        return None
    if name in ("group", "groups", "start", "end", "span"):
        try:
            return [(getattr(m, name)(*args), st)]
        except (IndexError, _re.error):
            return None
    if name == "groupdict":
        return [(st.alloc(HObj("dict", fields=dict(m.groupdict(*args)))), st)]
    return None


def _ext_literal_to_list(I, args, kwargs, st, node):
    """typist.literal_to_list(Literal[...]) / typing.get_args: the literal's constants."""
    if len(args) == 1 and isinstance(args[0], Opaque) and args[0].cls == "typing.Literal":
        return [(st.alloc(HObj("list", items=list(eval(args[0].tag, {"__builtins__": {}})))), st)]
    return None


def _ext_defaultdict(I, args, kwargs, st, node):
    """collections.defaultdict(factory[, mapping]): a heap dict that remembers its factory."""
    fields: dict = {}
    if len(args) > 1:
        d = _as_dict(args[1], st)
        if d is None:
            st.note("defaultdict from abstract mapping")
            return [(Unknown("defaultdict"), st)]
        fields.update(d)
    return [(st.alloc(HObj("dict", fields=fields, default=args[0] if args else None)), st)]


def _ext_deque(I, args, kwargs, st, node):
    """collections.deque([iterable]): a heap list (append / appendleft / pop / popleft / extend / len / bool / iteration); a bounded deque is not modelled."""
    if len(args) > 1 or kwargs.get("maxlen") is not None:
        st.note("bounded collections.deque")
        return [(Unknown("deque"), st)]
    items = iter_values(I, args[0], st) if args else []
    if items is None:
        st.note("deque from abstract iterable")
        return [(Unknown("deque"), st)]
    return [(st.alloc(HObj("list", items=list(items))), st)]


def _ext_ordereddict(I, args, kwargs, st, node):
    d = _as_dict(args[0], st) if args else {}
    if d is None:
        st.note("OrderedDict from abstract mapping")
        return [(Unknown("OrderedDict"), st)]
    return [(st.alloc(HObj("dict", fields={**d, **kwargs})), st)]


EXT_CALLS = {
    "ext:typist.literal_to_list": _ext_literal_to_list,
    "ext:typing.get_args": _ext_literal_to_list,
    "ext:re.compile": _ext_re_compile,
    "ext:re.escape": _ext_re_escape,
    "ext:re.sub": _re_sub_const("sub"),
    "ext:re.subn": _re_sub_const("subn"),
    "ext:re.match": _re_const("match"),
    "ext:re.search": _re_const("search"),
    "ext:re.fullmatch": _re_const("fullmatch"),
    "ext:operator.itemgetter": _ext_itemgetter,
    "ext:collections.defaultdict": _ext_defaultdict,
    "ext:collections.OrderedDict": _ext_ordereddict,
    "ext:collections.deque": _ext_deque,
    "ext:itertools.takewhile": _ext_takewhile,
    "ext:itertools.dropwhile": _ext_dropwhile,
    "ext:itertools.islice": _ext_islice,
    "ext:itertools.groupby": _ext_groupby,
    "ext:functools.reduce": _ext_reduce,
    "ext:re.findall": _ext_re_findall,
    "ext:operator.attrgetter": _ext_attrgetter,
    "ext:operator.not_": _ext_not,
    "ext:operator.methodcaller": _ext_methodcaller,
    "ext:typing.NewType": _ext_newtype,
    "ext:typing_extensions.NewType": _ext_newtype,
    "ext:itertools.count": _ext_count,
    "ext:operator.truth": _ext_truth,
    "ext:itertools.chain": _ext_chain,
    "ext:itertools.chain.from_iterable": _ext_chain_from_iterable,
}
