"""Engine P: module/class/function tables, import resolution, light types, call graph.

Types come from annotations only (parameters, returns, dataclass fields,
``self.x: T`` / ``self.x = T(...)`` / ``self.x = <annotated param>`` in
``__init__``, property return annotations, ``x = Cls(...)`` locals, ``with
Cls(...) as x``).  The repository is annotated to ``mypy --strict`` standard,
which is what makes this reliable without a type checker.
"""

from __future__ import annotations

import ast
from dataclasses import dataclass, field
from typing import Iterable, Iterator, Optional

from .core import SRC, AnalysisError, Repo


@dataclass
class FuncInfo:
    qualname: str
    module: "ModuleInfo"
    node: ast.FunctionDef
    cls: Optional["ClassInfo"] = None

    @property
    def name(self) -> str:
        return self.node.name

    @property
    def file(self) -> str:
        return self.module.rel

    def params(self) -> list[ast.arg]:
        a = self.node.args
        return list(a.posonlyargs) + list(a.args) + list(a.kwonlyargs)

    def decorators(self) -> list[str]:
        return [ast.unparse(d) for d in self.node.decorator_list]


@dataclass
class ClassInfo:
    qualname: str
    module: "ModuleInfo"
    node: ast.ClassDef
    bases: list[str] = field(default_factory=list)  # resolved dotted names (may be external)
    methods: dict[str, FuncInfo] = field(default_factory=dict)
    fields: dict[str, Optional[ast.expr]] = field(default_factory=dict)  # name -> annotation

    @property
    def name(self) -> str:
        return self.node.name


@dataclass
class ModuleInfo:
    dotted: str
    rel: str
    tree: ast.Module
    is_pkg: bool
    imports: dict[str, str] = field(default_factory=dict)  # local name -> dotted target
    funcs: dict[str, FuncInfo] = field(default_factory=dict)
    classes: dict[str, ClassInfo] = field(default_factory=dict)
    assigns: dict[str, ast.expr] = field(default_factory=dict)  # module-level NAME = expr


def _rel_to_dotted(rel: str) -> tuple[str, bool]:
    p = rel[len("src/"):-3]
    parts = p.split("/")
    if parts[-1] == "__init__":
        return ".".join(parts[:-1]), True
    return ".".join(parts), False


class PyModel:
    def __init__(self, repo: Repo):
        self.repo = repo
        self.modules: dict[str, ModuleInfo] = {}
        self.funcs: dict[str, FuncInfo] = {}
        self.classes: dict[str, ClassInfo] = {}
        for rel in repo.py_files():
            dotted, is_pkg = _rel_to_dotted(rel)
            mi = ModuleInfo(dotted, rel, repo.tree(rel), is_pkg)
            self.modules[dotted] = mi
        for mi in self.modules.values():
            self._index_module(mi)
        for ci in self.classes.values():
            ci.bases = [self.resolve_expr(ci.module, b) or ast.unparse(b) for b in ci.node.bases]
        self._cg: Optional[dict[str, list[tuple[ast.Call, str]]]] = None
        self._tables: Optional[dict[str, list[str]]] = None
        self.unresolved: dict[str, list[ast.Call]] = {}

    # ------------------------------------------------------------------ index
    def _index_module(self, mi: ModuleInfo) -> None:
        pkg = mi.dotted if mi.is_pkg else mi.dotted.rsplit(".", 1)[0]
        for node in ast.walk(mi.tree):
            if isinstance(node, ast.Import):
                for a in node.names:
                    if a.asname:
                        mi.imports[a.asname] = a.name
                    else:
                        mi.imports[a.name.split(".")[0]] = a.name.split(".")[0]
            elif isinstance(node, ast.ImportFrom):
                base = node.module or ""
                if node.level:
                    parts = pkg.split(".")
                    up = node.level - 1
                    anchor = parts[: len(parts) - up] if up else parts
                    base = ".".join(anchor + ([node.module] if node.module else []))
                for a in node.names:
                    mi.imports[a.asname or a.name] = f"{base}.{a.name}"
        for node in mi.tree.body:
            if isinstance(node, (ast.FunctionDef, ast.AsyncFunctionDef)):
                fi = FuncInfo(f"{mi.dotted}.{node.name}", mi, node)  # type: ignore[arg-type]
                mi.funcs[node.name] = fi
                self.funcs[fi.qualname] = fi
            elif isinstance(node, ast.ClassDef):
                ci = ClassInfo(f"{mi.dotted}.{node.name}", mi, node)
                mi.classes[node.name] = ci
                self.classes[ci.qualname] = ci
                for sub in node.body:
                    if isinstance(sub, (ast.FunctionDef, ast.AsyncFunctionDef)):
                        fi = FuncInfo(f"{ci.qualname}.{sub.name}", mi, sub, ci)  # type: ignore[arg-type]
                        # property setters etc. keep the first definition
                        ci.methods.setdefault(sub.name, fi)
                        self.funcs.setdefault(fi.qualname, fi)
                    elif isinstance(sub, ast.AnnAssign) and isinstance(sub.target, ast.Name):
                        ci.fields[sub.target.id] = sub.annotation
                    elif isinstance(sub, ast.Assign):
                        for t in sub.targets:
                            if isinstance(t, ast.Name):
                                ci.fields.setdefault(t.id, None)
                init = ci.methods.get("__init__")
                if init:
                    self._index_init(ci, init)
            elif isinstance(node, ast.Assign):
                for t in node.targets:
                    if isinstance(t, ast.Name):
                        mi.assigns[t.id] = node.value
            elif isinstance(node, ast.AnnAssign) and isinstance(node.target, ast.Name) and node.value is not None:
                mi.assigns[node.target.id] = node.value

    def _index_init(self, ci: ClassInfo, init: FuncInfo) -> None:
        ptypes = {a.arg: a.annotation for a in init.params()}
        for node in ast.walk(init.node):
            tgt = None
            ann = None
            if isinstance(node, ast.AnnAssign):
                tgt, ann = node.target, node.annotation
            elif isinstance(node, ast.Assign) and len(node.targets) == 1:
                tgt = node.targets[0]
                v = node.value
                if isinstance(v, ast.Call):
                    ann = v.func  # constructor call: the callee names the class
                elif isinstance(v, ast.Name) and v.id in ptypes:
                    ann = ptypes[v.id]
            if (
                isinstance(tgt, ast.Attribute)
                and isinstance(tgt.value, ast.Name)
                and tgt.value.id == "self"
                and ann is not None
            ):
                ci.fields.setdefault(tgt.attr, ann)
                if ci.fields[tgt.attr] is None:
                    ci.fields[tgt.attr] = ann

    # ---------------------------------------------------------------- lookup
    def module_of(self, rel_or_dotted: str) -> ModuleInfo:
        if rel_or_dotted in self.modules:
            return self.modules[rel_or_dotted]
        for mi in self.modules.values():
            if mi.rel == rel_or_dotted or mi.rel == f"{SRC}/{rel_or_dotted}":
                return mi
        raise AnalysisError(f"anchor module vanished: {rel_or_dotted}")

    def func(self, qualname: str) -> FuncInfo:
        q = qualname if qualname.startswith("zorg.") else f"zorg.{qualname}"
        if q not in self.funcs:
            raise AnalysisError(f"anchor function vanished: {q}")
        return self.funcs[q]

    def cls(self, qualname: str) -> ClassInfo:
        q = qualname if qualname.startswith("zorg.") else f"zorg.{qualname}"
        if q not in self.classes:
            raise AnalysisError(f"anchor class vanished: {q}")
        return self.classes[q]

    def has_func(self, qualname: str) -> bool:
        q = qualname if qualname.startswith("zorg.") else f"zorg.{qualname}"
        return q in self.funcs

    def resolve_dotted(self, dotted: str, _depth: int = 0) -> Optional[str]:
        """Follow re-exports until a function/class/module qualname is reached."""
        if _depth > 8:
            return None
        if dotted in self.funcs or dotted in self.classes or dotted in self.modules:
            return dotted
        if "." not in dotted:
            return None
        head, tail = dotted.rsplit(".", 1)
        mod = self.resolve_dotted(head, _depth + 1)
        if mod in self.modules:
            mi = self.modules[mod]
            if tail in mi.funcs:
                return mi.funcs[tail].qualname
            if tail in mi.classes:
                return mi.classes[tail].qualname
            if tail in mi.imports:
                return self.resolve_dotted(mi.imports[tail], _depth + 1)
            if tail in mi.assigns:
                return f"{mod}.{tail}"  # module-level constant
            sub = f"{mod}.{tail}"
            if sub in self.modules:
                return sub
        elif mod in self.classes:
            ci = self.classes[mod]
            m = self.find_method(ci, tail)
            if m:
                return m.qualname
            return f"{mod}.{tail}"
        return None

    def resolve_name(self, mi: ModuleInfo, name: str) -> Optional[str]:
        if name in mi.funcs:
            return mi.funcs[name].qualname
        if name in mi.classes:
            return mi.classes[name].qualname
        if name in mi.imports:
            tgt = mi.imports[name]
            return self.resolve_dotted(tgt) or tgt
        if name in mi.assigns:
            return f"{mi.dotted}.{name}"
        return None

    def resolve_expr(self, mi: ModuleInfo, expr: ast.expr) -> Optional[str]:
        """Resolve a Name / dotted Attribute chain in module scope."""
        if isinstance(expr, ast.Name):
            return self.resolve_name(mi, expr.id)
        if isinstance(expr, ast.Attribute):
            base = self.resolve_expr(mi, expr.value)
            if base is None:
                return None
            return self.resolve_dotted(f"{base}.{expr.attr}") or f"{base}.{expr.attr}"
        if isinstance(expr, ast.Constant) and isinstance(expr.value, str):
            try:
                return self.resolve_expr(mi, ast.parse(expr.value, mode="eval").body)
            except SyntaxError:
                return None
        return None

    def mro(self, ci: ClassInfo) -> list[ClassInfo]:
        out, seen = [], set()
        stack = [ci]
        while stack:
            c = stack.pop(0)
            if c.qualname in seen:
                continue
            seen.add(c.qualname)
            out.append(c)
            for b in c.bases:
                if b in self.classes:
                    stack.append(self.classes[b])
        return out

    def find_method(self, ci: ClassInfo, name: str) -> Optional[FuncInfo]:
        for c in self.mro(ci):
            if name in c.methods:
                return c.methods[name]
        return None

    def field_ann(self, ci: ClassInfo, name: str) -> Optional[ast.expr]:
        for c in self.mro(ci):
            if c.fields.get(name) is not None:
                return c.fields[name]
        return None

    # ----------------------------------------------------------------- types
    def ann_class(self, mi: ModuleInfo, ann: Optional[ast.expr]) -> Optional[str]:
        """Class qualname denoted by an annotation (through Optional/Union/quotes)."""
        if ann is None:
            return None
        if isinstance(ann, ast.Constant) and isinstance(ann.value, str):
            try:
                return self.ann_class(mi, ast.parse(ann.value, mode="eval").body)
            except SyntaxError:
                return None
        if isinstance(ann, (ast.Name, ast.Attribute)):
            r = self.resolve_expr(mi, ann)
            return r if r in self.classes else None
        if isinstance(ann, ast.Subscript):
            head = ast.unparse(ann.value).split(".")[-1]
            if head in ("Optional", "Final", "Annotated", "ClassVar"):
                sl = ann.slice
                if isinstance(sl, ast.Tuple):
                    sl = sl.elts[0]
                return self.ann_class(mi, sl)
            if head == "Union":
                elts = ann.slice.elts if isinstance(ann.slice, ast.Tuple) else [ann.slice]
                for e in elts:
                    r = self.ann_class(mi, e)
                    if r:
                        return r
            return None
        if isinstance(ann, ast.BinOp) and isinstance(ann.op, ast.BitOr):
            return self.ann_class(mi, ann.left) or self.ann_class(mi, ann.right)
        if isinstance(ann, ast.Call):  # constructor expression used as "annotation"
            return self.ann_class(mi, ann.func)
        return None

    def ann_elem_class(self, mi: ModuleInfo, ann: Optional[ast.expr]) -> Optional[str]:
        """Element class of list[T] / Sequence[T] / Iterable[T] annotations."""
        if isinstance(ann, ast.Constant) and isinstance(ann.value, str):
            try:
                ann = ast.parse(ann.value, mode="eval").body
            except SyntaxError:
                return None
        if isinstance(ann, ast.Subscript):
            head = ast.unparse(ann.value).split(".")[-1]
            if head in ("list", "List", "Sequence", "Iterable", "Iterator", "set", "Set", "tuple"):
                sl = ann.slice
                if isinstance(sl, ast.Tuple):
                    sl = sl.elts[0]
                return self.ann_class(mi, sl)
            if head in ("Optional", "Final"):
                return self.ann_elem_class(mi, ann.slice)
        return None

    def local_env(self, fi: FuncInfo) -> dict[str, str]:
        """Local variable -> class qualname (flow-insensitive, first binding wins)."""
        env: dict[str, str] = {}
        mi = fi.module
        if fi.cls is not None and fi.params() and fi.params()[0].arg in ("self", "cls"):
            env[fi.params()[0].arg] = fi.cls.qualname
        for a in fi.params():
            c = self.ann_class(mi, a.annotation)
            if c:
                env.setdefault(a.arg, c)
        changed = True
        rounds = 0
        while changed and rounds < 4:
            changed = False
            rounds += 1
            for node in ast.walk(fi.node):
                pairs: list[tuple[ast.expr, Optional[str]]] = []
                if isinstance(node, ast.AnnAssign):
                    pairs.append((node.target, self.ann_class(mi, node.annotation)))
                elif isinstance(node, ast.Assign) and len(node.targets) == 1:
                    pairs.append((node.targets[0], self.expr_class(fi, node.value, env)))
                elif isinstance(node, ast.NamedExpr):
                    pairs.append((node.target, self.expr_class(fi, node.value, env)))
                elif isinstance(node, (ast.With, ast.AsyncWith)):
                    for it in node.items:
                        if it.optional_vars is not None:
                            pairs.append((it.optional_vars, self.expr_class(fi, it.context_expr, env)))
                elif isinstance(node, ast.For):
                    pairs.append((node.target, self.expr_elem_class(fi, node.iter, env)))
                elif isinstance(node, ast.comprehension):
                    pairs.append((node.target, self.expr_elem_class(fi, node.iter, env)))
                for tgt, c in pairs:
                    if isinstance(tgt, ast.Name) and c and tgt.id not in env:
                        env[tgt.id] = c
                        changed = True
        return env

    def expr_class(self, fi: FuncInfo, expr: ast.expr, env: dict[str, str]) -> Optional[str]:
        mi = fi.module
        if isinstance(expr, ast.Name):
            if expr.id in env:
                return env[expr.id]
            return None
        if isinstance(expr, ast.Attribute):
            base = self.expr_class(fi, expr.value, env)
            if base in self.classes:
                ci = self.classes[base]
                ann = self.field_ann(ci, expr.attr)
                if ann is not None:
                    owner = next((c for c in self.mro(ci) if c.fields.get(expr.attr) is not None), ci)
                    return self.ann_class(owner.module, ann)
                m = self.find_method(ci, expr.attr)
                if m and any("property" in d for d in m.decorators()):
                    return self.ann_class(m.module, m.node.returns)
            return None
        if isinstance(expr, ast.Call):
            tgt = self.callee(fi, expr, env)
            if tgt in self.classes:
                return tgt
            if tgt in self.funcs:
                f = self.funcs[tgt]
                if f.name == "__enter__" or f.name == "__init__":
                    return f.cls.qualname if f.cls else None
                return self.ann_class(f.module, f.node.returns)
            if isinstance(expr.func, ast.Name) and expr.func.id == "cast" and expr.args:
                return self.ann_class(mi, expr.args[0])
            return None
        if isinstance(expr, ast.IfExp):
            return self.expr_class(fi, expr.body, env) or self.expr_class(fi, expr.orelse, env)
        if isinstance(expr, ast.NamedExpr):
            return self.expr_class(fi, expr.value, env)
        return None

    def expr_elem_class(self, fi: FuncInfo, expr: ast.expr, env: dict[str, str]) -> Optional[str]:
        mi = fi.module
        if isinstance(expr, ast.Attribute):
            base = self.expr_class(fi, expr.value, env)
            if base in self.classes:
                ci = self.classes[base]
                ann = self.field_ann(ci, expr.attr)
                if ann is not None:
                    owner = next((c for c in self.mro(ci) if c.fields.get(expr.attr) is not None), ci)
                    return self.ann_elem_class(owner.module, ann)
                m = self.find_method(ci, expr.attr)
                if m and any("property" in d for d in m.decorators()):
                    return self.ann_elem_class(m.module, m.node.returns)
        if isinstance(expr, ast.Name):
            for a in fi.params():
                if a.arg == expr.id:
                    return self.ann_elem_class(mi, a.annotation)
        if isinstance(expr, ast.Call):
            tgt = self.callee(fi, expr, env)
            if tgt in self.funcs:
                f = self.funcs[tgt]
                return self.ann_elem_class(f.module, f.node.returns)
        return None

    # ------------------------------------------------------------- call graph
    def callee(self, fi: FuncInfo, call: ast.Call, env: Optional[dict[str, str]] = None) -> Optional[str]:
        """Qualified name of the zorg function/class a call targets, if resolvable."""
        origin = getattr(call, "_zv_q", None)  # node of a flattened view: resolve in the function it came from
        if origin is not None and origin in self.funcs and env is None:
            fi = self.funcs[origin]
        env = env if env is not None else self.local_env(fi)
        f = call.func
        mi = fi.module
        if isinstance(f, ast.Name):
            if f.id in env and env[f.id] in self.classes:
                # calling an instance: __call__ (not used in zorg)
                return None
            r = self.resolve_name(mi, f.id)
            return r
        if isinstance(f, ast.Attribute):
            base_cls = self.expr_class(fi, f.value, env)
            if base_cls in self.classes:
                m = self.find_method(self.classes[base_cls], f.attr)
                if m:
                    return m.qualname
                return f"{base_cls}.{f.attr}"
            r = self.resolve_expr(mi, f)
            if r:
                return r
        return None

    def calls_in(self, fi: FuncInfo) -> list[tuple[ast.Call, Optional[str]]]:
        env = self.local_env(fi)
        out = []
        for node in ast.walk(fi.node):
            if isinstance(node, ast.Call):
                out.append((node, self.callee(fi, node, env)))
        return out

    def callgraph(self) -> dict[str, list[tuple[ast.Call, str]]]:
        if self._cg is None:
            cg: dict[str, list[tuple[ast.Call, str]]] = {}
            for q, fi in self.funcs.items():
                edges = []
                for call, tgt in self.calls_in(fi):
                    if tgt is None:
                        continue
                    if tgt in self.classes:
                        init = self.find_method(self.classes[tgt], "__init__")
                        if init:
                            edges.append((call, init.qualname))
                        continue
                    if tgt in self.funcs:
                        edges.append((call, tgt))
                # property reads are calls too
                env = self.local_env(fi)
                for node in ast.walk(fi.node):
                    if isinstance(node, ast.Attribute) and isinstance(node.ctx, ast.Load):
                        b = self.expr_class(fi, node.value, env)
                        if b in self.classes:
                            m = self.find_method(self.classes[b], node.attr)
                            if m and any("property" in d for d in m.decorators()):
                                edges.append((ast.Call(func=node, args=[], keywords=[]), m.qualname))
                    # with X(...) as y: -> __enter__/__exit__
                    if isinstance(node, (ast.With, ast.AsyncWith)):
                        for it in node.items:
                            c = self.expr_class(fi, it.context_expr, env)
                            if c in self.classes:
                                for nm in ("__enter__", "__exit__"):
                                    m = self.find_method(self.classes[c], nm)
                                    if m:
                                        edges.append((ast.Call(func=it.context_expr, args=[], keywords=[]), m.qualname))
                # callables passed as arguments (handler tables, key functions)
                for node in ast.walk(fi.node):
                    if isinstance(node, ast.Call):
                        for a in list(node.args) + [k.value for k in node.keywords]:
                            if isinstance(a, (ast.Name, ast.Attribute)):
                                r = self.resolve_expr(fi.module, a) if not (isinstance(a, ast.Name) and a.id in env) else None
                                if r in self.funcs:
                                    edges.append((node, r))
                # registries / dispatch tables / listener walks
                for node in ast.walk(fi.node):
                    if isinstance(node, (ast.Name, ast.Attribute)) and isinstance(getattr(node, "ctx", None), ast.Load):
                        if isinstance(node, ast.Name) and node.id in env:
                            continue
                        r = self.resolve_expr(fi.module, node)
                        if r and r in self.table_members():
                            for t in self.table_members()[r]:
                                edges.append((ast.Call(func=node, args=[], keywords=[]), t))
                    if (
                        isinstance(node, ast.Call)
                        and isinstance(node.func, ast.Attribute)
                        and node.func.attr == "walk"
                        and node.args
                    ):
                        c = self.expr_class(fi, node.args[0], env)
                        if c in self.classes:
                            for k in self.mro(self.classes[c]):
                                for nm, m in k.methods.items():
                                    if nm.startswith(("enter", "exit", "visit")):
                                        edges.append((node, m.qualname))
                cg[q] = edges
            self._cg = cg
        return self._cg

    def table_members(self) -> dict[str, list[str]]:
        """Module-level registries and dispatch tables -> member functions.

        * ``X: list = []`` + ``deco = metaman.register_function_factory(X)`` +
          ``@deco`` on functions  => X -> decorated functions;
        * ``X = {K: f, K2: [g, h]}`` whose values resolve to functions.
        """
        if getattr(self, "_tables", None) is not None:
            return self._tables
        tables: dict[str, list[str]] = {}
        for mi in self.modules.values():
            deco_to_list: dict[str, str] = {}
            for name, val in mi.assigns.items():
                if (
                    isinstance(val, ast.Call)
                    and ast.unparse(val.func).endswith("register_function_factory")
                    and val.args
                    and isinstance(val.args[0], ast.Name)
                ):
                    deco_to_list[name] = f"{mi.dotted}.{val.args[0].id}"
                if isinstance(val, ast.Dict):
                    members = []
                    for v in val.values:
                        for e in (v.elts if isinstance(v, (ast.List, ast.Tuple)) else [v]):
                            r = self.resolve_expr(mi, e) if isinstance(e, (ast.Name, ast.Attribute)) else None
                            if r in self.funcs:
                                members.append(r)
                    if members:
                        tables[f"{mi.dotted}.{name}"] = members
            if deco_to_list:
                for other in self.modules.values():
                    for fi in list(other.funcs.values()) + [m for c in other.classes.values() for m in c.methods.values()]:
                        for d in fi.node.decorator_list:
                            r = self.resolve_expr(other, d) if isinstance(d, (ast.Name, ast.Attribute)) else None
                            for dn, ln in deco_to_list.items():
                                if r == f"{mi.dotted}.{dn}":
                                    tables.setdefault(ln, []).append(fi.qualname)
        self._tables = tables
        return tables

    def reachable(self, roots: Iterable[str], extra_edges: Optional[dict[str, list[str]]] = None) -> set[str]:
        cg = self.callgraph()
        seen: set[str] = set()
        stack = [r if r.startswith("zorg.") else f"zorg.{r}" for r in roots]
        while stack:
            q = stack.pop()
            if q in seen or q not in self.funcs:
                continue
            seen.add(q)
            for _, t in cg.get(q, []):
                stack.append(t)
            for t in (extra_edges or {}).get(q, []):
                stack.append(t)
        return seen

    def callers_of(self, qualname: str) -> list[tuple[FuncInfo, ast.Call]]:
        q = qualname if qualname.startswith("zorg.") else f"zorg.{qualname}"
        out = []
        for src, edges in self.callgraph().items():
            for call, t in edges:
                if t == q:
                    out.append((self.funcs[src], call))
        return out

    def resolution_stats(self, quals: Iterable[str]) -> dict:
        total = resolved = 0
        unresolved = []
        for q in quals:
            fi = self.funcs[q]
            for call, tgt in self.calls_in(fi):
                total += 1
                if tgt is not None:
                    resolved += 1
                else:
                    unresolved.append(f"{q}: {ast.unparse(call.func)}")
        return dict(calls=total, resolved_to_symbol=resolved, unresolved_sample=unresolved[:15])


def walk_no_nested(node: ast.AST) -> Iterator[ast.AST]:
    """ast.walk that does not descend into nested function/class definitions."""
    stack = list(ast.iter_child_nodes(node))
    while stack:
        n = stack.pop()
        yield n
        if isinstance(n, (ast.FunctionDef, ast.AsyncFunctionDef, ast.ClassDef, ast.Lambda)):
            continue
        stack.extend(ast.iter_child_nodes(n))


def literal_strs(expr: ast.expr) -> Optional[list[str]]:
    """['a','b'] for a tuple/list/set literal of string constants."""
    if isinstance(expr, (ast.Tuple, ast.List, ast.Set)):
        out = []
        for e in expr.elts:
            if isinstance(e, ast.Constant) and isinstance(e.value, str):
                out.append(e.value)
            else:
                return None
        return out
    return None
