"""Engine C: structured path enumeration over function bodies.

A *path* is a list of events in execution order plus an outcome:

    ("stmt", node)              a simple statement (Assign, Expr, AugAssign, ...)
    ("assume", expr, bool)      a branch atom taken with the given truth value
                                (``and``/``or``/``not`` are decomposed, so atoms
                                are never BoolOps)
    ("iter", for_node)          one iteration of a ``for`` loop starts
    ("noiter", for_node)        the loop body is skipped (zero iterations left)
    ("with", item_expr)         a ``with`` item is entered
    ("except", handler)         control arrived in an exception handler
    ("return", node) / ("raise", node)

outcome in {"fall", "return", "raise"}.

Loops are unrolled ``unroll`` times (default 1: zero or one iteration, which
is enough for "A before B inside one iteration" rules; order rules across
iterations ask for 2).  ``try`` bodies may transfer to a handler after any
prefix of their statements (statement granularity).  This is path-*sensitive*
only in the sense that contradictory assumptions on syntactically identical
atoms are pruned (``feasible``); everything else is taken as feasible, which is
an over-approximation: "no path does X" proofs are sound, and a refutation is
reported together with the path so it can be judged.
"""

from __future__ import annotations

import ast
from dataclasses import dataclass
from typing import Iterable, Iterator, Optional

Event = tuple
MAX_PATHS = 20000


@dataclass
class Path:
    events: list[Event]
    outcome: str  # fall | return | raise

    def stmts(self) -> Iterator[ast.AST]:
        for e in self.events:
            if e[0] in ("stmt", "return", "raise"):
                yield e[1]

    def assumptions(self) -> list[tuple[str, bool]]:
        return [(ast.unparse(e[1]), e[2]) for e in self.events if e[0] == "assume"]

    def index_of(self, pred) -> int:
        for i, e in enumerate(self.events):
            if pred(e):
                return i
        return -1

    def describe(self, limit: int = 12) -> list[str]:
        out = []
        for e in self.events:
            if e[0] == "assume":
                out.append(f"assume {ast.unparse(e[1])} is {e[2]}")
            elif e[0] in ("stmt", "return", "raise"):
                out.append(f"L{getattr(e[1], 'lineno', '?')}: {ast.unparse(e[1])[:90]}")
            elif e[0] == "iter":
                out.append(f"iterate for {ast.unparse(e[1].target)} in {ast.unparse(e[1].iter)[:50]}")
        return out[-limit:]


class PathExplosion(Exception):
    pass


def atoms_of(test: ast.expr, want: bool) -> list[list[tuple[ast.expr, bool]]]:
    """All ways (as conjunctions of atoms, in evaluation order) for ``test`` to be ``want``."""
    if isinstance(test, ast.UnaryOp) and isinstance(test.op, ast.Not):
        return atoms_of(test.operand, not want)
    if isinstance(test, ast.BoolOp):
        is_and = isinstance(test.op, ast.And)
        # and: True = all True ; False = first k-1 True then k-th False
        # or : False = all False ; True  = first k-1 False then k-th True
        all_val = is_and
        if want == all_val:
            combos: list[list[tuple[ast.expr, bool]]] = [[]]
            for v in test.values:
                nxt = []
                for c in combos:
                    for alt in atoms_of(v, all_val):
                        nxt.append(c + alt)
                combos = nxt
            return combos
        out = []
        prefix: list[list[tuple[ast.expr, bool]]] = [[]]
        for v in test.values:
            for p in prefix:
                for alt in atoms_of(v, not all_val):
                    out.append(p + alt)
            nxt = []
            for p in prefix:
                for alt in atoms_of(v, all_val):
                    nxt.append(p + alt)
            prefix = nxt
        return out
    return [[(test, want)]]


def _seq(stmts: list[ast.stmt], unroll: int, budget: list[int]) -> list[tuple[list[Event], str]]:
    """Paths through a statement list; outcome in fall/return/raise/break/continue."""
    results: list[tuple[list[Event], str]] = [([], "fall")]
    for st in stmts:
        nxt: list[tuple[list[Event], str]] = []
        for ev, out in results:
            if out != "fall":
                nxt.append((ev, out))
                continue
            for ev2, out2 in _stmt(st, unroll, budget):
                nxt.append((ev + ev2, out2))
                budget[0] -= 1
                if budget[0] < 0:
                    raise PathExplosion()
        results = nxt
    return results


def _branch(test: ast.expr, want: bool) -> list[list[Event]]:
    return [[("assume", a, v) for a, v in combo] for combo in atoms_of(test, want)]


def _stmt(st: ast.stmt, unroll: int, budget: list[int]) -> list[tuple[list[Event], str]]:
    if isinstance(st, ast.If):
        out = []
        for pre in _branch(st.test, True):
            for ev, o in _seq(st.body, unroll, budget):
                out.append((pre + ev, o))
        for pre in _branch(st.test, False):
            for ev, o in _seq(st.orelse, unroll, budget):
                out.append((pre + ev, o))
        return out
    if isinstance(st, (ast.For, ast.AsyncFor)):
        return _loop(st, None, unroll, budget)
    if isinstance(st, ast.While):
        return _loop(st, st.test, unroll, budget)
    if isinstance(st, (ast.With, ast.AsyncWith)):
        pre: list[Event] = [("with", it.context_expr) for it in st.items]
        return [(pre + ev, o) for ev, o in _seq(st.body, unroll, budget)]
    if isinstance(st, ast.Try):
        out = []
        body_paths = _seq(st.body, unroll, budget)
        fin = _seq(st.finalbody, unroll, budget) if st.finalbody else [([], "fall")]
        # normal completion
        for ev, o in body_paths:
            if o == "fall":
                for ev2, o2 in _seq(st.orelse, unroll, budget):
                    for ev3, o3 in fin:
                        out.append((ev + ev2 + ev3, o2 if o3 == "fall" else o3))
            elif o == "raise" and st.handlers:
                for h in st.handlers:
                    for ev2, o2 in _seq(h.body, unroll, budget):
                        for ev3, o3 in fin:
                            out.append((ev + [("except", h)] + ev2 + ev3, o2 if o3 == "fall" else o3))
            else:
                for ev3, o3 in fin:
                    out.append((ev + ev3, o if o3 == "fall" else o3))
        # exception after any proper prefix of the body (statement granularity)
        for k in range(len(st.body)):
            for ev, o in _seq(st.body[:k], unroll, budget):
                if o != "fall":
                    continue
                partial = ev + [("stmt-raises", st.body[k])]
                for h in st.handlers:
                    for ev2, o2 in _seq(h.body, unroll, budget):
                        for ev3, o3 in fin:
                            out.append((partial + [("except", h)] + ev2 + ev3, o2 if o3 == "fall" else o3))
        return out
    if isinstance(st, ast.Return):
        return [([("return", st)], "return")]
    if isinstance(st, ast.Raise):
        return [([("raise", st)], "raise")]
    if isinstance(st, ast.Break):
        return [([], "break")]
    if isinstance(st, ast.Continue):
        return [([], "continue")]
    if isinstance(st, ast.Assert):
        # assert-as-assume: the failing branch raises
        out = [(pre + [("stmt", st)], "fall") for pre in _branch(st.test, True)]
        return out
    if isinstance(st, (ast.FunctionDef, ast.AsyncFunctionDef, ast.ClassDef)):
        return [([("stmt", st)], "fall")]
    if isinstance(st, ast.Match):
        out = []
        for case in st.cases:
            for ev, o in _seq(case.body, unroll, budget):
                out.append(([("stmt", st.subject)] + ev, o))
        out.append(([("stmt", st.subject)], "fall"))
        return out
    return [([("stmt", st)], "fall")]


def _loop(st, test: Optional[ast.expr], unroll: int, budget: list[int]) -> list[tuple[list[Event], str]]:
    out: list[tuple[list[Event], str]] = []
    # states: (events so far, iterations done)
    frontier: list[list[Event]] = [[]]
    for k in range(unroll + 1):
        nxt_frontier: list[list[Event]] = []
        for ev in frontier:
            # leave the loop now
            exits = _branch(test, False) if test is not None else [[("noiter", st)]]
            for pre in exits:
                for ev2, o2 in _seq(st.orelse, unroll, budget):
                    out.append((ev + pre + ev2, o2))
            if k == unroll:
                continue
            enters = _branch(test, True) if test is not None else [[("iter", st)]]
            for pre in enters:
                for ev2, o2 in _seq(st.body, unroll, budget):
                    if o2 in ("fall", "continue"):
                        nxt_frontier.append(ev + pre + ev2)
                    elif o2 == "break":
                        out.append((ev + pre + ev2, "fall"))
                    else:
                        out.append((ev + pre + ev2, o2))
        frontier = nxt_frontier
        budget[0] -= len(frontier)
        if budget[0] < 0:
            raise PathExplosion()
    return out


def feasible(events: list[Event]) -> bool:
    """Prune paths assuming both truth values of one (syntactically equal) atom
    with no intervening assignment to any name the atom mentions."""
    seen: dict[str, tuple[bool, set[str]]] = {}
    consts: dict[str, object] = {}  # name -> constant it was just assigned (None / bool / str / int literals only)
    for e in events:
        if e[0] == "assume":
            known = _const_truth(e[1], consts)
            if known is not None and known != e[2]:
                return False
            txt = ast.unparse(e[1])
            if txt in seen and seen[txt][0] != e[2]:
                return False
            names = {n.id for n in ast.walk(e[1]) if isinstance(n, ast.Name)}
            seen[txt] = (e[2], names)
        elif e[0] in ("stmt", "iter"):
            killed = _assigned_names(e[1])
            for k in killed:
                consts.pop(k, None)
            if e[0] == "stmt" and isinstance(e[1], (ast.Assign, ast.AnnAssign)) and isinstance(getattr(e[1], "value", None), ast.Constant):
                tg = e[1].targets if isinstance(e[1], ast.Assign) else [e[1].target]
                for t in tg:
                    if isinstance(t, ast.Name):
                        consts[t.id] = e[1].value.value
            if killed:
                for t in [t for t, (_, ns) in seen.items() if ns & killed]:
                    del seen[t]
            if e[0] == "stmt" and _has_call_effect(e[1]):
                # a call may mutate objects reachable from names: drop atoms
                # that mention an attribute/subscript/call of something
                for t in [t for t in seen if ("." in t or "[" in t or "(" in t)]:
                    del seen[t]
    return True


_NO = object()


def _const_truth(test: ast.expr, consts: dict) -> Optional[bool]:
    """Truth of `x`, `not x`, `x is None`, `x is not None`, `x == c`, `x != c` when x was just bound to a literal."""
    if isinstance(test, ast.UnaryOp) and isinstance(test.op, ast.Not):
        r = _const_truth(test.operand, consts)
        return None if r is None else (not r)
    if isinstance(test, ast.Name) and test.id in consts:
        return bool(consts[test.id])
    if isinstance(test, ast.Compare) and len(test.ops) == 1 and isinstance(test.left, ast.Name) and test.left.id in consts and isinstance(test.comparators[0], ast.Constant):
        a, b = consts[test.left.id], test.comparators[0].value
        op = test.ops[0]
        if isinstance(op, (ast.Is, ast.Eq)):
            return (a is b) if (a is None or b is None or isinstance(a, bool) or isinstance(b, bool)) else (a == b)
        if isinstance(op, (ast.IsNot, ast.NotEq)):
            return not ((a is b) if (a is None or b is None or isinstance(a, bool) or isinstance(b, bool)) else (a == b))
    return None


def _assigned_names(node: ast.AST) -> set[str]:
    out: set[str] = set()
    if isinstance(node, (ast.For, ast.AsyncFor)):
        for n in ast.walk(node.target):
            if isinstance(n, ast.Name):
                out.add(n.id)
        return out
    for n in ast.walk(node):
        if isinstance(n, ast.Name) and isinstance(n.ctx, (ast.Store, ast.Del)):
            out.add(n.id)
        elif isinstance(n, (ast.Attribute, ast.Subscript)) and isinstance(n.ctx, (ast.Store, ast.Del)):
            b = n
            while isinstance(b, (ast.Attribute, ast.Subscript)):
                b = b.value
            if isinstance(b, ast.Name):
                out.add(b.id)
    return out


def _has_call_effect(node: ast.AST) -> bool:
    return any(isinstance(n, ast.Call) for n in ast.walk(node))


def enum_paths(fn: ast.FunctionDef | list[ast.stmt], unroll: int = 1, prune: bool = True) -> list[Path]:
    body = fn.body if isinstance(fn, (ast.FunctionDef, ast.AsyncFunctionDef)) else fn
    budget = [MAX_PATHS * 20]
    raw = _seq(list(body), unroll, budget)
    out = []
    for ev, o in raw:
        if o in ("break", "continue"):
            o = "fall"
        if prune and not feasible(ev):
            continue
        out.append(Path(ev, o))
    if len(out) > MAX_PATHS:
        raise PathExplosion()
    return out


# --------------------------------------------------------------------- queries
def contains(node: ast.AST, pred) -> bool:
    return any(pred(n) for n in ast.walk(node))


def event_nodes(e: Event) -> Iterable[ast.AST]:
    if e[0] in ("stmt", "return", "raise", "assume", "with", "stmt-raises"):
        return [e[1]]
    if e[0] == "iter":
        return [e[1].iter]
    return []


def first_index(path: Path, pred) -> int:
    """Index of the first event having a sub-node satisfying pred, else -1."""
    for i, e in enumerate(path.events):
        for n in event_nodes(e):
            if contains(n, pred):
                return i
    return -1


def all_indices(path: Path, pred) -> list[int]:
    out = []
    for i, e in enumerate(path.events):
        for n in event_nodes(e):
            if contains(n, pred):
                out.append(i)
                break
    return out


def is_call_to(name: str):
    """Predicate: a Call whose callee's last attribute / name equals ``name``."""

    def pred(n: ast.AST) -> bool:
        if not isinstance(n, ast.Call):
            return False
        f = n.func
        return (isinstance(f, ast.Attribute) and f.attr == name) or (isinstance(f, ast.Name) and f.id == name)

    return pred
