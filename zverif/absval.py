"""Abstract values for engine A (see absint.py)."""

from __future__ import annotations

import itertools
from dataclasses import dataclass, field
from typing import Any, Optional

_ids = itertools.count(1)


class Unknown:
    """Top: nothing is known about this value (with an explanation)."""

    __slots__ = ("why",)

    def __init__(self, why: str = ""):
        self.why = why

    def __repr__(self) -> str:
        return f"Unknown({self.why})"

    def __eq__(self, other: object) -> bool:
        return isinstance(other, Unknown)

    def __hash__(self) -> int:
        return hash("Unknown")


@dataclass(frozen=True)
class EnumV:
    """Member of an enum class defined in zorg."""

    cls: str
    member: str
    value: Any = None

    def __repr__(self) -> str:
        return f"{self.cls.split('.')[-1]}.{self.member}"


@dataclass(frozen=True)
class CharSet:
    """One unknown character drawn from a finite set."""

    chars: frozenset
    sym: int = 0  # non-zero: a *named* unknown character (same sym => same character)

    def __repr__(self) -> str:
        s = "".join(sorted(self.chars))
        tag = f"${self.sym}" if self.sym else ""
        return f"CharSet{tag}[{s if len(s) < 20 else s[:17] + '...'}|{len(self.chars)}]"


@dataclass(frozen=True)
class SeqStr:
    """String of known length: each position a concrete char or a CharSet."""

    parts: tuple  # of str (len 1) | CharSet

    def __len__(self) -> int:
        return len(self.parts)

    def __repr__(self) -> str:
        return "SeqStr<" + "".join(p if isinstance(p, str) else "?" for p in self.parts) + ">"


@dataclass(frozen=True)
class Text:
    """Unknown text with provenance labels; facts about it live in the state."""

    tid: int
    labels: frozenset = frozenset()
    kind: str = ""

    def __repr__(self) -> str:
        return f"Text#{self.tid}[{self.kind}|{','.join(sorted(map(str, self.labels)))}]"


def new_text(labels=(), kind: str = "") -> Text:
    return Text(next(_ids), frozenset(labels), kind)


@dataclass(frozen=True)
class IntSet:
    """One unknown int from a finite set."""

    values: frozenset


@dataclass(frozen=True)
class FuncV:
    qualname: str


@dataclass(frozen=True)
class ClassV:
    qualname: str


@dataclass(frozen=True)
class BoundV:
    recv: Any
    name: str  # method name on an abstract/builtin receiver
    func: Optional[str] = None  # zorg qualname when resolved


class LambdaV:
    """Lambda / nested def with a snapshot of the defining frame (closure)."""

    __slots__ = ("node", "closure", "module")

    def __init__(self, node: Any, closure: dict, module: Any = None):
        self.node = node
        self.closure = closure
        self.module = module

    def __repr__(self) -> str:
        return f"LambdaV(L{getattr(self.node, 'lineno', '?')})"


class Ref:
    """Pointer into the abstract heap (mutable list / dict / object)."""

    __slots__ = ("addr",)

    def __init__(self, addr: int):
        self.addr = addr

    def __repr__(self) -> str:
        return f"Ref@{self.addr}"

    def __eq__(self, other: object) -> bool:
        return isinstance(other, Ref) and other.addr == self.addr

    def __hash__(self) -> int:
        return hash(("Ref", self.addr))


@dataclass
class HObj:
    """Heap object: kind in list/dict/set/obj/opaque."""

    kind: str
    cls: str = ""
    items: list = field(default_factory=list)  # list / set contents
    fields: dict = field(default_factory=dict)  # dict entries or object attributes
    setlike: bool = False  # list whose duplicates are collapsed (summarised accumulation)
    default: Any = None  # collections.defaultdict factory (dict only)

    def clone(self) -> "HObj":
        return HObj(self.kind, self.cls, list(self.items), dict(self.fields), self.setlike, self.default)


@dataclass(frozen=True)
class Opaque:
    """Instance of a class the analysis does not look into (sink)."""

    cls: str
    tag: str = ""


def is_concrete(v: Any) -> bool:
    return v is None or isinstance(v, (bool, int, str, float, tuple, frozenset, bytes, EnumV))


@dataclass(frozen=True)
class OneOf:
    """Exactly one of finitely many abstract alternatives (lazy disjunction for scalar slots)."""

    alts: tuple

    def __repr__(self) -> str:
        return "OneOf(" + " | ".join(map(repr, self.alts)) + ")"


@dataclass(frozen=True)
class Term:
    """Symbolic expression built by calls into an un-analysed library (e.g. SQLAlchemy)."""

    head: str
    args: tuple = ()

    def __repr__(self) -> str:
        if not self.args:
            return self.head
        return f"{self.head}(" + ", ".join(map(repr, self.args)) + ")"
