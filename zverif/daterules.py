"""Rules about zorg.shared.dates shared by several properties (C01, C04, C07, C08, C16).

The library facts used here are a frozen table, not something we run:
strptime's ``%y`` reads 69-99 as 1969-1999 (POSIX pivot) while the .zo
format defines YYMMDD as 20YY for every YY; ``%Y`` wants four digits.
"""

from __future__ import annotations

import ast

from .core import Run
from .pymodel import PyModel
from .shapes import Const, Hole, ShapeEval
from .util import walk_no_nested

DATES = "zorg.shared.dates"
FILE = "src/zorg/shared/dates.py"


def _const_strings(se: ShapeEval, e: ast.expr):
    out = []
    for sh in se.eval(e):
        if len(sh) == 1 and isinstance(sh[0], Const):
            out.append(sh[0].text)
        else:
            return None
    return out


def century_rule(run: Run, model: PyModel, rid: str) -> None:
    """Every strptime in zorg.shared.dates pins the century: no %y in a parsing format, and the short-date parser
    feeds %Y with a constant '20' in front of the six digits."""
    mi = model.modules.get(DATES)
    if mi is None:
        run.undecided(rid, "dates", "module zorg.shared.dates not found")
        return
    n = 0
    for q, fi in sorted(model.funcs.items()):
        if not q.startswith(DATES + "."):
            continue
        se = None
        for c in walk_no_nested(fi.node):
            if not (isinstance(c, ast.Call) and isinstance(c.func, ast.Attribute) and c.func.attr == "strptime" and len(c.args) >= 2):
                continue
            n += 1
            se = se or ShapeEval(model, fi)
            fmts = _const_strings(se, c.args[1])
            name = q.rsplit(".", 1)[-1]
            if fmts is None:
                run.undecided(rid, name, f"strptime format `{ast.unparse(c.args[1])}` is not a constant")
                continue
            for fmt in fmts:
                run.check(rid, f"{name}: parsing format {fmt!r} has no two-digit year", "%y" not in fmt, name, c,
                          f"strptime format {fmt!r} reads a two-digit year: the library maps 69-99 to 1969-1999, so a YYMMDD date / ZID with YY >= 69 denotes a day in the 1900s "
                          "instead of 20YY (create dates, date filters and ZID dates of such items are a century off)", file=FILE, node=c)
                if "%Y" in fmt and name == "from_short_date_spec":
                    shapes = se.eval(c.args[0])
                    ok = bool(shapes) and all(sh and isinstance(sh[0], Const) and sh[0].text == "20" and len(sh) == 2 and isinstance(sh[1], Hole) for sh in shapes)
                    run.check(rid, "from_short_date_spec puts the constant century '20' in front of YYMMDD", ok, name, c.args[0],
                              f"the text handed to strptime is `{ast.unparse(c.args[0])}`: YYMMDD must be read as 20YYMMDD", file=FILE, node=c)
    run.floor("strptime sites in zorg.shared.dates", n, 2)
