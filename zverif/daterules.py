"""Rules about zorg.shared.dates shared by several properties (C01, C04, C07, C08, C16).

The library facts used here are a frozen table, not something we run:
strptime's ``%y`` reads 69-99 as 1969-1999 (POSIX pivot) while the .zo
format defines YYMMDD as 20YY for every YY; ``%Y`` wants four digits.
"""

from __future__ import annotations

import ast

from .core import Run
from .pymodel import PyModel
from .shapes import Const, Hole, ShapeEval
from .util import walk_no_nested

DATES = "zorg.shared.dates"
FILE = "src/zorg/shared/dates.py"


def _const_strings(se: ShapeEval, e: ast.expr):
    out = []
    for sh in se.eval(e):
        if len(sh) == 1 and isinstance(sh[0], Const):
            out.append(sh[0].text)
        else:
            return None
    return out


def century_rule(run: Run, model: PyModel, rid: str) -> None:
    """Every strptime in zorg.shared.dates pins the century: no %y in a parsing format, and the short-date parser
    feeds %Y with a constant '20' in front of the six digits."""
    mi = model.modules.get(DATES)
    if mi is None:
        run.undecided(rid, "dates", "module zorg.shared.dates not found")
        return
    n = 0
    for q, fi in sorted(model.funcs.items()):
        if not q.startswith(DATES + "."):
            continue
        se = None
        for c in walk_no_nested(fi.node):
            if not (isinstance(c, ast.Call) and isinstance(c.func, ast.Attribute) and c.func.attr == "strptime" and len(c.args) >= 2):
                continue
            n += 1
            se = se or ShapeEval(model, fi)
            fmts = _const_strings(se, c.args[1])
            name = q.rsplit(".", 1)[-1]
            if fmts is None:
                run.undecided(rid, name, f"strptime format `{ast.unparse(c.args[1])}` is not a constant")
                continue
            for fmt in fmts:
                run.check(rid, f"{name}: parsing format {fmt!r} has no two-digit year", "%y" not in fmt, name, c,
                          f"strptime format {fmt!r} reads a two-digit year: the library maps 69-99 to 1969-1999, so a YYMMDD date / ZID with YY >= 69 denotes a day in the 1900s "
                          "instead of 20YY (create dates, date filters and ZID dates of such items are a century off)", file=FILE, node=c)
                if "%Y" in fmt and name == "from_short_date_spec":
                    shapes = se.eval(c.args[0])
                    ok = bool(shapes) and all(sh and isinstance(sh[0], Const) and sh[0].text == "20" and len(sh) == 2 and isinstance(sh[1], Hole) for sh in shapes)
                    run.check(rid, "from_short_date_spec puts the constant century '20' in front of YYMMDD", ok, name, c.args[0],
                              f"the text handed to strptime is `{ast.unparse(c.args[0])}`: YYMMDD must be read as 20YYMMDD", file=FILE, node=c)
    run.floor("strptime sites in zorg.shared.dates", n, 2)


# ---------------------------------------------------------------------------------------------------------------
# Sibling agreement: the YYMMDD recogniser and the YYMMDD parser.
#
# A recogniser that decides by attempting the parse agrees with the parser by construction.  Any other recogniser
# is evaluated abstractly on a finite partition of the six-digit strings into classes on which the calendar verdict
# is uniform (year by residue mod 4 -- 2000..2099 contains no century exception --, month by value, day by the
# ranges 01-28 / 29 / 30 / 31 / impossible).  Each class is a product of per-position character sets, so one
# abstract run (character-set strings, finite int sets, set-splitting comparisons) covers all of its members; the
# expected verdict comes from the frozen Gregorian table below.  No date is ever executed concretely.
_DIM = (31, 28, 31, 30, 31, 30, 31, 31, 30, 31, 30, 31)


def _calendar_classes():
    years = [((t, u), (2 * int(t[0]) + int(u[0])) % 4) for t in ("02468", "13579") for u in ("048", "159", "26", "37")]
    months = [(("0", str(i)), i) for i in range(1, 10)] + [(("1", "0"), 10), (("1", "1"), 11), (("1", "2"), 12),
                                                            (("0", "0"), None), (("1", "3456789"), None), (("23456789", "0123456789"), None)]
    days = [(("0", "0"), (0, 0)), (("0", "123456789"), (1, 9)), (("1", "0123456789"), (10, 19)), (("2", "012345678"), (20, 28)), (("2", "9"), (29, 29)),
            (("3", "0"), (30, 30)), (("3", "1"), (31, 31)), (("3", "23456789"), (32, 39)), (("456789", "0123456789"), (40, 99))]
    for (yc, r) in years:
        for (mc, mv) in months:
            for (dc, (lo, hi)) in days:
                if mv is None or lo == 0 or hi > 31:
                    want = False
                else:
                    dim = _DIM[mv - 1] + (1 if (mv == 2 and r == 0) else 0)
                    want = hi <= dim
                yield yc + mc + dc, want, f"YY in [{yc[0]}][{yc[1]}] (YY mod 4 = {r}), MM in [{mc[0]}][{mc[1]}], DD in [{dc[0]}][{dc[1]}]"


def short_date_recogniser_agrees(run: Run, model: PyModel, rid: str) -> bool:
    """is_short_date_spec accepts exactly the six-digit strings the short-date parser can parse."""
    from .absint import Interp, Raised, State
    from .absval import CharSet, SeqStr

    q = f"{DATES}.is_short_date_spec"
    fi = model.func(q)
    # (a) by construction
    for t in walk_no_nested(fi.node):
        if isinstance(t, ast.Try):
            body_calls = {ast.unparse(c.func).split(".")[-1] for s in t.body for c in ast.walk(s) if isinstance(c, ast.Call)}
            catches = any(h.type is None or "ValueError" in ast.unparse(h.type) or "Exception" in ast.unparse(h.type) for h in t.handlers)
            returns_false = any(isinstance(r, ast.Return) and isinstance(r.value, ast.Constant) and r.value.value is False for h in t.handlers for r in ast.walk(h))
            if body_calls & {"from_short_date_spec", "strptime"} and catches and returns_false:
                run.proved(rid, "is_short_date_spec decides by attempting the parse it guards (agrees with the parser by construction)")
                return True
    # (b) by abstract evaluation over the calendar partition
    I = Interp(model)
    n = 0
    wrong = []
    import itertools

    def evaluate(parts):
        s = SeqStr(tuple(CharSet(frozenset(p)) if len(p) > 1 else p for p in parts))
        res = I.run_function(q, [s], st=State())
        vals = {("raises " + v.exc) if isinstance(v, Raised) else repr(v) for v, _ in res}
        return vals, [x for _, st in res for x in st.imprecise]

    def refine(parts):
        # a class the recogniser does not treat uniformly is split position by position (left to right) until every piece is; the pieces are still character-set
        # products, and a piece of one string is decided outright
        work = [tuple(parts)]
        budget = 600
        while work:
            cur = work.pop()
            vals, imprecise = evaluate(cur)
            budget -= 1
            if imprecise or not vals <= {"True", "False"} or budget < 0:
                yield cur, None, imprecise[:2] or sorted(vals)
                return
            if len(vals) == 1:
                yield cur, vals == {"True"}, None
                continue
            i = next((k for k, p in enumerate(cur) if len(p) > 1), None)
            if i is None:
                yield cur, None, sorted(vals)
                return
            work.extend(cur[:i] + (ch,) + cur[i + 1:] for ch in cur[i])

    for parts, want, desc in _calendar_classes():
        try:
            pieces = list(refine(parts))
        except Exception as e:
            run.undecided(rid, "is_short_date_spec", f"cannot evaluate the recogniser abstractly: {type(e).__name__}: {e}")
            return False
        n += 1
        for cur, got, why in pieces:
            if got is None:
                run.undecided(rid, "is_short_date_spec", f"{desc}: {why}")
                return False
            if got != want:
                wrong.append((desc if len(pieces) == 1 else f"{desc}, namely {''.join(c if len(c) == 1 else '[' + c + ']' for c in cur)}", want))
    run.floor("calendar classes evaluated", n, 1080)
    if wrong:
        desc, want = wrong[0]
        run.refuted(rid, "is_short_date_spec", f"calendar disagreement: {desc} -> {not want}",
                    f"is_short_date_spec and the calendar disagree on {len(wrong)} of {n} classes of six-digit strings, e.g. {desc}: the recogniser says {not want}, a real calendar says {want}. "
                    + ("Such a word reaches strptime and compiling a valid page dies with ValueError." if not want else
                       "ZIDs / modify dates the allocator issues for that day are not recognised: the note gets a second ZID on the next run."),
                    file=FILE, node=fi.node, detail=dict(classes=[d for d, _ in wrong[:12]]))
        return False
    run.proved(rid, f"is_short_date_spec agrees with the calendar on all {n} classes of six-digit strings (hand-written recogniser, evaluated abstractly)")
    return True


def no_memoised_clock(run: Run, model: PyModel, rid: str, roots: list, floor: int = 1) -> None:
    """'today' is read anew on every use: no zorg function from which a clock read (date.today(), datetime.now(), ...) is reachable carries a caching
    decorator (functools.cache / lru_cache / cached_property ...), and none stores a clock read in a module-level name.  A memoised function would answer
    with the day of its first call for the rest of the process (an editor session kept open over midnight, a long-lived API user)."""
    from .util import clock_calls

    cg = model.callgraph()
    slice_ = sorted(model.reachable(roots))
    readers = {q for q in model.funcs if clock_calls(model.funcs[q].node)}
    # backward closure: functions that (transitively) call a clock reader
    dep = set(readers)
    changed = True
    while changed:
        changed = False
        for q, edges in cg.items():
            if q not in dep and any(t in dep for _, t in edges):
                dep.add(q)
                changed = True
    n = 0
    for q in slice_:
        if q not in dep:
            continue
        n += 1
        f = model.funcs[q]
        memo = [d for d in f.decorators() if any(w in d.lower() for w in ("cache", "memo"))]
        run.check(rid, f"{f.name}: depends on the current date and is not memoised", not memo, f.name, memo[0] if memo else "no cache decorator",
                  f"`{f.name}` is decorated with `{memo[0] if memo else ''}` although its result depends on the current date: after the first call every relative date "
                  "(and everything computed from 'today') keeps denoting the offset from the day of that first call", file=f.file, node=f.node)
    run.floor(f"clock-dependent functions checked for memoisation ({rid})", n, floor)
    for mi in model.modules.values():
        for name, expr in mi.assigns.items():
            if expr is not None and clock_calls(expr) and any(q.startswith(mi.dotted + ".") for q in slice_):
                run.refuted(rid, mi.dotted, f"{name} = {ast.unparse(expr)[:60]}", f"module-level `{name}` stores a clock read taken at import time: 'today' never advances within a process", file=mi.rel)
