"""A virtual world for abstract runs of zorg's indexing commands.

The interpreter (absint) executes the *source* of `reindex_database` / `create_database` and whatever private
helpers they are split into, over abstract values; nothing of zorg is imported or run.  The world supplies the
library side as uninterpreted, traced objects:

* paths (`vpath`): `a / b`, `str(p)`, `.exists()`, `.read_text()`, `.read_bytes()`, `.write_text(x)`, `.open("w")`,
  `.touch()`, `.mkdir()`, `.name`, `.rglob(pat)`; file contents come from the scenario;
* `json.loads` / `json.dump`: the hash map is a heap dict, a dump is recorded with a snapshot of what is written;
* the SQL session and repo: `remove_file_by_name`, `add_file`, `commit` are recorded;
* `walk_zorg_page` yields a page object whose `has_errors` comes from the scenario; `_hash_file` yields the
  scenario's marker for the file's current content; progress bars, printing and logging are no-ops.

The result of a run is the ordered trace of effects per final abstract state.
"""

from __future__ import annotations

import ast
from typing import Any, Optional

from .absint import Interp, Raised, State
from .absval import HObj, Opaque, Ref, Term, Text, Unknown, new_text
from .pymodel import PyModel

H = "zorg.service.handlers"


def vpath(s: str) -> Opaque:
    return Opaque("vpath", s)


class World:
    def __init__(self, model: PyModel, *, files: dict[str, str], old_map: Optional[dict[str, str]], indexed: set[str], errors: set[str], whitelist: list[str], zdir: str = "/Z",
                 contents: Optional[dict[str, str]] = None, missing: Optional[set] = None):
        """files: page name -> marker of its current content hash; old_map: content of file_hash.json (None = missing);
        indexed: page names that have rows in the database; errors: pages whose compilation reports errors."""
        self.model = model
        self.files, self.old_map, self.indexed, self.errors, self.whitelist, self.zdir = files, old_map, indexed, errors, whitelist, zdir
        self.contents = contents or {}
        self.missing = missing or set()
        self.today = "20240107"  # what date.today() answers in this world
        self.hash_path = f"{zdir}/.zorg/file_hash.json"
        self.wl_path = f"{zdir}/.zorg/error_file_whitelist.txt"
        self.nextids_path = f"{zdir}/.zorg/next_ids.json"

    # ------------------------------------------------------------------ hooks
    def probes(self) -> dict:
        W = self

        def fz(I, v, st):
            return I.B.freeze_term(I, v, st)

        def snapshot(I, v, st):
            if isinstance(v, Ref):
                h = st.obj(v)
                if h.kind == "dict":
                    return {k: snapshot(I, x, st) for k, x in h.fields.items()}
                if h.kind in ("list", "set"):
                    return [snapshot(I, x, st) for x in h.items]
            return v

        def path_method(I, recv, name, args, kwargs, st, node):
            p = recv.tag
            if name in ("exists", "is_file"):
                if p == W.hash_path:
                    return [(W.old_map is not None, st)]
                if p in st.meta.get("vfiles", {}):
                    return [(True, st)]
                if W.missing == "all-but-contents":
                    return [(p in W.contents, st)]
                return [(p not in W.missing, st)]
            if name in ("read_bytes", "read_text"):
                st.trace.append(("read", p))
                if p in st.meta.get("vfiles", {}):
                    return [(st.meta["vfiles"][p], st)]  # a file this run has written is read back as written
                if p == W.hash_path:
                    return [(Opaque("vcontent", "hashmap"), st)]
                if p == W.wl_path:
                    return [("\n".join(W.whitelist), st)]
                if p in W.contents:
                    return [(W.contents[p], st)]
                return [(new_text({"FILE:" + p}, "content"), st)]
            if name == "write_text":
                st.trace.append(("write_text", p, snapshot(I, args[0], st) if args else None))
                if args and isinstance(args[0], str):
                    st.meta["vfiles"] = {**st.meta.get("vfiles", {}), p: args[0]}
                elif p in st.meta.get("vfiles", {}) or p in W.contents:
                    st.note(f"abstract text written to {p}")
                return [(None, st)]
            if name == "open":
                mode = args[0] if args else kwargs.get("mode", "r")
                if isinstance(mode, str) and any(c in mode for c in "wax+"):
                    st.trace.append(("open_w", p))
                st.meta["vpos"] = {**st.meta.get("vpos", {}), p: 0}
                return [(Opaque("vhandle", p), st)]
            if name in ("touch", "mkdir"):
                return [(None, st)]
            if name in ("unlink", "rmdir"):
                st.trace.append(("unlink", p))
                return [(None, st)]
            if name in ("glob", "rglob", "iterdir") and p.rstrip("/") == f"{W.zdir}/.zorg":
                # the data directory: the hash map (when it exists), the error whitelist and the ZID counters
                import fnmatch

                pat = args[0] if args and isinstance(args[0], str) else "*"
                have = ([W.hash_path] if W.old_map is not None else []) + [W.wl_path, W.nextids_path]
                return [(st.alloc(HObj("list", items=[vpath(x) for x in have if fnmatch.fnmatch(x.rsplit("/", 1)[-1], pat.rsplit("/", 1)[-1])])), st)]
            if name == "rglob":
                return [(st.alloc(HObj("list", items=[vpath(f"{W.zdir}/{n}") for n in W.files])), st)]
            if name == "resolve":
                # the notes directory is reached through a symlink in this world: resolving changes the prefix
                return [(vpath(p if p.startswith("/REAL") else "/REAL" + p), st)]
            if name in ("absolute", "expanduser"):
                return [(recv, st)]
            if name in ("with_suffix", "with_name", "with_stem") and len(args) == 1 and isinstance(args[0], str):
                import pathlib as _pl

                try:
                    return [(vpath(str(getattr(_pl.PurePosixPath(p), name)(args[0]))), st)]
                except ValueError as e:
                    return [(Raised("ValueError", node, str(e)), st)]
            if name == "stat":
                return [(Opaque("vstat", p), st)]
            st.note(f"virtual path method {name}")
            return [(Unknown(f"path.{name}"), st)]

        def path_attr(I, v, name, st, node):
            p = v.tag
            if name == "name":
                return [(p.rsplit("/", 1)[-1], st)]
            if name == "parent":
                return [(vpath(p.rsplit("/", 1)[0] or "/"), st)]
            if name == "parents":
                parts = p.split("/")
                return [(tuple(vpath("/".join(parts[:i]) or "/") for i in range(len(parts) - 1, 0, -1)), st)]
            if name == "suffix":
                nm = p.rsplit("/", 1)[-1]
                return [("." + nm.rsplit(".", 1)[1] if "." in nm else "", st)]
            if name == "stem":
                nm = p.rsplit("/", 1)[-1]
                return [(nm.rsplit(".", 1)[0], st)]
            return None

        def binop(I, op, l, r, st):
            if isinstance(op, ast.Div) and isinstance(l, Opaque) and l.cls == "vpath":
                rs = r.tag if isinstance(r, Opaque) and r.cls == "vpath" else r
                if isinstance(rs, str):
                    return vpath(rs if rs.startswith("/") else f"{l.tag.rstrip('/')}/{rs}")
            return None

        def handle_text(st, p):
            t = st.meta.get("vfiles", {}).get(p, W.contents.get(p))
            return t if isinstance(t, str) else None

        def handle_read(st, p, how):
            """Reading through a handle: the position is kept per path (reset by every open); -> text / list of lines, or None when the content is not concrete."""
            t = handle_text(st, p)
            if t is None:
                return None
            pos = dict(st.meta.get("vpos", {}))
            k = pos.get(p, 0)
            if st.trace[-1:] != [("read", p)]:
                st.trace.append(("read", p))
            if how == "line":
                j = t.find("\n", k)
                j = len(t) if j < 0 else j + 1
                out = t[k:j]
            elif how == "lines":
                out = [x for x in _split_keep_nl(t[k:])]
                j = len(t)
            else:
                out, j = t[k:], len(t)
            pos[p] = j
            st.meta["vpos"] = pos
            return out

        def _split_keep_nl(t):
            # text-mode file iteration splits on "\n" only (universal newlines aside), unlike str.splitlines
            parts = t.split("\n")
            return [x + "\n" for x in parts[:-1]] + ([parts[-1]] if parts[-1] else [])

        def handle_method(I, recv, name, args, kwargs, st, node):
            if name == "write":
                st.trace.append(("write_text", recv.tag, snapshot(I, args[0], st) if args else None))
            if name in ("read", "readline", "readlines") and not args:
                r = handle_read(st, recv.tag, {"read": "all", "readline": "line", "readlines": "lines"}[name])
                if r is None:
                    st.note(f"read through a handle of {recv.tag}, whose content is not concrete")
                    return [(Unknown("filetext"), st)]
                return [((st.alloc(HObj("list", items=r)) if isinstance(r, list) else r), st)]
            return [(recv if name == "__enter__" else None, st)]

        def handle_iter(I, v, st):
            if v.cls != "vhandle":
                return None
            return handle_read(st, v.tag, "lines")

        def json_method(I, recv, name, args, kwargs, st, node):
            if name == "loads":
                src = args[0] if args else None
                if isinstance(src, Opaque) and src.cls == "vcontent":
                    return [(st.alloc(HObj("dict", fields=dict(W.old_map or {}))), st)]
                st.note("json.loads of unknown content")
                return [(Unknown("json"), st)]
            if name == "dump":
                fh = args[1] if len(args) > 1 else kwargs.get("fp")
                st.trace.append(("json_dump", fh.tag if isinstance(fh, Opaque) else "?", snapshot(I, args[0], st)))
                return [(None, st)]
            if name == "dumps":
                return [(Opaque("vjson", ""), st)]
            return None

        def ext_method(I, recv, name, args, kwargs, st, node):
            if recv.cls == "vpath":
                return path_method(I, recv, name, args, kwargs, st, node)
            if recv.cls == "vhandle":
                return handle_method(I, recv, name, args, kwargs, st, node)
            if recv.cls == "ext:json":
                return json_method(I, recv, name, args, kwargs, st, node)
            if recv.cls == "vsession" or recv.cls == "vrepo":
                if name == "remove_file_by_name":
                    nm = args[0] if args else None
                    st.trace.append(("remove", nm))
                    return [((W.old_page(st, nm) if nm in W.indexed else None), st)]
                if name == "add_file":
                    pg = args[0]
                    st.trace.append(("add", W.page_name(st, pg)))
                    return [(None, st)]
                if name == "commit":
                    st.trace.append(("commit",))
                    return [(None, st)]
                if name in ("add_message", "add_last_message"):
                    return [(None, st)]
                st.note(f"session method {name}")
                return [(Unknown(name), st)]
            if recv.cls.startswith("ext:datetime") and name in ("today", "now", "utcnow") and not args:
                return [(Opaque("vday", W.today), st)]
            if recv.cls.startswith("ext:datetime") and name == "strptime" and len(args) == 2 and all(isinstance(a, str) for a in args):
                # library fact on constants: the text parses as that format or strptime raises ValueError
                import datetime as _dt

                try:
                    d = _dt.datetime.strptime(args[0], args[1])
                except ValueError:
                    return [(Raised("ValueError", node, "strptime"), st)]
                return [(Opaque("vday", d.strftime("%Y%m%d")), st)]
            if recv.cls == "vday":
                if name in ("date", "today") and not args:
                    return [(recv, st)]
                if name == "strftime" and len(args) == 1 and isinstance(args[0], str):
                    import datetime as _dt

                    return [(_dt.datetime.strptime(recv.tag, "%Y%m%d").strftime(args[0]), st)]
                if name == "isoformat" and not args:
                    return [(f"{recv.tag[:4]}-{recv.tag[4:6]}-{recv.tag[6:]}", st)]
            if recv.cls.startswith("ext:") and ("ogger" in recv.cls or "logrus" in recv.cls) and name in ("debug", "info", "warning", "warn", "error", "exception", "critical", "log", "bind"):
                return [(None, st)]
            if recv.cls == "vstat":
                return None
            return None

        def ext_getattr(I, v, name, st, node):
            if v.cls == "vpath":
                return path_attr(I, v, name, st, node)
            if v.cls == "vsession" and name == "repo":
                return [(Opaque("vrepo", ""), st)]
            if v.cls == "vsession" and name == "zdir":
                return [(vpath(W.zdir), st)]
            return None

        def call_any(I, fv, args, kwargs, st, node):
            head = fv.cls
            if head in ("ext:pathlib.Path", "ext:pathlib.PurePath"):
                a = args[0] if args else "."
                if isinstance(a, Opaque) and a.cls == "vpath":
                    return [(a, st)]
                if isinstance(a, str):
                    return [(vpath(a), st)]
                st.note("Path() of abstract value")
                return [(Unknown("Path"), st)]
            if head == "ext:tqdm.tqdm" or head.endswith(".tqdm"):
                return [(args[0], st)]
            if head.startswith("ext:") and head.split(".")[-1] in ("RuntimeError", "ValueError"):
                return [(Opaque("exc:" + head.split(".")[-1]), st)]
            return None

        def walk_page(I, args, kwargs, st, node):
            p = args[1] if len(args) > 1 else kwargs.get("zo_path")
            name = W.rel(p.tag if isinstance(p, Opaque) else str(p))
            st.trace.append(("walk", name))
            return [(W.new_page(st, name), st)]

        def hash_file(I, args, kwargs, st, node):
            p = args[0]
            name = W.rel(p.tag if isinstance(p, Opaque) else str(p))
            st.trace.append(("hash", name))
            return [(W.files.get(name, "h?" + name), st)]

        def noop(I, args, kwargs, st, node):
            return [(None, st)]

        def to_str(I, v, st):
            if isinstance(v, Opaque) and v.cls == "vpath":
                return v.tag
            return None

        return {"method:*": ext_method, "getattr:*": ext_getattr, "call:*": call_any, "binop": binop, "str": to_str, "iter": handle_iter,
                "zorg.service.compiler._api.walk_zorg_page": walk_page, f"{H}._hash_file": hash_file, "zorg.shared.common.zprint": noop}

    # ------------------------------------------------------------------ objects
    def rel(self, p: str) -> str:
        for pre in (self.zdir, "/REAL" + self.zdir):
            if p.startswith(pre + "/"):
                return p[len(pre) + 1:]
        return p

    def new_page(self, st: State, name: str) -> Ref:
        return st.alloc(HObj("obj", cls="zorg.domain.models._page.Page", fields=dict(
            path=vpath(f"{self.zdir}/{name}"), has_errors=name in self.errors, notes=st.alloc(HObj("list")), events=st.alloc(HObj("list")), h0=None, h1s=st.alloc(HObj("list")), _vname=name)))

    def old_page(self, st: State, name: str) -> Ref:
        return st.alloc(HObj("obj", cls="zorg.domain.models._page.Page", fields=dict(
            path=vpath(f"{self.zdir}/{name}"), has_errors=False, notes=st.alloc(HObj("list")), events=st.alloc(HObj("list")), h0=None, h1s=st.alloc(HObj("list")), _vname=name)))

    def page_name(self, st: State, pg: Any) -> Any:
        if isinstance(pg, Ref):
            return st.obj(pg).fields.get("_vname", "?")
        return "?"

    # ------------------------------------------------------------------ running
    def run_through_runner(self, runner_qual: str, cfg_fields, max_states: int = 6000):
        """The CLI runner `runner_qual(cfg)` interpreted up to `messagebus.handle`, whose command list is captured; each captured command is then handed to
        its registered command handler in this world.  -> [(value, trace, imprecise)] of the handler runs (or of the runner, if it hands over nothing)."""
        import ast as _ast

        captured: list = []

        def handle(I, args, kwargs, st, node):
            msgs = args[2] if len(args) > 2 else kwargs.get("messages")
            items = I.B.iter_values(I, msgs, st)
            st.meta["captured_cmds"] = tuple(items or ())
            return [(None, st)]

        I = Interp(self.model, probes={**self.probes(), "zorg.service.messagebus.handle": handle}, max_states=max_states)
        st = State()
        cfg = st.alloc(HObj("obj", cls="cfg", fields=cfg_fields(st)))
        mb = self.model.module_of("zorg.service.messagebus")
        tab = mb.assigns.get("COMMAND_HANDLERS")
        out = []
        for v, s in I.run_function(runner_qual, [cfg], st=st):
            cmds = s.meta.get("captured_cmds", ())
            if isinstance(v, Raised) or not cmds:
                out.append((v, list(s.trace), list(s.imprecise) + ([] if cmds else ["the runner handed no command to messagebus.handle"])))
                continue
            for cmd in cmds:
                cls = s.obj(cmd).cls.split(".")[-1] if isinstance(cmd, Ref) else "?"
                hq = None
                if isinstance(tab, _ast.Dict):
                    for k, val in zip(tab.keys, tab.values):
                        if k is not None and _ast.unparse(k).split(".")[-1] == cls:
                            hq = self.model.resolve_expr(mb, val)
                if hq is None:
                    out.append((v, list(s.trace), list(s.imprecise) + [f"no registered handler for {cls}"]))
                    continue
                for v2, s2 in I.run_function(hq, [cmd, Opaque("vsession", "")], st=s):
                    out.append((v2, list(s2.trace), list(s2.imprecise)))
        return out

    def run(self, qual: str, cmd_fields: dict, max_states: int = 6000, build=None, probes=None):
        I = Interp(self.model, probes={**self.probes(), **(probes or {})}, max_states=max_states)
        st = State()
        fields = dict(zettel_dir=vpath(self.zdir), verbose=0, **cmd_fields)
        if build is not None:
            fields.update(build(st))
        cmd = st.alloc(HObj("obj", cls="cmd", fields=fields))
        res = I.run_function(qual, [cmd, Opaque("vsession", "")], st=st)
        return [(v, list(s.trace), list(s.imprecise)) for v, s in res]
