"""zverif: repository-specific static analysis of bbugyi200/zorg (properties C01-C18).

Nothing in this package imports, executes, traces or symbolically executes
zorg code: every verdict is computed from the source text of /repo's working
tree (``ast``), and from the ATNs serialised inside the ANTLR-generated
modules (read with ``ast.literal_eval`` and deserialised with the antlr4
runtime's ATNDeserializer).
"""
