"""Typestate of ZorgFileCompiler over the ZorgFile grammar (shared by C01 / C02 / C12)."""

from __future__ import annotations

import ast
from dataclasses import dataclass, field
from typing import Any, Optional

from .absint import Interp, Raised, State
from .absval import HObj, Opaque, Ref, Text, new_text
from .core import AnalysisError, Repo
from .grammar import FILE_LEXER, FILE_PARSER, LexerGrammar, ParserGrammar
from .listener import Walker, labels_in, snap, texts_in
from .pymodel import PyModel

COMPILER = "zorg.service.compiler._file_compiler.ZorgFileCompiler"
STATE_CLS = "zorg.service.compiler._file_compiler._ZorgFileCompilerState"
NOTE = "zorg.domain.models._page.Note"
ATOMIC = ("zorg.shared.dates.is_short_date_spec", "zorg.shared.dates.is_zid", "zorg.shared.dates.is_long_date_spec")
SECTION_RULES = {"h1_section": "H1", "h2_section": "H2", "h3_section": "H3", "h4_section": "H4"}
HEADER_RULES = {"h1_header": "H1", "h2_header": "H2", "h3_header": "H3", "h4_header": "H4"}


@dataclass
class NoteEvent:
    rule_stack: tuple
    label: str
    body: Any
    kwargs: dict  # name -> tree
    handler: str


@dataclass
class FileTypestate:
    notes: list = field(default_factory=list)
    raises: list = field(default_factory=list)
    imprecise: list = field(default_factory=list)
    stats: dict = field(default_factory=dict)
    final: list = field(default_factory=list)
    grammar: Any = None
    handlers: dict = field(default_factory=dict)
    dead_edges: list = field(default_factory=list)
    walker: Any = None
    interp: Any = None
    tree0: Any = None


def token_literal(g: ParserGrammar, lx: LexerGrammar, t: int) -> Optional[str]:
    lit = g.token_literal(t)
    if lit is not None:
        return lit
    nm = g.token_name(t)
    return lx.literal_of(nm) if nm in lx.rule_names else None


def run_file_typestate(repo: Repo, model: PyModel, walk: bool = True) -> FileTypestate:
    g = ParserGrammar(repo, FILE_PARSER)
    lx = LexerGrammar(repo, FILE_LEXER)
    if g.is_recursive():
        raise AnalysisError(f"ZorgFile grammar became recursive ({sorted(g.is_recursive())}): the event language is no longer regular")
    out = FileTypestate(grammar=g)
    holder: dict[str, Any] = {}

    def child_ctx(lbl: tuple, label: str) -> Opaque:
        if lbl[0] == "rule":
            return Opaque(f"ctx:{lbl[1]}", label)
        return Opaque(f"tok:{g.token_name(lbl[1])}", label)

    def optional_child(rule: str, want: tuple) -> bool:
        """Can ``rule`` complete without a child matching ``want``?"""
        nfa = g.rule_elements(rule)
        seen = {nfa.start}
        stack = [nfa.start]
        while stack:
            s = stack.pop()
            if s == nfa.stop:
                return True
            for _, lbl, b in nfa.out(s):
                if lbl[0] == "rule" and want == ("rule", lbl[1]):
                    continue
                if lbl[0] == "tok" and want[0] == "tok" and want[1] in lbl[1]:
                    continue
                if b not in seen:
                    seen.add(b)
                    stack.append(b)
        return False

    def ctx_method(I, recv, name, args, kwargs, st, node):
        if not recv.cls.startswith(("ctx:", "tok:")):
            return None
        kind, _, rule_full = recv.cls.partition(":")
        rule = rule_full.split("@")[0]
        label = recv.tag
        if name == "getText":
            if kind == "ctx" and "." not in rule and rule in g.rule_index:
                toks = g.tokens_of(rule)
                if toks and not g.calls(rule) and all(token_literal(g, lx, t) for t in toks) and g.min_children(rule) == 1 and len(toks) <= 8:
                    res = []
                    for i, t in enumerate(sorted(toks)):
                        s2 = st if i == len(toks) - 1 else st.fork()
                        res.append((token_literal(g, lx, t), s2))
                    return res
            return [(new_text({label}, rule_full), st)]
        if kind == "ctx" and rule in g.rule_index:
            # accessor for a child rule / token
            cand = name[:-1] if name.endswith("_") and name[:-1] in g.rule_index else name
            want = None
            if cand in g.rule_index and cand in g.calls(rule):
                want = ("rule", cand)
            else:
                try:
                    tt = g.token_type(name)
                    if tt in g.tokens_of(rule):
                        want = ("tok", tt)
                except AnalysisError:
                    want = None
            if want is not None:
                c = child_ctx(want, label)
                c = Opaque(c.cls + "@" + rule, c.tag)
                if optional_child(rule, want):
                    s2 = st.fork()
                    return [(c, st), (None, s2)]
                return [(c, st)]
        if name in ("strip", "upper", "lower"):
            return None
        st.note(f"ctx method {recv.cls}.{name} not modelled")
        return None

    def ctx_getattr(I, v, name, st, node):
        if v.cls.startswith("ctx:") and name == "children":
            return [(Opaque("children:" + v.cls[4:], v.tag), st)]
        return None

    def ctx_index(I, base, idx, st, node):
        if not base.cls.startswith("children:"):
            return None
        rule = base.cls[len("children:"):]
        if not isinstance(idx, int) or rule not in g.rule_index:
            st.note("children[...] with abstract index")
            return None
        opts = sorted(g.child_at(rule, idx), key=repr)
        if not opts:
            return [(Raised("IndexError", node, f"{rule}.children[{idx}]"), st)]
        res = []
        if idx >= g.min_children(rule):
            # an error-free tree of this rule may have fewer children
            res.append((Raised("IndexError", node, f"{rule}.children[{idx}] (rule may have only {g.min_children(rule)} children)"), st.fork()))
        kinds = sorted({("rule", o[1]) if o[0] == "rule" else ("tokens",) for o in opts})
        for i, k in enumerate(kinds):
            s2 = st if i == len(kinds) - 1 else st.fork()
            if k[0] == "rule":
                res.append((Opaque(f"ctx:{k[1]}@{rule}", base.tag), s2))
            else:
                names = sorted(g.token_name(o[1]) for o in opts if o[0] == "tok")
                res.append((Opaque("tok:" + "|".join(names), base.tag), s2))
        return res

    def strptime_hook(I, recv, name, args, kwargs, st, node):
        if name == "strptime":
            labels = set()
            for a in args:
                if isinstance(a, Text):
                    labels |= a.labels
            return [(Opaque("date", ",".join(sorted(labels))), st)]
        if name == "today":
            return [(Opaque("date", "TODAY"), st)]
        return None

    def strptime_call(I, fv, args, kwargs, st, node):
        if fv.cls.endswith("strptime"):
            return strptime_hook(I, fv, "strptime", args, kwargs, st, node)
        return None

    def note_probe(I, args, kwargs, st, node):
        w = holder["walker"]
        kw = {k: snap(v, st) for k, v in kwargs.items()}
        body = snap(args[0], st) if args else kw.get("body")
        out.notes.append(NoteEvent(tuple(w.stack), w.cur_label, body, kw, w.cur_rule))
        return [(Opaque("Note"), st)]

    opaque = {f"zorg.domain.models._page.{c}" for c in ("H1", "H2", "H3", "H4", "Block", "Section", "Page")}
    I = Interp(
        model,
        atomic=ATOMIC,
        opaque_classes=opaque,
        probes={
            "method:*": ctx_method, "getattr:*": ctx_getattr, "index:*": ctx_index, NOTE: note_probe,
            "method:ext:datetime": strptime_hook, "method:ext:datetime.datetime": strptime_hook, "method:ext:datetime.date": strptime_hook,
            "call:ext:datetime.datetime.strptime": strptime_call, "call:ext:datetime.strptime": strptime_call,
        },
        max_states=20000,
    )

    # ---- text-scan regions: statements that only compute on the item's text and
    # whose sole effect on the listener is calling self._add_prop / self._add_tag
    regions = scan_regions(model, COMPILER)
    out.stats["scan_region_statements"] = sum(len(v) for v in regions.values())

    def stmt_hook(I2, stmt, st):
        calls = REGION_INDEX.get(id(stmt))
        if calls is None:
            return None
        w = holder["walker"]
        states = [st]
        for c in calls:
            nxt = []
            for s in states:
                nxt.append(s.fork())  # the call does not happen
                args = [new_text({w.cur_label}, "scan") for _ in c.args]
                recv = s.locals.get("self")
                m = model.find_method(model.cls(COMPILER), c.func.attr)
                for v, s2 in I2.call_func(m.qualname, [recv] + args, {}, s, c):
                    nxt.append(s2)
            states = nxt
        return [(s, "fall", None) for s in states]

    REGION_INDEX = {id(stmt): calls for lst in regions.values() for stmt, calls in lst}
    I.stmt_hook = stmt_hook

    def label_for(parent: str, child: str, label: str, info: dict) -> str:
        if parent == "head" and child == "comment":
            return "TITLE" if "comment" not in info["seen"] else "HEAD_REST"
        if parent == "item":
            return "BLOCK_COMMENT" if child == "comment" else "ITEM"
        if child in HEADER_RULES:
            return HEADER_RULES[child]
        if child == "quoted_word":
            return label + ":Q" if not label.endswith(":Q") else label
        return label

    def closer(names: tuple):
        def fn(l: str) -> str:
            base = l.split(":Q")[0]
            return "CLOSED:" + l if base in names else l
        return fn

    close = {"item": closer(("ITEM", "BLOCK_COMMENT"))}
    for r, nm in SECTION_RULES.items():
        close[r] = closer((nm,))
    for needed in ("head", "item", "comment", "quoted_word", *SECTION_RULES, *HEADER_RULES):
        if needed not in g.rule_index:
            raise AnalysisError(f"grammar rule `{needed}` vanished from ZorgFileParser")
    w = Walker(model, g, COMPILER, I, label_for, close)
    w.dead_edges = shadowed_alternatives(g)
    out.dead_edges = sorted(w.dead_edges)
    w.ordinal_pairs = {("head", "comment")}
    w.state_attr = "_s"
    w.state_cls = STATE_CLS
    holder["walker"] = w
    out.handlers = w.handlers

    # initial listener object: ZorgFileCompiler(page, error_manager)
    st0 = State()
    page = st0.alloc(HObj("obj", cls="zorg.domain.models._page.Page", fields=dict(
        path=Opaque("page.path"), has_errors=False, h0=None, h1s=st0.alloc(HObj("list", setlike=True)), events=st0.alloc(HObj("list", setlike=True)))))
    em = st0.alloc(HObj("obj", cls="zorg.service.compiler._file_compiler.ErrorManager", fields=dict(errors=st0.alloc(HObj("list")))))
    ci = model.cls(COMPILER)
    I.ctx_stack.append((ci.module, ci))
    try:
        res = I.construct(COMPILER, [page, em], {}, st0)
    finally:
        I.ctx_stack.pop()
    if len(res) != 1 or isinstance(res[0][0], Raised):
        raise AnalysisError("cannot construct the abstract ZorgFileCompiler")
    root, st1 = res[0]
    if st1.imprecise:
        raise AnalysisError("compiler construction left the supported subset: " + "; ".join(st1.imprecise[:3]))
    tree0 = snap(root, st1)
    out.walker, out.interp, out.tree0 = w, I, tree0
    if not walk:
        return out
    out.final = w.walk_tree("prog", "NONE", [tree0])
    out.raises = w.raises
    out.imprecise = sorted(w.imprecise)
    out.stats = dict(w.stats, note_events=len(out.notes), final_states=len(out.final))
    return out


def scan_regions(model: PyModel, cls_qual: str) -> dict[str, list]:
    """Per method: [(stmt, [self._add_* call nodes])] for statements that can be summarised.

    A statement qualifies when (a) every use of ``self`` in it is the callee of
    ``self._add_prop(...)`` / ``self._add_tag(...)``, (b) it contains no
    return / raise / break / continue that leaves it, (c) none of the local
    names it binds is read by a later non-region statement of the same block,
    and (d) it contains a loop or comprehension (otherwise interpreting it is
    cheap).  Its effect is then over-approximated by "each such call happens
    or not, with text derived from the current item".
    """
    from .util import names_loaded, names_stored

    ci = model.cls(cls_qual)
    out: dict[str, list] = {}
    for m in ci.methods.values():
        found: list = []

        def visit_block(stmts: list) -> None:
            later_reads: set[str] = set()
            marks = []
            for stmt in reversed(stmts):
                ok = _region_ok(stmt) and not (names_stored(stmt) & later_reads)
                if ok:
                    marks.append(stmt)
                else:
                    later_reads |= names_loaded(stmt)
            for stmt in marks:
                calls = [c for c in ast.walk(stmt) if isinstance(c, ast.Call) and isinstance(c.func, ast.Attribute) and isinstance(c.func.value, ast.Name) and c.func.value.id == "self"]
                found.append((stmt, calls))
            for stmt in stmts:
                if stmt in marks:
                    continue
                for fld in ("body", "orelse", "finalbody"):
                    sub = getattr(stmt, fld, None)
                    if isinstance(sub, list) and sub and isinstance(sub[0], ast.stmt):
                        visit_block(sub)

        visit_block(m.node.body)
        if found:
            out[m.qualname] = found
    return out


def _region_ok(stmt: ast.stmt) -> bool:
    if not isinstance(stmt, (ast.For, ast.If, ast.Assign, ast.AnnAssign)):
        return False
    has_loop = False
    for n in ast.walk(stmt):
        if isinstance(n, (ast.Return, ast.Raise, ast.Yield, ast.Global, ast.Nonlocal)):
            return False
        if isinstance(n, (ast.For, ast.While, ast.ListComp, ast.GeneratorExp, ast.SetComp, ast.DictComp)):
            has_loop = True
        if isinstance(n, ast.Name) and n.id == "self":
            pass
    if not has_loop:
        return False
    # every use of `self` must be the receiver of self._add_prop / self._add_tag in call position
    allowed = set()
    for n in ast.walk(stmt):
        if isinstance(n, ast.Call) and isinstance(n.func, ast.Attribute) and isinstance(n.func.value, ast.Name) and n.func.value.id == "self" and n.func.attr in ("_add_prop", "_add_tag"):
            allowed.add(id(n.func.value))
    for n in ast.walk(stmt):
        if isinstance(n, ast.Name) and n.id == "self" and id(n) not in allowed:
            return False
        if isinstance(n, ast.Name) and n.id in ("ctx",):
            return False
    # break/continue are fine inside the statement's own loops; a bare one at the top is not
    if isinstance(stmt, ast.If):
        for n in ast.walk(stmt):
            if isinstance(n, (ast.Break, ast.Continue)):
                return False
    return True


def shadowed_alternatives(g: ParserGrammar) -> set[tuple[str, str]]:
    """(rule, child) edges that can never be taken: the child's whole (finite, one-token)
    language is derivable from an earlier alternative of the same decision, and ANTLR
    resolves the ambiguity to the lowest alternative."""
    dead: set[tuple[str, str]] = set()
    for rule in g.rule_names:
        try:
            alts = g.alternatives(rule)
        except Exception:
            continue
        if len(alts) < 2:
            continue
        firsts = []
        for a in alts:
            rs = [x[1] for x in a if x[0] == "rule"]
            firsts.append(rs[0] if len(a) == 1 and rs else None)
        for k, child in enumerate(firsts):
            if child is None or k == 0:
                continue
            # child must be exactly "one token out of a set"
            if g.calls(child) or g.min_children(child) != 1:
                continue
            nfa = g.rule_elements(child)
            toks = g.tokens_of(child)
            if not toks:
                continue
            # an alternative of the form  `child`  alone (the rule ends right after it)
            ok = True
            for t in toks:
                if not any(e is not None and g.derives(e, (t,)) for e in firsts[:k]):
                    ok = False
            if ok and _alt_is_single_rule(g, rule, child):
                dead.add((rule, child))
    return dead


def _alt_is_single_rule(g: ParserGrammar, rule: str, child: str) -> bool:
    """Every path of ``rule`` through the ``child`` edge goes start -eps-> child -eps-> stop."""
    nfa = g.rule_elements(rule)
    for a, lbl, b in nfa.edges:
        if lbl == ("rule", child):
            pre = nfa.eps_closure({nfa.start})
            post = nfa.eps_closure({b})
            if a not in pre or nfa.stop not in post:
                return False
    return True


def run_handler(ts: FileTypestate, model: PyModel, method: str, rule: str, label: str, tree: Any):
    """Interpret one listener method on one abstract listener state; returns [(value, state, root)]."""
    from .listener import rebuild

    st = State()
    root = rebuild(tree, st)
    ctx = Opaque(f"ctx:{rule}", label)
    w = ts.walker
    w.cur_label, w.cur_rule = label, rule
    qual = f"{COMPILER}.{method}"
    fi = model.func(qual)
    ts.interp.ctx_stack.append((fi.module, fi.cls))
    try:
        ts.interp.steps = 0
        res = ts.interp.call_func(qual, [root, ctx], {}, st)
    finally:
        ts.interp.ctx_stack.pop()
    return [(v, s, root) for v, s in res]


def set_state_fields(tree: Any, **fields: Any) -> Any:
    """Copy of a root tree with some fields of the `_s` state object replaced (trees, not values)."""
    root_fields = []
    for k, v in tree[2]:
        if k == "_s":
            sf = dict(v[2])
            sf.update(fields)
            v = ("obj", v[1], tuple(sorted(sf.items())))
        root_fields.append((k, v))
    return ("obj", tree[1], tuple(root_fields))


def state_fields(tree: Any) -> dict:
    for k, v in tree[2]:
        if k == "_s":
            return dict(v[2])
    return {}
