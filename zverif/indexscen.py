"""Scenario rules over abstract runs of `db reindex`, `db create` and the write-back handlers (see virtual.py).

Each scenario is a small generic world (page names and content hashes are markers).  The interpreter executes the
handlers' source over it and the obligations are stated on the resulting *trace of effects*, so they hold for the
operation however it is split into helpers, whichever idiom tests the change (`in` + subscript, `.get() !=`, guard
clause + continue) and whatever the locals are called.
"""

from __future__ import annotations

from typing import Any

from .absint import Interp, Raised, State
from .absval import Opaque
from .core import Run
from .pymodel import PyModel
from .virtual import H, World, vpath

FILE_H = "src/zorg/service/handlers.py"


def _runs(run: Run, rid: str, W: World, qual: str, cmd: dict, label: str):
    try:
        res = W.run(qual, cmd)
    except Exception as e:  # interpreter left its subset
        run.undecided(rid, qual.split(".")[-1], f"{label}: cannot interpret abstractly: {type(e).__name__}: {str(e)[:120]}")
        return []
    return res


def _idx(trace: list, pred) -> list[int]:
    return [i for i, t in enumerate(trace) if pred(t)]


def reindex_rules(run: Run, model: PyModel, rids: dict[str, str]) -> None:
    """rids maps obligation family -> rule id of the calling property:
    'change' (which pages are processed), 'order' (remove < add < commit per page), 'ack' (what file_hash.json acknowledges, and when),
    'refuse' (broken pages), 'recover' (crash recovery / stale entries)."""
    fq = model.func(f"{H}.reindex_database")
    n = 0

    # ---------------------------------------------------------------- S1: new / changed / unchanged / fixed pages
    files = {"A.zo": "hA", "B.zo": "hB2", "C.zo": "hC", "E.zo": "hE2"}
    W = World(model, files=files, old_map={"B.zo": "hB1", "C.zo": "hC", "E.zo": "hE1", "GONE.zo": "hG"}, indexed={"B.zo", "C.zo", "E.zo", "GONE.zo"}, errors=set(), whitelist=["E.zo", "W.zo"])
    for v, trace, imprecise in _runs(run, rids.get("change", "C06.R1"), W, fq.qualname, dict(paths=None), "mixed pages"):
        n += 1
        conforms = True
        walked = [t[1] for t in trace if t[0] == "walk"]
        if "change" in rids:
            ok = sorted(walked) == ["A.zo", "B.zo", "E.zo"] and not isinstance(v, Raised)
            conforms &= ok
            run.check(rids["change"], "a page is processed iff it is new or its hash differs", ok, "reindex_database", f"processed {walked}",
                      f"with A new, B and E changed, C unchanged the pages compiled are {walked}" + (f" (raises {v.exc})" if isinstance(v, Raised) else "") + ": "
                      + ("changed pages are skipped" if set(walked) < {"A.zo", "B.zo", "E.zo"} else "unchanged pages are re-indexed"), file=FILE_H, node=fq.node)
        if "order" in rids:
            for pg in walked:
                rm = _idx(trace, lambda t: t[0] == "remove" and t[1] == pg)
                ad = _idx(trace, lambda t: t[0] == "add" and t[1] == pg)
                cm = [i for i in _idx(trace, lambda t: t[0] == "commit") if ad and i > ad[0]]
                nxt = [i for i in _idx(trace, lambda t: t[0] == "walk") if ad and i > ad[0]]
                ok = len(rm) == 1 and len(ad) == 1 and rm[0] < ad[0] and bool(cm) and (not nxt or cm[0] < nxt[0])
                conforms &= ok
                run.check(rids["order"], f"{pg}: old rows removed, then the page added, then committed before the next page", ok, "reindex_database", f"{pg}: {[t[0] for t in trace if len(t) > 1 and t[1] == pg]}",
                          f"for page {pg} the effects are {[t for t in trace if t[0] in ('remove', 'add', 'commit', 'walk')]}: expected remove({pg}) < add({pg}) < commit before the next page "
                          "(otherwise notes are duplicated, or a crash loses a page whose hash is already recorded)", file=FILE_H, node=fq.node)
        if "ack" in rids:
            dumps = _idx(trace, lambda t: t[0] == "json_dump" and t[1] == W.hash_path)
            last_page_commit = max([i for i in _idx(trace, lambda t: t[0] == "commit") if any(j < i for j in _idx(trace, lambda t: t[0] == "add"))] or [-1])
            adds = _idx(trace, lambda t: t[0] == "add")
            ok_n = len(dumps) >= 1 or isinstance(v, Raised)
            for d in dumps:
                content = trace[d][2] if isinstance(trace[d][2], dict) else None
                early = [trace[a][1] for a in adds if a > d] + [trace[a][1] for a in adds if a < d and not any(a < c < d for c in _idx(trace, lambda t: t[0] == "commit"))]
                acked_early = [p for p in early if content is not None and content.get(p) == files.get(p)]
                ok = content is not None and not acked_early
                conforms &= ok
                run.check(rids["ack"], "file_hash.json never acknowledges a page before that page is committed", ok, "reindex_database", f"hash map written with {sorted(acked_early)} pending",
                          f"file_hash.json is written with the new hashes of {sorted(acked_early)} before those pages are added and committed: a refusal or a crash in between leaves them "
                          "recorded as up to date and they are skipped forever", file=FILE_H, node=fq.node)
            mid = [d for d in dumps if any(a > d for a in adds)]
            conforms &= not mid
            run.check(rids["ack"], "file_hash.json is not written while pages remain to be processed", not mid, "reindex_database", f"{len(mid)} hash-map writes inside the page loop",
                      f"file_hash.json is written {len(mid)} times before the last page has been processed (effects: {[t[0] + (':' + str(t[1]) if len(t) > 1 else '') for t in trace if t[0] in ('add', 'commit', 'json_dump')][:14]}): "
                      "the ZID / modify-date write-back of a page runs only after the whole command, so a refusal or a kill later in the same run leaves an acknowledged page whose file never "
                      "receives what the index already holds -- and the next run skips it", file=FILE_H, node=fq.node)
            final = trace[dumps[-1]][2] if dumps else None
            if isinstance(final, dict):
                wrong = {k: x for k, x in final.items() if files.get(k) != x}
                missing = sorted(set(files) - set(final))
                ok = not wrong and not missing
                conforms &= ok
                run.check(rids["ack"], "the recorded hashes are those of the files' current content, for every examined page", ok, "reindex_database", f"hash map {final}",
                          f"after the run file_hash.json holds {final}; the examined files currently hash to {files}: "
                          + (f"{sorted(wrong)} carry a stale / foreign hash (a reused hash hides a content change; a stale entry for a deleted page survives forever)" if wrong else f"{missing} are not recorded"),
                          file=FILE_H, node=fq.node)
            conforms &= ok_n
            run.check(rids["ack"], "a completed reindex records the hash map", ok_n, "reindex_database", "no hash map write", "reindex_database finishes without writing file_hash.json", file=FILE_H, node=fq.node)
            wl = [t for t in trace if t[0] == "write_text" and t[1] == W.wl_path]
            ok = bool(wl) and isinstance(wl[-1][2], str) and wl[-1][2].split("\n") == ["W.zo"]
            run.check(rids["ack"], "a page that compiles cleanly again leaves the error whitelist", ok, "reindex_database", f"whitelist {wl[-1][2] if wl else None!r}",
                      f"after E.zo was fixed the whitelist written is {wl[-1][2] if wl else None!r}, expected 'W.zo'", file=FILE_H, node=fq.node)
        if "stale" in rids:
            gone = _idx(trace, lambda t: t[0] == "remove" and t[1] == "GONE.zo")
            if gone:
                run.proved(rids["stale"], "pages that disappeared from disk are removed from the index")
            else:
                run.refuted(rids["stale"], "reindex_database", "no removal of pages missing from the current file set",
                            "reindex_database only iterates the files that exist now: the notes of a deleted or renamed page (GONE.zo in the scenario) stay in the index forever", file=FILE_H, node=fq.node)
        if imprecise and conforms:
            run.undecided(rids.get("change", rids.get("ack", "C06.R1")), "reindex_database", "mixed pages: " + "; ".join(imprecise[:2]))

    # ---------------------------------------------------------------- S2: a newly broken page is refused and nothing acknowledges it
    if "refuse" in rids:
        files2 = {"B.zo": "hB2", "D.zo": "hD2", "F.zo": "hF2"}
        W2 = World(model, files=files2, old_map={"B.zo": "hB1", "D.zo": "hD1", "F.zo": "hF1"}, indexed={"B.zo", "D.zo", "F.zo"}, errors={"D.zo"}, whitelist=[""])
        for v, trace, imprecise in _runs(run, rids["refuse"], W2, fq.qualname, dict(paths=None), "broken page"):
            n += 1
            refused = isinstance(v, Raised) and v.exc == "RuntimeError"
            added = [t[1] for t in trace if t[0] == "add"]
            run.check(rids["refuse"], "a page that newly has errors is refused (RuntimeError) and not indexed", refused and "D.zo" not in added, "reindex_database",
                      f"result {v.exc if isinstance(v, Raised) else v!r}, added {added}",
                      f"with D.zo newly broken and not whitelisted reindex_database {'raises ' + v.exc if isinstance(v, Raised) else 'completes'} and indexes {added}: a broken page is indexed silently",
                      file=FILE_H, node=fq.node)
            acked = []
            for t in trace:
                if t[0] == "json_dump" and t[1] == W2.hash_path and isinstance(t[2], dict):
                    acked += [k for k in ("B.zo", "D.zo", "F.zo") if t[2].get(k) == files2[k]]
            run.check(rids["refuse"], "a refused run records no page as up to date (neither the refused one, nor pages after it, nor pages already committed whose write-back never runs)", not acked,
                      "reindex_database", f"acknowledged {sorted(set(acked))}",
                      f"although the run is refused at D.zo, file_hash.json already holds the new hashes of {sorted(set(acked))}: the next run skips them -- a broken page is accepted silently, "
                      "and a committed page loses its pending ZID / modify-date write-back", file=FILE_H, node=fq.node)
            if imprecise and refused:
                run.undecided(rids["refuse"], "reindex_database", "broken page: " + "; ".join(imprecise[:2]))
        # a whitelisted broken page is indexed and stays whitelisted
        W3 = World(model, files={"D.zo": "hD2"}, old_map={"D.zo": "hD1"}, indexed={"D.zo"}, errors={"D.zo"}, whitelist=["D.zo"])
        for v, trace, imprecise in _runs(run, rids["refuse"], W3, fq.qualname, dict(paths=None), "whitelisted broken page"):
            n += 1
            wl = [t for t in trace if t[0] == "write_text" and t[1] == W3.wl_path]
            ok = not isinstance(v, Raised) and [t[1] for t in trace if t[0] == "add"] == ["D.zo"] and bool(wl) and wl[-1][2] == "D.zo"
            run.check(rids["refuse"], "a whitelisted broken page is indexed and stays on the whitelist", ok, "reindex_database", f"result {v!r}, whitelist {wl[-1][2] if wl else None!r}",
                      "a page that is on the error whitelist is refused / dropped from the whitelist although it still has errors", file=FILE_H, node=fq.node)

    # ---------------------------------------------------------------- S4: crash recovery -- indexed page missing from the hash map
    if "recover" in rids:
        W4 = World(model, files={"X.zo": "hX"}, old_map={}, indexed={"X.zo"}, errors=set(), whitelist=[""])
        for v, trace, imprecise in _runs(run, rids["recover"], W4, fq.qualname, dict(paths=None), "page indexed but not in the hash map"):
            n += 1
            rm = _idx(trace, lambda t: t[0] == "remove" and t[1] == "X.zo")
            ad = _idx(trace, lambda t: t[0] == "add" and t[1] == "X.zo")
            ok = bool(rm) and bool(ad) and rm[0] < ad[0]
            run.check(rids["recover"], "a page that is indexed but missing from file_hash.json has its old rows removed before it is added again", ok, "reindex_database",
                      f"effects {[t for t in trace if t[0] in ('remove', 'add')]}",
                      "a page whose rows were committed but whose hash was never recorded (crash in between) is added again without removing the old rows: every note of it is duplicated",
                      file=FILE_H, node=fq.node)
        W5 = World(model, files={"A.zo": "hA"}, old_map=None, indexed=set(), errors=set(), whitelist=[""])
        for v, trace, imprecise in _runs(run, rids["recover"], W5, fq.qualname, dict(paths=None), "no hash map yet"):
            n += 1
            ok = not isinstance(v, Raised) and [t[1] for t in trace if t[0] == "add"] == ["A.zo"]
            run.check(rids["recover"], "a missing file_hash.json means every page is new", ok, "reindex_database", f"result {v!r}", "without file_hash.json the reindex fails or skips pages", file=FILE_H, node=fq.node)
    # ---------------------------------------------------------------- S6: only some pages examined (`db reindex B.zo`)
    if "ack" in rids:
        from .virtual import vpath

        files6 = {"A.zo": "hA2", "B.zo": "hB2"}
        W6 = World(model, files=files6, old_map={"A.zo": "hA1", "B.zo": "hB1"}, indexed={"A.zo", "B.zo"}, errors=set(), whitelist=[""])
        for v, trace, imprecise in W6.run(fq.qualname, {}, build=lambda st: dict(paths=st.alloc(__import__("zverif.absval", fromlist=["HObj"]).HObj("list", items=[vpath("/Z/B.zo")])))) if True else []:
            n += 1
            acked = [t for t in trace if t[0] == "json_dump" and t[1] == W6.hash_path and isinstance(t[2], dict) and t[2].get("A.zo") == "hA2"]
            walked = [t[1] for t in trace if t[0] == "walk"]
            removed = [t[1] for t in trace if t[0] == "remove"]
            if "order" in rids or "recover" in rids:
                run.check(rids.get("order", rids.get("recover")), "a page given on the command line is removed and re-added under its own key", removed == ["B.zo"], "reindex_database", f"`db reindex B.zo`: removed {removed}",
                          f"`db reindex /Z/B.zo` (notes directory reached through a symlink) removes {removed} from the index instead of 'B.zo': the page is added a second time under another key and every note of it is duplicated",
                          file=FILE_H, node=fq.node)
            run.check(rids["ack"], "a reindex restricted to some pages does not acknowledge the others", not acked and walked == ["B.zo"], "reindex_database", f"`db reindex B.zo`: compiled {walked}, A.zo acknowledged={bool(acked)}",
                      f"`db reindex B.zo` with A.zo also edited: compiled {walked}; file_hash.json afterwards records A.zo's NEW hash although A.zo was never re-read: its edit is missed by every later reindex",
                      file=FILE_H, node=fq.node)
        # the same, entered through the CLI runner (`zorg db reindex /Z/B.zo`): the command the runner builds must name the page as the user did
        if "order" in rids or "recover" in rids:
            from .absval import HObj as _H

            rq = "zorg.app.runners._run_db.run_db_reindex"
            if model.has_func(rq):
                W7 = World(model, files=files6, old_map={"A.zo": "hA1", "B.zo": "hB1"}, indexed={"A.zo", "B.zo"}, errors=set(), whitelist=[""])
                try:
                    res7 = W7.run_through_runner(rq, lambda st: dict(zettel_dir=vpath("/Z"), database_url="sqlite:///Z/.zorg/zorg.db", verbose=0, paths=st.alloc(_H("list", items=[vpath("/Z/B.zo")]))))
                except Exception as e:  # noqa: BLE001
                    res7 = []
                    run.undecided(rids.get("order", rids.get("recover")), "run_db_reindex", f"cannot interpret the runner: {type(e).__name__}: {str(e)[:100]}")
                for v, trace, imprecise in res7:
                    n += 1
                    removed = [t[1] for t in trace if t[0] == "remove"]
                    if imprecise or isinstance(v, Raised):
                        run.undecided(rids.get("order", rids.get("recover")), "run_db_reindex", (f"raises {v.exc}" if isinstance(v, Raised) else "; ".join(imprecise[:2])))
                        continue
                    run.check(rids.get("order", rids.get("recover")), "`zorg db reindex <page>` through its runner removes and re-adds the page under its own key", removed == ["B.zo"], "run_db_reindex",
                              f"runner: removed {removed}",
                              f"`zorg db reindex /Z/B.zo` (notes directory reached through a symlink), entered through run_db_reindex, removes {removed} from the index instead of 'B.zo': the runner hands the handler "
                              "a path spelled differently from the notes directory (resolved / made absolute), so the page is indexed a second time under another key", file="src/zorg/app/runners/_run_db.py")
    run.floor("abstract runs of reindex_database", n, 1)


def event_handlers(model: PyModel, event: str) -> list:
    """Qualified names of the handlers registered for an event class in messagebus.EVENT_HANDLERS."""
    import ast

    mb = model.module_of("zorg.service.messagebus")
    tab = mb.assigns.get("EVENT_HANDLERS")
    out = []
    if isinstance(tab, ast.Dict):
        for k, v in zip(tab.keys, tab.values):
            if k is not None and ast.unparse(k).split(".")[-1] == event:
                out = [model.resolve_expr(mb, e) for e in (v.elts if isinstance(v, (ast.List, ast.Tuple)) else [v])]
    return [h for h in out if h]


def writeback_line(model: PyModel, event: str, line: str, note_fields: dict, notes_field: str, probes=None):
    """The registered handler of `event` (NewZorgNotesEvent / ModifiedZorgNotesEvent) run over a virtual one-note page whose first line is
    `line`: returns (new first line | None, reason).  Whatever helper rewrites the line - named, inlined, moved to another module - is
    reached through the handler, not looked up by name."""
    from .absval import HObj, Term
    from .virtual import vpath

    hs = event_handlers(model, event)
    if len(hs) != 1:
        return None, f"{event} has {len(hs)} registered handlers"
    body = note_fields.get("body", "")
    rest = body.split("\n")[1:] if isinstance(body, str) else []
    content = "\n".join([line] + rest) + "\n"
    W = World(model, files={"A.zo": "hA"}, old_map={"A.zo": "hA0"}, indexed={"A.zo"}, errors=set(), whitelist=[""], contents={"/Z/A.zo": content})

    def build(st):
        f = dict(line_no=1, modify_date=Term("marker:D", ()), create_date=Term("marker:D", ()), todo_payload=None, file_path=None, block=None)
        f.update(note_fields)
        note = st.alloc(HObj("obj", cls="zorg.domain.models._page.Note", fields=f))
        return {"zorg_page_path": vpath("/Z/A.zo"), notes_field: st.alloc(HObj("list", items=[note]))}

    try:
        res = W.run(hs[0], {}, build=build, probes=probes)
    except Exception as e:
        return None, f"cannot interpret {hs[0].split('.')[-1]} abstractly: {type(e).__name__}: {str(e)[:120]}"
    outs = []
    for v, trace, imprecise in res:
        if isinstance(v, Raised):
            return None, f"{line!r}: raises {v.exc}"
        if imprecise:
            return None, f"{line!r}: " + "; ".join(imprecise[:2])
        wr = [t for t in trace if t[0] == "write_text" and t[1] == "/Z/A.zo"]
        if len(wr) != 1 or not isinstance(wr[0][2], str):
            return None, f"{line!r}: {len(wr)} page writes"
        new = wr[0][2].split("\n")
        if new[1:] != content.split("\n")[1:]:
            # an observation about the code, not a limit of the analysis
            return None, f"VIOLATION: a one-note page {content!r} is written back as {wr[0][2]!r}: lines below the note's first line are changed / dropped"
        outs.append(new[0])
    if len(set(outs)) != 1:
        return None, f"{line!r}: {len(set(outs))} abstract outcomes"
    return outs[0], ""


def writeback_rules(run: Run, model: PyModel, rid: str) -> None:
    """The ZID write-back (NewZorgNotesEvent handler) on page A while page B carries an edit no reindex has processed yet."""
    from .absval import HObj, Term
    from .virtual import vpath

    hs = event_handlers(model, "NewZorgNotesEvent")
    if len(hs) != 1:
        run.undecided(rid, "EVENT_HANDLERS", f"NewZorgNotesEvent has {len(hs)} registered handlers")
        return
    q = hs[0]
    fq = model.func(q)
    files = {"A.zo": "hA3", "B.zo": "hB2"}
    W = World(model, files=files, old_map={"A.zo": "hA2", "B.zo": "hB1"}, indexed={"A.zo", "B.zo"}, errors=set(), whitelist=[""], contents={"/Z/A.zo": "# T\n\n- new note\n"})

    def build(st):
        note = st.alloc(HObj("obj", cls="zorg.domain.models._page.Note", fields=dict(body="240101#00 new note", zid="240101#00", line_no=3, modify_date=Term("marker:D", ()), create_date=Term("marker:D", ()),
                                                                                  todo_payload=None, file_path=None, block=None)))
        return dict(zorg_page_path=vpath("/Z/A.zo"), new_notes=st.alloc(HObj("list", items=[note])))

    try:
        res = W.run(q, {}, build=build)
    except Exception as e:
        run.undecided(rid, "add_zids_to_notes_in_file", f"cannot interpret the write-back abstractly: {type(e).__name__}: {str(e)[:120]}")
        return
    n = 0
    for v, trace, imprecise in res:
        n += 1
        if isinstance(v, Raised) or imprecise:
            run.undecided(rid, "add_zids_to_notes_in_file", (f"raises {v.exc}" if isinstance(v, Raised) else "; ".join(imprecise[:2])))
            continue
        run.check(rid, "the write-back does not depend on the content of file_hash.json", not [t for t in trace if t[0] == "read" and t[1] == W.hash_path], "write-back", "reads file_hash.json",
                  "the write-back reads file_hash.json: a torn (truncated) hash map then makes every re-run fail with a JSON error instead of being overwritten", file=FILE_H, node=fq.node)
        wr = [i for i, t in enumerate(trace) if t[0] == "write_text" and t[1] == "/Z/A.zo"]
        dumps = [i for i, t in enumerate(trace) if t[0] == "json_dump" and t[1] == W.hash_path]
        run.check(rid, "the write-back writes the page and then refreshes its hash", bool(wr) and bool(dumps) and wr[0] < dumps[-1] and isinstance(trace[dumps[-1]][2], dict) and trace[dumps[-1]][2].get("A.zo") == "hA3",
                  "write-back", "page write / hash refresh order",
                  "the write-back does not record the new hash of the page it just rewrote: the next reindex sees its own write as an edit and indexes / stamps the page again", file=FILE_H, node=fq.node)
        if wr:
            txt = trace[wr[0]][2]
            run.check(rid, "the write-back adds the ZID to the note's line and changes nothing else", txt == "# T\n\n- 240101#00 new note\n", "write-back", f"page text {txt!r}",
                      f"the page `# T / / - new note` is written back as {txt!r}", file=FILE_H, node=fq.node)
        if dumps and isinstance(trace[dumps[-1]][2], dict):
            kept = "B.zo" in trace[dumps[-1]][2]
            run.check(rid, "the write-back keeps the hash-map entries of the pages it did not touch", kept, "write-back", f"hash map written: {sorted(trace[dumps[-1]][2])}",
                      f"the write-back of A.zo writes a hash map holding only {sorted(trace[dumps[-1]][2])}: every other page loses its entry, so a page deleted or renamed afterwards is no longer "
                      "recognised as stale by the next plain reindex (its notes stay in the index) and every remaining page is processed again", file=FILE_H, node=fq.node)
        if dumps and isinstance(trace[dumps[-1]][2], dict) and trace[dumps[-1]][2].get("B.zo") == "hB2":
            run.refuted(rid, "write-back", "acknowledges unprocessed pages",
                        "the write-back of A.zo recomputes and stores the hashes of ALL pages: B.zo, edited but not yet processed by any reindex, is recorded as up to date and its edit is missed "
                        "by the next plain reindex", file=FILE_H, node=fq.node)
        else:
            run.proved(rid, "the write-back acknowledges only the page it wrote")
    run.floor("abstract runs of the write-back", n, 1)


def create_rules(run: Run, model: PyModel, rid: str) -> None:
    """`db create`: refuses a broken page that is not whitelisted (unless asked to update the whitelist), before acknowledging anything."""
    fq = model.func(f"{H}.create_database")
    n = 0
    for errors, wl, upd, want_refuse, label in ((set(), [""], False, False, "clean pages"), ({"B.zo"}, [""], False, True, "newly broken page"),
                                                 ({"B.zo"}, ["archive/B.zo", "myB.zo"], False, True, "newly broken page whose name is part of a whitelisted name"),
                                                 ({"B.zo"}, ["B.zo"], False, False, "whitelisted broken page"), ({"B.zo"}, [""], True, False, "broken page with --update-error-file-whitelist")):
        files = {"A.zo": "hA", "B.zo": "hB", "C.zo": "hC"}
        W = World(model, files=files, old_map=None, indexed=set(), errors=errors, whitelist=wl)
        for v, trace, imprecise in _runs(run, rid, W, fq.qualname, dict(update_error_file_whitelist=upd), label):
            n += 1
            refused = isinstance(v, Raised) and v.exc == "RuntimeError"
            ok = refused == want_refuse and (refused or not isinstance(v, Raised))
            reads = [t for t in trace if t[0] == "read" and t[1] == W.hash_path]
            run.check(rid, f"create_database does not depend on the content of file_hash.json [{label}]", not reads, "create_database", "reads file_hash.json",
                      "`db create` reads file_hash.json: it used to only overwrite it, which is why it survives a torn (truncated) hash map", file=FILE_H, node=fq.node)
            run.check(rid, f"create_database: {label} -> {'refused' if want_refuse else 'indexed'}", ok, "create_database", f"{label}: {v.exc if isinstance(v, Raised) else 'completes'}",
                      f"with a {label} create_database {'raises ' + v.exc if isinstance(v, Raised) else 'completes'}; expected {'a refusal (RuntimeError)' if want_refuse else 'the pages to be indexed'}"
                      + (": a newly broken page is indexed silently" if want_refuse else ""), file=FILE_H, node=fq.node)
            if refused:
                acked = [t for t in trace if (t[0] == "json_dump" and t[1] == W.hash_path) or (t[0] == "write_text" and t[1] == W.wl_path)]
                commits = [t for t in trace if t[0] == "commit"]
                run.check(rid, f"create_database: a refused run neither commits nor records hashes / whitelist [{label}]", not acked and not commits, "create_database", f"{len(acked)} records, {len(commits)} commits",
                          "create_database records the hash map / whitelist or commits before refusing a broken page", file=FILE_H, node=fq.node)
            elif not isinstance(v, Raised):
                dumps = [t for t in trace if t[0] == "json_dump" and t[1] == W.hash_path]
                adds = [t[1] for t in trace if t[0] == "add"]
                wlw = [t for t in trace if t[0] == "write_text" and t[1] == W.wl_path]
                ok = sorted(adds) == sorted(files) and bool(dumps) and dumps[-1][2] == files and bool(wlw) and wlw[-1][2] == "\n".join(sorted(errors)) and trace[-1][0] == "commit"
                run.check(rid, f"create_database: every page is added, the hash map and whitelist are recorded and the work is committed [{label}]", ok, "create_database",
                          f"{label}: adds {adds}, hash map {dumps[-1][2] if dumps else None}, whitelist {wlw[-1][2] if wlw else None!r}",
                          f"create_database with a {label}: adds {adds}, records {dumps[-1][2] if dumps else None} / whitelist {wlw[-1][2] if wlw else None!r}, last effect {trace[-1] if trace else None}",
                          file=FILE_H, node=fq.node)
            if imprecise:
                run.undecided(rid, "create_database", f"{label}: " + "; ".join(imprecise[:2]))
    run.floor("abstract runs of create_database", n, 5)


def nextids_untouched(run: Run, model: PyModel, rid: str) -> None:
    """`db create` / `db reindex` themselves never delete, truncate or rewrite next_ids.json (the per-date ZID counters belong to the allocator alone; the index is rebuilt, the
    counters are not): abstract runs of both command handlers over a virtual notes directory whose data directory lists its three files; page indexing is a recorded stub, so any
    effect on the counter file in the trace comes from the handlers."""
    n = 0
    for q, label in ((f"{H}.create_database", "db create"), (f"{H}.reindex_database", "db reindex")):
        fq = model.func(q)
        W = World(model, files={"A.zo": "hA2", "B.zo": "hB"}, old_map={"A.zo": "hA1", "B.zo": "hB"}, indexed={"A.zo", "B.zo"}, errors=set(), whitelist=[""])
        for v, trace, imprecise in _runs(run, rid, W, q, dict(paths=None, update_error_file_whitelist=False), f"{label}: counters"):
            n += 1
            if isinstance(v, Raised) or imprecise:
                run.undecided(rid, fq.name, f"{label}: " + (f"raises {v.exc}" if isinstance(v, Raised) else "; ".join(imprecise[:2])))
                continue
            hits = [t for t in trace if len(t) > 1 and t[1] == W.nextids_path and t[0] in ("unlink", "write_text", "open_w", "json_dump", "rename")]
            run.check(rid, f"{label} leaves next_ids.json alone", not hits, fq.name, f"{label}: {[t[0] for t in hits]} on next_ids.json",
                      f"{label} performs {[t[0] for t in hits]} on .zorg/next_ids.json: the per-date ZID counters restart, and the next allocation on a date hands out a ZID that a note in some page already carries",
                      file=FILE_H, node=fq.node)
    run.floor("command runs checked for effects on next_ids.json", n, 2)
    # ---- what else the two commands run before / around their handlers (opening the session, preparing the database file ...): every function reachable from the `db` runners that
    #      removes or renames a file, other than the handlers' own slice run above, is run by itself in the same world -- text parameters that name the database hold its URL / path
    #      inside the data directory, flags take both values -- and must leave the counter file alone as well
    import ast as _ast

    runners = [q for q in model.funcs if q.startswith("zorg.app.runners._run_db.")]
    handled = set(model.reachable([f"{H}.create_database", f"{H}.reindex_database"]))
    slice_ = sorted(set(model.reachable(runners)) - handled)
    DESTRUCTIVE = {"unlink", "rmdir", "rmtree", "rename", "replace", "truncate", "move"}

    def _msg_class(fi):
        """The message class a handler is dispatched on (first parameter typed as an event / command class), else None."""
        a0 = fi.node.args
        ps = [x for x in a0.posonlyargs + a0.args if x.arg not in ("self", "cls")]
        ann = _ast.unparse(ps[0].annotation) if ps and ps[0].annotation is not None else ""
        return ann.split(".")[-1] if (ann.split(".")[0] in ("events", "commands") or ann.endswith(("Event", "Command"))) else None

    # a message handler runs only if something that runs constructs its message class: closure of the call graph from the runners in which handlers are entered through
    # the classes constructed so far (the bus dispatches on the type of the message), not through the dispatch tables
    cg = model.callgraph()
    live: set = set()
    live_classes: set = set()
    waiting: dict = {}
    work = list(runners)
    while work:
        q0 = work.pop()
        if q0 in live or q0 not in model.funcs:
            continue
        live.add(q0)
        for c in _ast.walk(model.funcs[q0].node):
            if isinstance(c, _ast.Call):
                nm = c.func.id if isinstance(c.func, _ast.Name) else c.func.attr if isinstance(c.func, _ast.Attribute) else None
                if nm and nm not in live_classes and nm.endswith(("Event", "Command")):
                    live_classes.add(nm)
                    work.extend(waiting.pop(nm, []))
        for _, t in cg.get(q0, ()):
            if t in live or t not in model.funcs:
                continue
            mc = _msg_class(model.funcs[t])
            if mc is not None and mc not in live_classes:
                waiting.setdefault(mc, []).append(t)
            else:
                work.append(t)
    m = 0
    for q in slice_:
        f = model.funcs.get(q)
        if f is None or not q.startswith("zorg."):
            continue
        calls = [c for c in _ast.walk(f.node) if isinstance(c, _ast.Call) and isinstance(c.func, _ast.Attribute) and c.func.attr in DESTRUCTIVE
                 and not (c.func.attr == "replace" and (len(c.args) >= 2 or isinstance(c.func.value, _ast.Constant)))]  # str.replace(old, new) / dataclasses.replace(obj, **kw) are not file operations
        calls = [c for c in calls if not (c.func.attr == "replace" and c.keywords and not c.args[1:])] if calls else calls
        if not calls:
            continue
        a = f.node.args
        params = [x for x in a.posonlyargs + a.args + a.kwonlyargs if x.arg not in ("self", "cls")]
        if q not in live:
            run.sample(dict(rule=rid, skipped=f.name, reason=f"handler of {_msg_class(f)}, which nothing the db commands run constructs"))
            continue
        m += 1
        W = World(model, files={"A.zo": "hA"}, old_map={"A.zo": "hA"}, indexed={"A.zo"}, errors=set(), whitelist=[""])
        db = f"{W.zdir}/.zorg/zorg.db"
        choices = []
        seedable = True
        for x in params:
            ann = _ast.unparse(x.annotation) if x.annotation is not None else ""
            if ann == "bool":
                choices.append((x.arg, [True, False]))
            elif ann == "str" and "url" in x.arg.lower():
                choices.append((x.arg, ["sqlite:///" + db]))
            elif ("Path" in ann or ann == "str") and any(w in x.arg.lower() for w in ("db", "database")):
                choices.append((x.arg, [vpath(db) if "Path" in ann else db]))
            else:
                seedable = False
        if not seedable or len(f.node.args.posonlyargs + f.node.args.args) != len([x for x in f.node.args.posonlyargs + f.node.args.args]) or (f.cls is not None):
            run.undecided(rid, f.name, f"`{f.name}` (reachable from the db runners) removes / renames files ({', '.join(sorted({c.func.attr for c in calls}))}) and cannot be run by itself: parameters {[x.arg for x in params]}")
            continue
        import itertools as _it

        for combo in _it.product(*[vals for _, vals in choices]):
            kw = {name: val for (name, _), val in zip(choices, combo)}
            I = Interp(model, probes=W.probes(), max_states=2000)
            try:
                res = I.run_function(q, [], dict(kw), st=State())
            except Exception as e:  # noqa: BLE001
                run.undecided(rid, f.name, f"{f.name}({kw}): cannot interpret abstractly: {type(e).__name__}: {str(e)[:100]}")
                continue
            for v, st in res:
                if st.imprecise or (isinstance(v, Raised)):
                    run.undecided(rid, f.name, f"{f.name}: " + (f"raises {v.exc}" if isinstance(v, Raised) else "; ".join(st.imprecise[:2])))
                    continue
                hits = [t for t in st.trace if len(t) > 1 and t[1] == W.nextids_path and t[0] in ("unlink", "write_text", "open_w", "json_dump", "rename")]
                shown = {k: (x.tag if isinstance(x, Opaque) else x) for k, x in kw.items()}
                run.check(rid, f"{f.name}({shown}) leaves next_ids.json alone", not hits, f.name, f"{f.name}({shown}): {[t[0] for t in hits]} on next_ids.json",
                          f"`{f.name}` -- run while `db create` / `db reindex` open their session -- performs {[t[0] for t in hits]} on .zorg/next_ids.json: the per-date ZID counters restart, and the next "
                          "allocation on a date hands out a ZID that a note in some page already carries", file=f.file, node=calls[0])
    run.floor("file-removing functions around the db handlers run by themselves", m, 1)


def bus_rules(run: Run, model: PyModel, rid: str) -> None:
    """A command that fails ends the run: the message bus handles nothing after the exception of a command handler -- in particular not the write-back events of pages that
    were committed before the failure (their handlers refresh file_hash.json and would acknowledge pages the aborted run never reached).  Abstract run of messagebus._handle
    with a command whose handling raises while the session holds a pending event; and, as the positive twin, with a command that succeeds: the pending event IS handled."""
    from .absval import HObj

    MB = "zorg.service.messagebus"
    if not model.has_func(f"{MB}._handle"):
        run.undecided(rid, "messagebus", "anchor function vanished: zorg.service.messagebus._handle")
        return
    n = 0
    for fails in (True, False):
        def hc(I, args, kwargs, st, node, fails=fails):
            st.trace.append(("cmd",))
            return [(Raised("RuntimeError", node, "Zorg file has errors!") if fails else None, st)]

        def he(I, args, kwargs, st, node):
            st.trace.append(("event",))
            return [(None, st)]

        def meth(I, recv, name, args, kwargs, st, node):
            if recv.cls == "vsession" and name == "collect_new_messages":
                k = st.meta.get("collected", 0)
                st.meta["collected"] = k + 1
                ev = st.alloc(HObj("obj", cls="zorg.domain.messages.events.NewZorgNotesEvent", fields={}))
                return [(st.alloc(HObj("list", items=[ev] if k == 0 else [])), st)]
            if recv.cls == "vsession":
                return [(recv if name == "__enter__" else None, st)]
            return None

        I = Interp(model, probes={f"{MB}._handle_command": hc, f"{MB}._handle_event": he, "method:*": meth})
        st = State()
        cmd = st.alloc(HObj("obj", cls="zorg.domain.messages.commands.ReindexDBCommand", fields={}))
        try:
            res = I.run_function(f"{MB}._handle", [st.alloc(HObj("list", items=[cmd])), Opaque("vsession", "")], st=st)
        except Exception as e:  # noqa: BLE001
            run.undecided(rid, "messagebus._handle", f"cannot interpret: {type(e).__name__}: {str(e)[:100]}")
            continue
        for v, s in res:
            n += 1
            if s.imprecise:
                run.undecided(rid, "messagebus._handle", "; ".join(s.imprecise[:2]))
                continue
            kinds = [t[0] for t in s.trace if t[0] in ("cmd", "event")]
            if fails:
                run.check(rid, "a failing command ends the run: no pending event is handled after it, and the exception propagates", kinds == ["cmd"] and isinstance(v, Raised), "messagebus._handle",
                          f"failing command: handled {kinds}, {'raises' if isinstance(v, Raised) else 'returns'}",
                          f"after a command handler raised, the bus handles {kinds[1:]} and {'re-raises' if isinstance(v, Raised) else 'returns normally'}: the write-back events of an aborted run refresh "
                          "file_hash.json, which records pages the run never reached as up to date (their edits are then missed), or the failure is swallowed and the command exits 0", file="src/zorg/service/messagebus.py")
            else:
                run.check(rid, "after a successful command the pending write-back event is handled", kinds == ["cmd", "event"] and not isinstance(v, Raised), "messagebus._handle", f"successful command: handled {kinds}",
                          f"after a successful command the bus handles {kinds}: the pending write-back event is dropped (ZIDs / modify dates never reach the files)", file="src/zorg/service/messagebus.py")
    run.floor("abstract runs of the message bus", n, 2)
