"""Engine E: catalogue of external effects, target classification, may-effect summaries.

Effect kinds:  FILE_WRITE / FILE_RENAME / FILE_DELETE / FILE_TOUCH / MKDIR,
DB_ADD / DB_DELETE / DB_COMMIT / DB_ROLLBACK, STDOUT, STDERR, SUBPROCESS,
EVENT (a message queued for the bus).

File targets are classified by provenance of the path expression:
the constant tail ``file_hash.json`` -> HASHMAP, ``next_ids.json`` -> NEXTIDS,
``error_file_whitelist.txt`` -> WHITELIST, ``*.db`` -> DB; a path derived from
another path by ``with_name`` / ``with_suffix`` / ``parent / ...`` ->
DERIVED(<how>); anything else that comes from a parameter, an event field or
``prepend_zdir`` -> PAGE.
"""

from __future__ import annotations

import ast
from dataclasses import dataclass
from typing import Iterable, Optional

from .pymodel import FuncInfo, PyModel, walk_no_nested
from .util import base_name, const_str, kwarg

CONST_TAILS = {
    "file_hash.json": "HASHMAP",
    "next_ids.json": "NEXTIDS",
    "error_file_whitelist.txt": "WHITELIST",
}


@dataclass(frozen=True)
class Effect:
    kind: str
    target: str  # HASHMAP / NEXTIDS / WHITELIST / PAGE / DERIVED(...) / TMP / - for non-file
    where: str  # qualname of the function containing the effect
    line: int
    text: str

    def tag(self) -> str:
        return f"{self.kind}:{self.target}" if self.target != "-" else self.kind


class Effects:
    def __init__(self, model: PyModel):
        self.model = model
        self._direct: dict[str, list[tuple[ast.AST, Effect]]] = {}
        self._may: dict[str, set[str]] = {}
        self._handle_targets: dict[tuple[str, str], str] = {}

    # ------------------------------------------------------ path provenance
    def path_class(self, fi: FuncInfo, expr: ast.expr, depth: int = 0, line: Optional[int] = None) -> str:
        if depth > 6:
            return "PAGE"
        line = line if line is not None else getattr(expr, "lineno", 10**9)
        if isinstance(expr, ast.BinOp) and isinstance(expr.op, ast.Div):
            tail = self._str_tail(fi, expr.right)
            if tail is not None:
                for k, v in CONST_TAILS.items():
                    if tail.endswith(k):
                        return v
                if tail.endswith(".db"):
                    return "DB"
                if tail.startswith("tmp") or "/tmp" in tail:
                    return "TMP"
                if isinstance(expr.left, ast.Attribute) and expr.left.attr == "parent":
                    return f"DERIVED(parent/{tail})"
            left = self.path_class(fi, expr.left, depth + 1, line)
            return left if left.startswith(("DERIVED", "TMP")) else "PAGE"
        if isinstance(expr, ast.Name):
            defs = []
            for n in walk_no_nested(fi.node):
                if isinstance(n, (ast.Assign, ast.AnnAssign)) and getattr(n, "value", None) is not None and n.lineno <= line:
                    tg = n.targets if isinstance(n, ast.Assign) else [n.target]
                    if any(isinstance(t, ast.Name) and t.id == expr.id for t in tg):
                        defs.append(n)
                if isinstance(n, ast.withitem) and isinstance(n.optional_vars, ast.Name) and n.optional_vars.id == expr.id:
                    pass
            if defs:
                classes = {self.path_class(fi, d.value, depth + 1, d.lineno - 1 if _mentions(d.value, expr.id) else d.lineno) for d in defs}
                for pref in ("DERIVED", "TMP", "HASHMAP", "NEXTIDS", "WHITELIST", "DB", "PARAM"):
                    for c in classes:
                        if c.startswith(pref):
                            return c
                return "PAGE"
            if expr.id in {a.arg for a in fi.params()} and expr.id not in ("self", "cls"):
                return f"PARAM:{expr.id}"
            return "PAGE"  # loop variable etc.
        if isinstance(expr, ast.Attribute):
            if expr.attr == "parent":
                return self.path_class(fi, expr.value, depth + 1, line)
            # self._x : look at the __init__ assignment
            if isinstance(expr.value, ast.Name) and expr.value.id == "self" and fi.cls is not None:
                init = self.model.find_method(fi.cls, "__init__")
                if init:
                    for n in walk_no_nested(init.node):
                        if isinstance(n, ast.Assign) and any(
                            isinstance(t, ast.Attribute) and t.attr == expr.attr and isinstance(t.value, ast.Name) and t.value.id == "self" for t in n.targets
                        ):
                            return self.path_class(init, n.value, depth + 1, n.lineno)
            return "PAGE"
        if isinstance(expr, ast.Call):
            f = expr.func
            if isinstance(f, ast.Attribute) and f.attr in ("with_name", "with_suffix", "with_stem"):
                arg = ast.unparse(expr.args[0]) if expr.args else ""
                return f"DERIVED({f.attr}:{arg})"
            if isinstance(f, ast.Name) and f.id == "Path" and expr.args:
                s = self._str_tail(fi, expr.args[0])
                if s is not None:
                    for k, v in CONST_TAILS.items():
                        if s.endswith(k):
                            return v
                    if "tmp" in s:
                        return "TMP"
                return self.path_class(fi, expr.args[0], depth + 1, line)
            tgt = self.model.callee(fi, expr)
            if tgt in self.model.funcs:
                callee = self.model.funcs[tgt]
                rets = [n for n in walk_no_nested(callee.node) if isinstance(n, ast.Return) and n.value is not None]
                classes = {self.path_class(callee, r.value, depth + 1, r.lineno) for r in rets}
                for pref in ("HASHMAP", "NEXTIDS", "WHITELIST", "DB", "TMP", "DERIVED"):
                    for c in classes:
                        if c.startswith(pref):
                            return c
            return "PAGE"
        if isinstance(expr, ast.Subscript):
            return self.path_class(fi, expr.value, depth + 1, line)
        s = self._str_tail(fi, expr)
        if s is not None:
            for k, v in CONST_TAILS.items():
                if s.endswith(k):
                    return v
            if "tmp" in s:
                return "TMP"
        return "PAGE"

    def _str_tail(self, fi: FuncInfo, expr: ast.expr) -> Optional[str]:
        if isinstance(expr, ast.Constant) and isinstance(expr.value, str):
            return expr.value
        if isinstance(expr, ast.JoinedStr):
            last = expr.values[-1] if expr.values else None
            if isinstance(last, ast.Constant):
                return str(last.value)
            return ""
        if isinstance(expr, ast.Name):  # module-level (or imported) string constant
            v = fi.module.assigns.get(expr.id)
            if v is None and expr.id in fi.module.imports:
                r = self.model.resolve_dotted(fi.module.imports[expr.id])
                if r and "." in r:
                    m, n = r.rsplit(".", 1)
                    if m in self.model.modules:
                        v = self.model.modules[m].assigns.get(n)
            if isinstance(v, ast.Constant) and isinstance(v.value, str):
                return v.value
        return None

    # --------------------------------------------------------- direct effects
    def direct(self, fi: FuncInfo) -> list[tuple[ast.AST, Effect]]:
        key = (fi.qualname, id(fi.node))  # a flattened view of the same function is a different unit
        if key in self._direct:
            return self._direct[key]
        out: list[tuple[ast.AST, Effect]] = []
        env = self.model.local_env(fi)

        def add(node: ast.AST, kind: str, target: str = "-") -> None:
            out.append((node, Effect(kind, target, fi.qualname, getattr(node, "lineno", 0), ast.unparse(node)[:100])))

        # file handles opened for writing:  with P.open("w") as f / open(P, "w") as f
        handles: dict[str, str] = {}
        for n in walk_no_nested(fi.node):
            if isinstance(n, ast.withitem) and isinstance(n.context_expr, ast.Call):
                c = n.context_expr
                mode = None
                path_expr = None
                if isinstance(c.func, ast.Attribute) and c.func.attr == "open":
                    mode = const_str(c.args[0]) if c.args else const_str(kwarg(c, "mode"))
                    path_expr = c.func.value
                elif isinstance(c.func, ast.Name) and c.func.id == "open" and c.args:
                    mode = const_str(c.args[1]) if len(c.args) > 1 else const_str(kwarg(c, "mode"))
                    path_expr = c.args[0]
                if path_expr is not None and mode and any(ch in mode for ch in "wax+"):
                    tgt = self.path_class(fi, path_expr)
                    add(c, "FILE_WRITE", tgt)  # opening with "w" truncates
                    if isinstance(n.optional_vars, ast.Name):
                        handles[n.optional_vars.id] = tgt
        for n in walk_no_nested(fi.node):
            if not isinstance(n, ast.Call):
                continue
            f = n.func
            txt = ast.unparse(f)
            if isinstance(f, ast.Name) and f.id in ("print", "pprint"):
                fl = kwarg(n, "file") or (kwarg(n, "stream"))
                if fl is None or ast.unparse(fl).endswith("stdout"):
                    add(n, "STDOUT")
                elif ast.unparse(fl).endswith("stderr"):
                    add(n, "STDERR")
                else:
                    add(n, "STDOUT?")
            elif txt in ("rich.print", "sys.stdout.write", "pprint.pprint", "rich.pretty.pprint"):
                add(n, "STDOUT")
            elif txt == "sys.stderr.write":
                add(n, "STDERR")
            elif isinstance(f, ast.Name) and f.id == "tqdm" or txt.endswith(".tqdm"):
                fl = kwarg(n, "file")
                add(n, "STDOUT" if fl is not None and ast.unparse(fl).endswith("stdout") else "STDERR")
            elif isinstance(f, ast.Name) and f.id == "input":
                add(n, "STDOUT")  # input() echoes its prompt on stdout
            elif isinstance(f, ast.Attribute):
                a = f.attr
                recv_cls = self.model.expr_class(fi, f.value, env)
                if a in ("write_text", "write_bytes"):
                    add(n, "FILE_WRITE", self.path_class(fi, f.value))
                elif a == "rename" or (a == "replace" and len(n.args) == 1 and not n.keywords and _looks_like_path(fi, f.value, self)):
                    add(n, "FILE_RENAME", self.path_class(fi, f.value) + "->" + (self.path_class(fi, n.args[0]) if n.args else "?"))
                elif a == "unlink":
                    add(n, "FILE_DELETE", self.path_class(fi, f.value))
                elif a == "touch":
                    add(n, "FILE_TOUCH", self.path_class(fi, f.value))
                elif a == "mkdir" or txt == "os.makedirs":
                    add(n, "MKDIR")
                elif a in ("dump",) and txt.startswith("json") and len(n.args) >= 2:
                    h = base_name(n.args[1])
                    add(n, "FILE_WRITE", handles.get(h or "", "PAGE"))
                elif a == "write" and base_name(f.value) in handles:
                    add(n, "FILE_WRITE", handles[base_name(f.value)])  # type: ignore[index]
                elif a in ("run", "Popen", "call", "check_call", "check_output") and txt.split(".")[0] in ("sp", "subprocess"):
                    add(n, "SUBPROCESS")
                elif txt == "vimala.vim":
                    add(n, "SUBPROCESS")
                elif a in ("add", "delete", "commit", "rollback") and _is_sqla_session(fi, f.value, self.model, env):
                    add(n, "DB_" + a.upper())
                elif a == "append" and isinstance(f.value, ast.Attribute) and f.value.attr == "events":
                    add(n, "EVENT", _event_class(n))
                elif a in ("add_message", "add_last_message"):
                    add(n, "EVENT", _event_class(n))
        # engine echo: create_engine(..., echo=True) logs SQL on stdout
        for n in walk_no_nested(fi.node):
            if isinstance(n, ast.Assign) and isinstance(n.targets[0], ast.Subscript):
                sl = n.targets[0].slice
                if isinstance(sl, ast.Constant) and sl.value == "echo" and isinstance(n.value, ast.Constant) and n.value.value is True:
                    add(n, "STDOUT")
            if isinstance(n, ast.Call) and kwarg(n, "echo") is not None and isinstance(kwarg(n, "echo"), ast.Constant) and kwarg(n, "echo").value is True:  # type: ignore[union-attr]
                add(n, "STDOUT")
        out.sort(key=lambda t: (getattr(t[0], "lineno", 0), getattr(t[0], "col_offset", 0)))
        self._direct[key] = out
        return out

    # ------------------------------------------------------- may summaries
    def may(self, qualname: str) -> set[str]:
        """Transitive may-effect tags of a function (fixpoint over the call graph)."""
        if not self._may:
            cg = self.model.callgraph()
            cur = {q: {e.tag() for _, e in self.direct(fi)} for q, fi in self.model.funcs.items()}
            changed = True
            while changed:
                changed = False
                for q in cur:
                    fq = self.model.funcs[q]
                    for call, t in cg.get(q, []):
                        inst = {self.instantiate(fq, call, t, tag) for tag in cur.get(t, set())}
                        new = inst - cur[q]
                        if new:
                            cur[q] |= new
                            changed = True
            self._may = cur
        return self._may.get(qualname, set())

    def instantiate(self, caller: FuncInfo, call: ast.Call, callee_q: str, tag: str) -> str:
        """Replace PARAM:<name> in a callee's effect tag by the class of the actual argument."""
        if "PARAM:" not in tag:
            return tag
        callee = self.model.funcs.get(callee_q)
        if callee is None or not isinstance(call, ast.Call):
            return tag.replace("PARAM:", "PAGE#")
        head, _, pname = tag.partition("PARAM:")
        pname = pname.split("->")[0]
        names = [a.arg for a in callee.params()]
        if names and names[0] in ("self", "cls"):
            names = names[1:]
        actual = None
        for k in call.keywords:
            if k.arg == pname:
                actual = k.value
        if actual is None and pname in names:
            i = names.index(pname)
            if i < len(call.args):
                actual = call.args[i]
        if actual is None:
            return head + "PAGE"
        cls = self.path_class(caller, actual)
        return head + cls

    def call_effects(self, fi: FuncInfo, node: ast.AST) -> list[tuple[ast.AST, str, set[str]]]:
        """For every call inside ``node`` that resolves to a zorg function: (call, qualname, may-tags)."""
        env = self.model.local_env(fi)
        out = []
        for n in ast.walk(node):
            if isinstance(n, ast.Call):
                t = self.model.callee(fi, n, env)
                if t in self.model.classes:
                    init = self.model.find_method(self.model.classes[t], "__init__")
                    t = init.qualname if init else None
                if t in self.model.funcs:
                    out.append((n, t, {self.instantiate(fi, n, t, tag) for tag in self.may(t)}))
        return out

    def node_tags(self, fi: FuncInfo, node: ast.AST) -> list[tuple[ast.AST, str, str]]:
        """Ordered (node, tag, via) of direct effects and callee may-effects inside ``node``."""
        out: list[tuple[ast.AST, str, str]] = []
        ids = {id(x) for x in ast.walk(node)}
        for n, e in self.direct(fi):
            if id(n) in ids:
                out.append((n, e.tag(), "direct"))
        for n, q, tags in self.call_effects(fi, node):
            for t in sorted(tags):
                out.append((n, t, q))
        out.sort(key=lambda t: (getattr(t[0], "lineno", 0), getattr(t[0], "col_offset", 0)))
        return out


def _mentions(v: ast.AST, name: str) -> bool:
    return any(isinstance(n, ast.Name) and n.id == name for n in ast.walk(v))


def _looks_like_path(fi: FuncInfo, expr: ast.expr, eff: "Effects") -> bool:
    """Path.replace(target) vs str.replace(a, b): one positional argument => Path."""
    return True


def _is_sqla_session(fi: FuncInfo, recv: ast.expr, model: PyModel, env: dict[str, str]) -> bool:
    txt = ast.unparse(recv)
    if txt.endswith("_session") or txt in ("session", "self._session"):
        c = model.expr_class(fi, recv, env)
        # zorg's own SQLSession wrapper is resolved through the call graph instead
        return c is None
    return False


def _event_class(call: ast.Call) -> str:
    if call.args and isinstance(call.args[0], ast.Call):
        return ast.unparse(call.args[0].func).split(".")[-1]
    if call.args and isinstance(call.args[0], ast.Name):
        return call.args[0].id
    return "?"
