"""Self-validation of the checkers: single-edit variants applied as in-memory overlays.

Each variant is (id, property, file, old text, new text, expectation).  Nothing
is written under /repo or /verif and no zorg code is executed: the overlay is
only *read* by the same checkers.  ``bad`` variants must be refuted by the named
rule; ``ok`` variants are behaviour-preserving rewrites and must stay silent
(no VIOLATION; an UNDECIDED / exit-2 answer is tolerated but reported).

A variant whose ``old`` text does not occur exactly once in the current tree is
skipped (the tree under test has diverged there); this never fails a run.

    /venv/bin/python -m zverif.selftest [PID ...] [--jobs N]
"""

from __future__ import annotations

import argparse
import json
import sys
import time
from concurrent.futures import ProcessPoolExecutor
from pathlib import Path

from .core import DEFAULT_REPO, Repo, collect

FC = "src/zorg/service/compiler/_file_compiler.py"
QC = "src/zorg/storage/sql/_query_converter.py"
QCMP = "src/zorg/service/compiler/_query_compiler.py"
HD = "src/zorg/service/handlers.py"
RP = "src/zorg/storage/sql/_repo.py"
PCV = "src/zorg/storage/sql/_page_converters.py"
ZM = "src/zorg/storage/sql/_zid_manager.py"
DT = "src/zorg/shared/dates.py"
TY = "src/zorg/domain/types.py"
EX = "src/zorg/service/swog/_executor.py"
FM = "src/zorg/storage/file/_manager.py"
NU = "src/zorg/service/note_utils.py"
PG = "src/zorg/domain/models/_page.py"
RF = "src/zorg/app/runners/_run_file.py"
CM = "src/zorg/shared/common.py"
SQ = "src/zorg/service/swog/_saved_queries.py"
TP = "src/zorg/service/templates.py"
RA = "src/zorg/app/runners/_run_action.py"
FG = "src/zorg/service/file_groups.py"
API = "src/zorg/service/compiler/_api.py"

# (id, property, file, old, new, expect, rule-prefix or None)
VARIANTS = [
    # ---------------------------------------------------------------- C01
    ("C01-b1", "C01", FC, "        self._s.todo_priority = _DEFAULT_PRIORITY\n        self._s.todo_status = NoteType.OPEN_TODO\n", "        self._s.todo_status = NoteType.OPEN_TODO\n", "bad", "C01.R4"),
    ("C01-b2", "C01", FC, '            elif ch == "<":\n                status = NoteType.BLOCKED_TODO\n            elif ch == ">":\n                status = NoteType.PARENT_TODO', '            elif ch == "<":\n                status = NoteType.PARENT_TODO\n            elif ch == ">":\n                status = NoteType.BLOCKED_TODO', "bad", "C01.R3"),
    ("C01-b3", "C01", FC, "note_body.start.line, **extra_kwargs", "note_body.stop.line, **extra_kwargs", "bad", "C01.R4"),
    ("C01-b4", "C01", FC, "or (self._s.ids_in_note == 2 and self._s.modify_date)", "or (self._s.ids_in_note >= 2 and self._s.modify_date)", "bad", "C01.R5"),
    ("C01-b5", "C01", FC, "        self._s.modify_date = None\n\n    def _add_prop", "\n    def _add_prop", "bad", "C01.R4"),
    ("C01-b6", "C01", FC, "    def exitBase_note(\n        self, ctx: ZorgFileParser.Base_noteContext\n    ) -> None:  # noqa: D102\n        self._add_note(ctx.note_body())", "    def exitBase_note(\n        self, ctx: ZorgFileParser.Base_noteContext\n    ) -> None:  # noqa: D102\n        self._add_note(ctx.note_body(), todo_payload=TodoPayload())", "bad", "C01.R3"),
    ("C01-ok1", "C01", FC, '            if ch == "o":\n                status = NoteType.OPEN_TODO\n            elif ch == "x":\n                status = NoteType.CLOSED_TODO\n            elif ch == "~":\n                status = NoteType.CANCELED_TODO\n            elif ch == "<":\n                status = NoteType.BLOCKED_TODO\n            elif ch == ">":\n                status = NoteType.PARENT_TODO\n            else:\n                assert_never(ch)\n', "            status = NoteType(ch)\n", "ok", None),
    # ---------------------------------------------------------------- C02
    ("C02-b1", "C02", FC, "        if self._s.in_first_comment:\n            self._s.file_tags[tag_name].append(tag_value)", "        if self._s.in_head:\n            self._s.file_tags[tag_name].append(tag_value)", "bad", "C02.R2"),
    ("C02-b2", "C02", FC, "        self._s.h2_date = None\n        self._s.h2_props = {}\n", "        self._s.h2_date = None\n", "bad", "C02.R2"),
    ("C02-b3", "C02", FC, "        tags.extend(self.h3_tags[tag_name])\n", "", "bad", "C02.R3"),
    ("C02-b4", "C02", FC, "            | self.h4_props\n            | self.note_props\n", "            | self.note_props\n            | self.h4_props\n", "bad", "C02.R4"),
    ("C02-b5", "C02", FC, "        if all(ch.isdigit() for ch in tag_value):", "        if all(ch.isdigit() for ch in tag_value) and len(tag_value) > 8:", "bad", "C02.R5"),
    ("C02-b6", "C02", FC, "    def enterItem(self, ctx: ZorgFileParser.ItemContext) -> None:  # noqa: D102\n        del ctx\n        self._reset_note_context()", "    def enterItem(self, ctx: ZorgFileParser.ItemContext) -> None:  # noqa: D102\n        del ctx", "bad", "C02.R2"),
    ("C02-b7", "C02", FC, "        elif self.h4_date:\n            return self.h4_date\n        elif self.h3_date:\n            return self.h3_date", "        elif self.h3_date:\n            return self.h3_date\n        elif self.h4_date:\n            return self.h4_date", "bad", "C02.R4"),
    ("C02-ok1", "C02", FC, "        return (\n            self.file_props\n            | self.h1_props\n            | self.h2_props\n            | self.h3_props\n            | self.h4_props\n            | self.note_props\n        )", "        return {**self.file_props, **self.h1_props, **self.h2_props, **self.h3_props, **self.h4_props, **self.note_props}", "ok", None),
    # ---------------------------------------------------------------- C03
    ("C03-b1", "C03", QC, "    @_to_sql_where_helper\n    def file_filters(", "    def file_filters(", "bad", "C03.R1"),
    ("C03-b2", "C03", QC, "date_filters.append(sql_date <= end_date)", "date_filters.append(sql_date < end_date)", "bad", "C03.R2"),
    ("C03-b3", "C03", QC, "                    name = name[1:]\n                    in_op = sql.Note.id.not_in  # type: ignore[union-attr]\n                else:\n                    in_op = sql.Note.id.in_  # type: ignore[union-attr]", "                    name = name[1:]\n                    in_op = sql.Note.id.in_  # type: ignore[union-attr]\n                else:\n                    in_op = sql.Note.id.not_in  # type: ignore[union-attr]", "bad", "C03.R2"),
    ("C03-b4", "C03", QC, "PropertyOperator.LT: operator.ge if negated else operator.lt,", "PropertyOperator.LT: operator.gt if negated else operator.lt,", "bad", "C03.R3"),
    ("C03-b5", "C03", QC, "(self.and_filter.modify_date_ranges, sql.Note.modify_date),", "(self.and_filter.modify_date_ranges, sql.Note.create_date),", "bad", "C03.R2"),
    ("C03-b6", "C03", QC, "                    _escape_like(file_filter.path_glob).replace(\"*\", \"%\"),\n                    escape=_LIKE_ESCAPE_CHAR,", "                    _escape_like(file_filter.path_glob).replace(\"*\", \"%\"),", "bad", "C03.R4"),
    ("C03-b7", "C03", QC, "        return or_(*[\n            sql.Note.todo_status == _to_todo_status(note_type)", "        return and_(*[\n            sql.Note.todo_status == _to_todo_status(note_type)", "bad", "C03.R2"),
    ("C03-ok1", "C03", QC, "            return (\n                and_(conditions[0], *conditions[1:])\n                if len(conditions) > 1\n                else conditions[0]\n            )", "            return and_(*conditions)", "ok", None),
    # ---------------------------------------------------------------- C04
    ("C04-b1", "C04", QCMP, "p_end_idx = int(p_start_and_end.pop(0)) + 1", "p_end_idx = int(p_start_and_end.pop(0))", "bad", "C04.R2"),
    ("C04-b2", "C04", QCMP, "        elif note_type_char.LANGLE():\n            allowed_note_types.add(NoteType.BLOCKED_TODO)", "        elif note_type_char.LANGLE():\n            allowed_note_types.add(NoteType.PARENT_TODO)", "bad", "C04.R1"),
    ("C04-b3", "C04", QCMP, "                create_date_ranges.add(\n                    _get_date_range(create_range, short_start_date)", "                modify_date_ranges.add(\n                    _get_date_range(create_range, short_start_date)", "bad", "C04.R1"),
    ("C04-b4", "C04", DT, "        delta = relativedelta(months=N)", "        delta = dt.timedelta(days=30 * N)", "bad", "C04.R3"),
    ("C04-b5", "C04", QCMP, "        self._and_filter_groups[-1][-1].or_filters.append(", "        self._and_filter_groups[-1][0].or_filters.append(", "bad", "C04.R5"),
    ("C04-b6", "C04", QCMP, "            elif group_by_atom.PERCENT():\n                group_by_type = GroupByType.PERSON", "            elif group_by_atom.PERCENT():\n                group_by_type = GroupByType.PROJECT", "bad", "C04.R1"),
    ("C04-b7", "C04", QCMP, "    if zdt.is_date_spec(value):\n        return PropertyValueType.DATE\n    elif all(ch.isdigit() for ch in value):\n        return PropertyValueType.INTEGER", "    if all(ch.isdigit() for ch in value):\n        return PropertyValueType.INTEGER\n    elif zdt.is_date_spec(value):\n        return PropertyValueType.DATE", "bad", "C04.R4"),
    # ---------------------------------------------------------------- C05
    ("C05-b1", "C05", PCV, '            "modify_date": note.modify_date,\n', "", "bad", "C05.R1"),
    # (end_idx one larger in BOTH the middle slice and the tail is behaviour-preserving: it was a wrong "bad" variant of the structural rule)
    ("C05-b2", "C05", HD, "zlines = zlines[:start_idx] + new_note_lines + zlines[end_idx:]", "zlines = zlines[:start_idx] + new_note_lines + zlines[end_idx + 1 :]", "bad", "C05.R3"),
    ("C05-g2", "C05", HD, 'end_idx = note.line_no + len(note.body.split("\\n")) - 1', 'end_idx = note.line_no + len(note.body.split("\\n"))', "good", ""),
    ("C05-b3", "C05", RP, "        _add_zids(self._zdir, page)\n        sql_page = self._page_converter.from_entity(page)", "        sql_page = self._page_converter.from_entity(page)\n        _add_zids(self._zdir, page)", "bad", "C05.R2"),
    ("C05-b4", "C05", PCV, "            links=[link.name for link in sql_note.links],\n", "", "bad", "C05.R1"),
    # ---------------------------------------------------------------- C06
    ("C06-b1", "C06", HD, "or old_file_to_hash[zorg_page_name] != hash_", "or old_file_to_hash[zorg_page_name] == hash_", "bad", "C06.R1"),
    ("C06-b2", "C06", RP, "                self._session.delete(sql_note)\n", "                if sql_note.zid:\n                    self._session.delete(sql_note)\n", "bad", "C06.R2"),
    # ---------------------------------------------------------------- C07
    ("C07-b1", "C07", ZM, '        if ch == "9":\n            next_ch = "A"', '        if ch == "9":\n            next_ch = "B"', "bad", "C07.R"),
    ("C07-b2", "C07", ZM, "        self._write_to_disk(next_id_map)\n        return", "        return", "bad", "C07.R3"),
    ("C07-b3", "C07", ZM, '        return "000"', '        return "00"', "bad", "C07.R2"),
    ("C07-b4", "C07", ZM, '        elif ch == "Z":\n            next_ch = "a"', '        elif ch == "Z":\n            next_ch = "A"', "bad", "C07.R2"),
    # ---------------------------------------------------------------- C08
    ("C08-b1", "C08", FC, "                if words and zdt.is_zid(words[0]):", "                if zdt.is_zid(words[0]):", "bad", "C08.R1"),
    ("C08-b2", "C08", FC, "        elif self.error_manager.errors:\n            _LOGGER.warning(", "        elif self.error_manager.errors and self.page.has_errors:\n            _LOGGER.warning(", "bad", "C08.R5"),
    ("C08-b3", "C08", HD, "            zorg_page_path_str in old_error_files\n            or cmd.update_error_file_whitelist\n        ):", "            zorg_page_path_str in old_error_files\n            or not cmd.update_error_file_whitelist\n        ):", "bad", "C08.R4"),
    ("C08-b4", "C08", FC, '        self._add_tag("areas", ctx.children[1].getText())', '        self._add_tag("areas", ctx.children[2].getText())', "bad", "C08.R1"),
    # ---------------------------------------------------------------- C09
    ("C09-b1", "C09", EX, "    sorted_notes = sorted(notes, key=key)", "    sorted_notes = list(notes)", "bad", "C09.R1"),
    ("C09-b2", "C09", EX, "        return f\"{'+' * 16}\"", "        return f\"{'+' * 15}\"", "bad", "C09.R4"),
    ("C09-b3", "C09", TY, '            return _to_comparable_tag_factory("people", "%")', '            return _to_comparable_tag_factory("projects", "%")', "bad", "C09.R3"),
    ("C09-b4", "C09", TY, "            return len(values)", "            return len(set(values))", "bad", "C09.R5"),
    # ---------------------------------------------------------------- C10
    ("C10-b1", "C10", FM, '            if line.startswith(("- ", "o ", "~ ", "x ", "< ", "> ")):', '            if line.startswith(("- ", "o ", "~ ", "x ", "> ")):', "ok", None),  # only moves the insertion point: no line is lost, the property does not fix the position
    ("C10-b2", "C10", NU, '        elif mtype == "projects":\n            prefix_chars = "+"', '        elif mtype == "projects":\n            prefix_chars = "#"', "bad", "C10.R3"),
    ("C10-b3", "C10", FM, '        if zlines[start_idx].strip() == "":\n            # Replace the blank line we settled on with the new note.\n            end_idx = start_idx + 1\n        else:', '        if start_idx >= 0:\n            # Replace the blank line we settled on with the new note.\n            end_idx = start_idx + 1\n        else:', "bad", "C10.R1"),
    # ---------------------------------------------------------------- C11
    ("C11-b1", "C11", HD, "        if note.modify_date != today and note_has_changed:", "        if note.modify_date != today or note_has_changed:", "bad", "C11.R1"),
    ("C11-b2", "C11", PG, "            and self.body == other.body\n            and self.todo_payload == other.todo_payload", "            and self.body == other.body", "bad", "C11.R2"),
    ("C11-b3", "C11", HD, '    _write_file_hash_to_disk(\n        _get_file_hash_path(zdir), _get_file_hash_map(zdir)\n    )\n', "", "bad", "C11.R4"),
    # ---------------------------------------------------------------- C12
    ("C12-b1", "C12", PG, '        return f"{char}{priority} {self.body.strip()}\\n"', '        return f"{char}{priority} {self.body.strip()}"', "bad", "C12.R3"),
    ("C12-b2", "C12", PG, "            not in [NoteType.CLOSED_TODO, NoteType.CANCELED_TODO]", "            not in [NoteType.CLOSED_TODO, NoteType.CANCELED_TODO, NoteType.BLOCKED_TODO]", "bad", "C12.R2"),
    # ---------------------------------------------------------------- C13
    ("C13-b1", "C13", HD, '    _write_file_hash_to_disk(\n        _get_file_hash_path(zdir), _get_file_hash_map(zdir)\n    )\n', "", "bad", "C13.R4"),
    ("C13-b2", "C13", ZM, "        self._write_to_disk(next_id_map)\n        return", "        return", "bad", "C13.R1"),
    # ---------------------------------------------------------------- C14
    ("C14-b1", "C14", RF, '        f"[[{src_link_name}#": f"[[{dest_link_name}#",\n', "", "bad", "C14.R1"),
    ("C14-b2", "C14", CM, '        zdir.rglob("*.zo"), zdir.rglob("*.zot"), zdir.rglob("*.zoq")', '        zdir.rglob("*.zo"), zdir.rglob("*.zoq")', "bad", "C14.R2"),
    ("C14-b3", "C14", RF, '        f"[[{src_link_name}]": f"[[{dest_link_name}]",', '        f"[[{src_link_name}": f"[[{dest_link_name}",', "bad", "C14.R1"),
    # ---------------------------------------------------------------- C15
    ("C15-b1", "C15", SQ, '    if "|" in where_filter:\n        where_filter = f"({where_filter})"\n', "", "bad", "C15.R1"),
    ("C15-b2", "C15", SQ, "        if sub_where_filter is None:\n            _LOGGER.error(\n                \"Failed to get saved WHERE filter from query name\",\n                query_name=qname,\n            )\n            return None\n", "", "bad", "C15.R2"),
    # ---------------------------------------------------------------- C16
    ("C16-b1", "C16", TP, "            var_map |= match.groupdict()\n            break\n", "            var_map |= match.groupdict()\n", "bad", "C16.R2"),
    ("C16-b2", "C16", TP, "    if new_path.exists() and not should_overwrite_existing:", "    if new_path.exists() and not should_overwrite_existing and template is None:", "bad", "C16.R1"),
    ("C16-ok1", "C16", TP, "    if new_path.exists() and not should_overwrite_existing:\n        return\n", "    if not should_overwrite_existing and new_path.exists():\n        return\n", "ok", None),
    # ---------------------------------------------------------------- C17
    ("C17-b1", "C17", RA, '        print(f"EDIT {zo_path}")', "        print(zo_path)", "bad", "C17.R1"),
    ("C17-b2", "C17", RA, "                if i + 1 == cfg.option_idx:", "                if i == cfg.option_idx:", "bad", "C17.R3"),
    ("C17-b3", "C17", RA, '    elif target.startswith("[@") and target.endswith("]"):\n        return _open_rid_link(cfg, target)\n', "", "bad", "C17.R2"),
    # ---------------------------------------------------------------- C18
    ("C18-b1", "C18", FG, "    for i in range(7):", "    for i in range(1, 8):", "bad", "C18.R2"),
    ("C18-b2", "C18", FG, "    for zo_path in zo_paths:", "    for zo_path in sorted(zo_paths, key=str):", "bad", "C18.R1"),
    ("C18-ok1", "C18", FG, "            group_name = str(zo_path)[1:]\n            file_group = file_group_map[group_name]", "            file_group = file_group_map[str(zo_path)[1:]]", "ok", None),
]


def apply_unified_diff(diff_text: str, read) -> dict[str, str]:
    """Apply a unified diff in memory (exact context, any offset). Raises ValueError when a hunk does not fit."""
    out: dict[str, str] = {}
    cur = None
    hunks: list[list[str]] = []
    files: list[tuple[str, list[list[str]]]] = []
    new_files: set[str] = set()
    prev_minus = ""
    for line in diff_text.splitlines():
        if line.startswith("--- "):
            prev_minus = line[4:].strip()
        if line.startswith("+++ "):
            path = line[4:].strip()
            path = path[2:] if path.startswith(("a/", "b/")) else path
            cur = path
            hunks = []
            files.append((cur, hunks))
            if prev_minus == "/dev/null":
                new_files.add(cur)
        elif line.startswith("@@") and cur is not None:
            hunks.append([])
        elif cur is not None and hunks and (line[:1] in (" ", "+", "-") or line == ""):
            if line.startswith(("--- ", "diff ")):
                continue
            hunks[-1].append(line if line else " ")
    for path, hs in files:
        if path in new_files:  # a file the change creates
            out[path] = "\n".join(l[1:] for h in hs for l in h if l[:1] == "+") + "\n"
            continue
        text = out.get(path) or read(path)
        lines = text.split("\n")
        for h in hs:
            old = [l[1:] for l in h if l[:1] in (" ", "-")]
            new = [l[1:] for l in h if l[:1] in (" ", "+")]
            while old and old[-1] == "" and new and new[-1] == "" and len(old) > 1 and False:
                old.pop(), new.pop()
            pos = None
            for i in range(0, len(lines) - len(old) + 1):
                if lines[i:i + len(old)] == old:
                    pos = i
                    break
            if pos is None:
                raise ValueError(f"hunk does not apply to {path}")
            lines[pos:pos + len(old)] = new
        out[path] = "\n".join(lines)
    return out


def run_seeded(args) -> dict:
    sid, pid, patch_path, root = args
    repo0 = Repo(Path(root))
    try:
        overlay = apply_unified_diff(Path(patch_path).read_text(), repo0.read)
    except Exception as e:
        return dict(id=sid, pid=pid, status="skipped", why=str(e))
    t0 = time.time()
    res = collect(pid, Repo(Path(root), overlay=overlay))
    rules = sorted({f["rule"] for f in res["new"]})
    return dict(id=sid, pid=pid, expect="bad", status="ok" if res["new"] else "FAILED", rules=rules, undecided=len(res["errors"]), wall=round(time.time() - t0, 2),
                first=(res["new"][0]["message"][:140] if res["new"] else (res["errors"][0][:140] if res["errors"] else "")))


def seeded_jobs(pids, root: str) -> list:
    base = Path(__file__).resolve().parent.parent / "seeded"
    jobs = []
    for d in sorted(base.glob("C*")):
        meta = d / "meta.json"
        if not meta.exists():
            continue
        m = json.loads(meta.read_text())
        for pid in sorted(m.get("detected_by", {m["breaks_property"]: {}})):
            if not pids or pid in pids:
                jobs.append((f"seeded/{d.name}@{pid}", pid, str(d / "patch.diff"), root))
    return jobs


def run_benign(args) -> dict:
    """A behaviour-preserving refactor (independent sub-agent, suite passes, differential-tested by its author): must stay silent."""
    sid, pid, patch_path, root = args
    repo0 = Repo(Path(root))
    try:
        overlay = apply_unified_diff(Path(patch_path).read_text(), repo0.read)
    except Exception as e:
        return dict(id=sid, pid=pid, status="skipped", why=str(e))
    t0 = time.time()
    res = collect(pid, Repo(Path(root), overlay=overlay))
    rules = sorted({f["rule"] for f in res["new"]})
    status = "FAILED" if res["new"] else ("UNDECIDED" if res["errors"] else "ok")
    return dict(id=sid, pid=pid, expect="ok", status=status, rules=rules, undecided=len(res["errors"]), wall=round(time.time() - t0, 2),
                first=(res["new"][0]["message"][:140] if res["new"] else (res["errors"][0][:140] if res["errors"] else "")))


def benign_jobs(pids, root: str) -> list:
    base = Path(__file__).resolve().parent.parent / "benign"
    jobs = []
    for d in sorted(base.glob("C*.diff")):
        for pid in (pids or [f"C{i:02d}" for i in range(1, 19)]):
            jobs.append((f"benign/{d.stem}@{pid}", pid, str(d), root))
    return jobs


def run_variant(args) -> dict:
    vid, pid, rel, old, new, expect, rule, root = args
    repo0 = Repo(Path(root))
    try:
        src = repo0.read(rel)
    except Exception as e:
        return dict(id=vid, pid=pid, status="skipped", why=str(e))
    if src.count(old) != 1:
        return dict(id=vid, pid=pid, status="skipped", why=f"anchor text occurs {src.count(old)} times")
    t0 = time.time()
    res = collect(pid, Repo(Path(root), overlay={rel: src.replace(old, new)}))
    rules = sorted({f["rule"] for f in res["new"]})
    if expect == "bad":
        ok = bool(res["new"]) and (rule is None or any(r.startswith(rule) for r in rules))
    else:
        ok = not res["new"]
    return dict(id=vid, pid=pid, expect=expect, status="ok" if ok else "FAILED", rules=rules, undecided=len(res["errors"]), wall=round(time.time() - t0, 2),
                first=(res["new"][0]["message"][:140] if res["new"] else (res["errors"][0][:140] if res["errors"] else "")))


def run(pids=None, jobs: int = 16, root: str = str(DEFAULT_REPO), benign: bool = False, only_benign: bool = False) -> list[dict]:
    todo = [v + (root,) for v in VARIANTS if not pids or v[1] in pids]
    sj = seeded_jobs(pids, root)
    bj = benign_jobs(pids, root) if (benign or only_benign) else []
    with ProcessPoolExecutor(max_workers=jobs) as ex:
        if only_benign:
            return list(ex.map(run_benign, bj))
        return list(ex.map(run_variant, todo)) + list(ex.map(run_seeded, sj)) + list(ex.map(run_benign, bj))


def main(argv=None) -> int:
    ap = argparse.ArgumentParser()
    ap.add_argument("pids", nargs="*")
    ap.add_argument("--jobs", type=int, default=16)
    ap.add_argument("--repo", default=str(DEFAULT_REPO))
    ap.add_argument("--json", default=None)
    ap.add_argument("--benign", action="store_true", help="also run the behaviour-preserving refactors under /verif/benign (must stay silent)")
    ap.add_argument("--only-benign", action="store_true")
    ap.add_argument("--quiet", action="store_true", help="print only the lines that are not ok")
    a = ap.parse_args(argv)
    res = run([p.upper() for p in a.pids] or None, a.jobs, a.repo, a.benign, a.only_benign)
    for r in res:
        if a.quiet and r["status"] == "ok":
            continue
        print(f"{r['id']:18} {r['status']:9} {r.get('expect', ''):4} rules={r.get('rules')} undecided={r.get('undecided')} {r.get('wall', '')}s  {r.get('first') or r.get('why', '')}")
    failed = [r for r in res if r["status"] == "FAILED"]
    print(f"variants={len(res)} ok={sum(r['status'] == 'ok' for r in res)} failed={len(failed)} undecided={sum(r['status'] == 'UNDECIDED' for r in res)} skipped={sum(r['status'] == 'skipped' for r in res)}")
    if a.json:
        Path(a.json).write_text(json.dumps(res, indent=1))
    return 1 if failed else 0


if __name__ == "__main__":
    sys.exit(main())
