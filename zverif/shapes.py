"""Engine S: string-shape domain.

The abstract value of a string expression is a sequence of pieces

    Const(text)                      a literal fragment
    Hole(source, transforms)         unknown text coming from ``source`` (a
                                     parameter, attribute chain or call), with
                                     the string transforms applied to it, in
                                     application order

built through f-strings, ``+``, ``%``-free ``.format``, ``.replace``, the
``strip`` family, ``lower/upper``, constant slices, conditional expressions
(alternatives) and single-assignment local variables / module constants.
A value is a *list of alternatives*, each a piece sequence.
"""

from __future__ import annotations

import ast
from dataclasses import dataclass
from typing import Optional, Union

from .pymodel import FuncInfo, PyModel, walk_no_nested


@dataclass(frozen=True)
class Const:
    text: str

    def __repr__(self) -> str:
        return f"Const({self.text!r})"


@dataclass(frozen=True)
class Hole:
    source: str
    transforms: tuple[str, ...] = ()

    def __repr__(self) -> str:
        t = "".join(f".{x}" for x in self.transforms)
        return f"Hole<{self.source}{t}>"


Piece = Union[Const, Hole]
Shape = tuple[Piece, ...]


def _merge(pieces: list[Piece]) -> Shape:
    out: list[Piece] = []
    for p in pieces:
        if isinstance(p, Const):
            if p.text == "":
                continue
            if out and isinstance(out[-1], Const):
                out[-1] = Const(out[-1].text + p.text)
                continue
        out.append(p)
    return tuple(out)


def render(shape: Shape) -> str:
    return "".join(p.text if isinstance(p, Const) else "{" + p.source + "".join("." + t for t in p.transforms) + "}" for p in shape)


class ShapeEval:
    def __init__(self, model: PyModel, fi: FuncInfo, max_alts: int = 16, inline_depth: int = 3):
        self.model = model
        self.fi = fi
        self.max_alts = max_alts
        self.inline_depth = inline_depth
        self._assigns: dict[str, list[tuple[int, ast.expr]]] = {}
        self._params = {a.arg for a in fi.params()}
        for node in walk_no_nested(fi.node):
            if isinstance(node, ast.Assign):
                for t in node.targets:
                    if isinstance(t, ast.Name):
                        self._assigns.setdefault(t.id, []).append((node.lineno, node.value))
            elif isinstance(node, ast.AnnAssign) and isinstance(node.target, ast.Name) and node.value is not None:
                self._assigns.setdefault(node.target.id, []).append((node.lineno, node.value))
            elif isinstance(node, ast.NamedExpr) and isinstance(node.target, ast.Name):
                self._assigns.setdefault(node.target.id, []).append((node.lineno, node.value))
            elif isinstance(node, ast.AugAssign) and isinstance(node.target, ast.Name):
                self._assigns.setdefault(node.target.id, []).append((node.lineno, ast.BinOp(left=ast.Name(id=node.target.id, ctx=ast.Load()), op=node.op, right=node.value)))
            elif isinstance(node, (ast.For, ast.comprehension)):
                for n in ast.walk(node.target):
                    if isinstance(n, ast.Name):
                        self._assigns.setdefault(n.id, []).append((getattr(node, "lineno", 0), None))  # type: ignore[arg-type]
        for v in self._assigns.values():
            v.sort(key=lambda t: t[0])
        self._stack: set[tuple[str, int]] = set()

    # ------------------------------------------------------------------
    def eval(self, expr: ast.expr, at_line: Optional[int] = None) -> list[Shape]:
        at_line = at_line if at_line is not None else getattr(expr, "lineno", 10**9)
        alts = self._eval(expr, at_line)
        uniq: list[Shape] = []
        for a in alts:
            m = _merge(list(a))
            if m not in uniq:
                uniq.append(m)
        return uniq[: self.max_alts]

    def _hole(self, expr: ast.expr) -> list[list[Piece]]:
        return [[Hole(ast.unparse(expr))]]

    def _eval(self, expr: ast.expr, line: int) -> list[list[Piece]]:
        if isinstance(expr, ast.Constant):
            if isinstance(expr.value, str):
                return [[Const(expr.value)]]
            return [[Const(str(expr.value))]] if isinstance(expr.value, (int,)) and not isinstance(expr.value, bool) else self._hole(expr)
        if isinstance(expr, ast.JoinedStr):
            alts: list[list[Piece]] = [[]]
            for v in expr.values:
                if isinstance(v, ast.Constant):
                    sub = [[Const(str(v.value))]]
                elif isinstance(v, ast.FormattedValue):
                    sub = self._eval(v.value, line)
                    if v.format_spec is not None or v.conversion not in (-1, 115):
                        spec = ast.unparse(v.format_spec) if v.format_spec is not None else f"!{chr(v.conversion)}"
                        sub = [self._transform(s, f"format({spec})") for s in sub]
                else:
                    sub = self._hole(v)
                alts = [a + s for a in alts for s in sub][: self.max_alts]
            return alts
        if isinstance(expr, ast.BinOp) and isinstance(expr.op, ast.Add):
            L, R = self._eval(expr.left, line), self._eval(expr.right, line)
            return [a + b for a in L for b in R][: self.max_alts]
        if isinstance(expr, ast.BinOp) and isinstance(expr.op, ast.Mult):
            # "x" * 3
            if isinstance(expr.left, ast.Constant) and isinstance(expr.left.value, str) and isinstance(expr.right, ast.Constant) and isinstance(expr.right.value, int):
                return [[Const(expr.left.value * expr.right.value)]]
            base = self._eval(expr.left, line)
            if isinstance(expr.right, ast.Constant) and isinstance(expr.right.value, int) and all(len(b) == 1 and isinstance(b[0], Const) for b in base):
                return [[Const(b[0].text * expr.right.value)] for b in base]  # type: ignore[union-attr]
            return self._hole(expr)
        if isinstance(expr, ast.IfExp):
            return (self._eval(expr.body, line) + self._eval(expr.orelse, line))[: self.max_alts]
        if isinstance(expr, ast.NamedExpr):
            return self._eval(expr.value, line)
        if isinstance(expr, ast.Name):
            return self._name(expr, line)
        if isinstance(expr, ast.Attribute):
            r = self.model.resolve_expr(self.fi.module, expr)
            if r:
                c = self._module_const(r)
                if c is not None:
                    return c
            return self._hole(expr)
        if isinstance(expr, ast.Subscript):
            base = self._eval(expr.value, line)
            sl = ast.unparse(expr.slice)
            out = []
            for b in base:
                if len(b) == 1 and isinstance(b[0], Const):
                    try:
                        out.append([Const(eval(f"s[{sl}]", {"__builtins__": {}}, {"s": b[0].text}))])  # constant slice of a literal
                        continue
                    except Exception:
                        pass
                out.append(self._transform(b, f"[{sl}]"))
            return out
        if isinstance(expr, ast.Call):
            return self._call(expr, line)
        return self._hole(expr)

    def _transform(self, pieces: list[Piece], t: str) -> list[Piece]:
        """Apply an opaque transform to a whole piece sequence."""
        if len(pieces) == 1 and isinstance(pieces[0], Hole):
            return [Hole(pieces[0].source, pieces[0].transforms + (t,))]
        if not pieces:
            return []
        return [Hole("(" + render(_merge(pieces)) + ")", (t,))]

    def _name(self, expr: ast.Name, line: int) -> list[list[Piece]]:
        name = expr.id
        if (name, line) in self._stack or len(self._stack) > 24:
            return self._hole(expr)
        cands = [(ln, v) for ln, v in self._assigns.get(name, []) if ln <= line]
        if name in self._params and not cands:
            return self._hole(expr)
        if not cands:
            r = self.model.resolve_name(self.fi.module, name)
            if r:
                c = self._module_const(r)
                if c is not None:
                    return c
            return self._hole(expr)
        if any(v is None for _, v in cands):
            return self._hole(expr)
        self._stack.add((name, line))
        try:
            # all assignments textually before the use are alternatives, unless
            # the last one is unconditional at function-body level
            last_ln, last_v = cands[-1]
            alts: list[list[Piece]] = []
            use = cands if len(cands) <= 4 else cands[-4:]
            if self._is_toplevel_assign(name, last_ln):
                use = [cands[-1]]
            for ln, v in use:
                alts += self._eval(v, ln - 1 if self._mentions(v, name) else ln)
            if name in self._params and not self._is_toplevel_assign(name, last_ln):
                alts += self._hole(expr)
            return alts[: self.max_alts]
        finally:
            self._stack.discard((name, line))

    def _mentions(self, v: ast.expr, name: str) -> bool:
        return any(isinstance(n, ast.Name) and n.id == name for n in ast.walk(v))

    def _is_toplevel_assign(self, name: str, lineno: int) -> bool:
        for st in self.fi.node.body:
            if getattr(st, "lineno", -1) == lineno and isinstance(st, (ast.Assign, ast.AnnAssign)):
                return True
        return False

    def _module_const(self, qual: str) -> Optional[list[list[Piece]]]:
        if "." not in qual:
            return None
        mod, nm = qual.rsplit(".", 1)
        mi = self.model.modules.get(mod)
        if mi is None or nm not in mi.assigns:
            return None
        v = mi.assigns[nm]
        if isinstance(v, ast.Constant) and isinstance(v.value, str):
            return [[Const(v.value)]]
        if isinstance(v, (ast.JoinedStr, ast.BinOp)):
            sub = ShapeEval(self.model, FuncInfo(f"{mod}.<module>", mi, ast.FunctionDef(name="<module>", args=ast.arguments(posonlyargs=[], args=[], kwonlyargs=[], kw_defaults=[], defaults=[]), body=[], decorator_list=[], lineno=0)))  # type: ignore[arg-type]
            return [list(s) for s in sub.eval(v)]
        return None

    def _call(self, expr: ast.Call, line: int) -> list[list[Piece]]:
        f = expr.func
        if isinstance(f, ast.Name) and f.id == "str" and len(expr.args) == 1:
            return self._eval(expr.args[0], line)
        if isinstance(f, ast.Attribute):
            meth = f.attr
            if meth == "join" and len(expr.args) == 1:
                sep = self._eval(f.value, line)
                return [self._transform(self._hole(expr.args[0])[0], f"joined({render(_merge(s))!r})") for s in sep]
            if meth in ("replace",) and len(expr.args) >= 2:
                base = self._eval(f.value, line)
                a = self._const_of(expr.args[0], line)
                b = self._const_of(expr.args[1], line)
                out = []
                for bs in base:
                    if a is not None and b is not None:
                        out.append([Const(p.text.replace(a, b)) if isinstance(p, Const) else Hole(p.source, p.transforms + (f"replace({a!r},{b!r})",)) for p in bs])
                    else:
                        ra = a if a is not None else "{" + ast.unparse(expr.args[0]) + "}"
                        rb = b if b is not None else "{" + ast.unparse(expr.args[1]) + "}"
                        out.append(self._transform(bs, f"replace({ra!r},{rb!r})"))
                return out
            if meth in ("strip", "lstrip", "rstrip", "lower", "upper", "removeprefix", "removesuffix", "format", "split", "title", "capitalize"):
                base = self._eval(f.value, line)
                args = ",".join(ast.unparse(a) for a in expr.args)
                out = []
                for bs in base:
                    if meth in ("lower", "upper") and all(isinstance(p, Const) for p in bs):
                        out.append([Const(getattr(p.text, meth)()) for p in bs])  # type: ignore[union-attr]
                    elif meth in ("lower", "upper"):
                        out.append([Const(getattr(p.text, meth)()) if isinstance(p, Const) else Hole(p.source, p.transforms + (meth + "()",)) for p in bs])
                    else:
                        out.append(self._transform(bs, f"{meth}({args})"))
                return out
        # zorg-internal helper returning a string: inline its single return
        tgt = self.model.callee(self.fi, expr)
        if tgt in self.model.funcs and self.inline_depth > 0:
            callee = self.model.funcs[tgt]
            rets = [n for n in walk_no_nested(callee.node) if isinstance(n, ast.Return) and n.value is not None]
            if len(rets) == 1 and len(callee.node.body) <= 12:
                sub = ShapeEval(self.model, callee, self.max_alts, self.inline_depth - 1)
                shapes = sub.eval(rets[0].value)
                # substitute parameter holes by actual argument shapes
                pnames = [a.arg for a in callee.params()]
                if pnames and pnames[0] in ("self", "cls"):
                    pnames = pnames[1:]
                amap: dict[str, list[list[Piece]]] = {}
                for i, a in enumerate(expr.args):
                    if i < len(pnames):
                        amap[pnames[i]] = self._eval(a, line)
                for k in expr.keywords:
                    if k.arg:
                        amap[k.arg] = self._eval(k.value, line)
                out: list[list[Piece]] = []
                for sh in shapes:
                    cur: list[list[Piece]] = [[]]
                    for p in sh:
                        if isinstance(p, Hole) and p.source in amap:
                            subs = []
                            for arg_alt in amap[p.source]:
                                x = list(arg_alt)
                                for t in p.transforms:
                                    x = self._apply_transform(x, t)
                                subs.append(x)
                            cur = [c + s for c in cur for s in subs][: self.max_alts]
                        else:
                            cur = [c + [p] for c in cur]
                    out += cur
                return out[: self.max_alts]
        return self._hole(expr)

    def _apply_transform(self, pieces: list[Piece], t: str) -> list[Piece]:
        if t.startswith("replace("):
            try:
                a, b = ast.literal_eval(t[len("replace"):])
                return [Const(p.text.replace(a, b)) if isinstance(p, Const) else Hole(p.source, p.transforms + (t,)) for p in pieces]
            except Exception:
                pass
        if t in ("lower()", "upper()"):
            return [Const(getattr(p.text, t[:-2])()) if isinstance(p, Const) else Hole(p.source, p.transforms + (t,)) for p in pieces]
        return self._transform(pieces, t)

    def _const_of(self, expr: ast.expr, line: int) -> Optional[str]:
        alts = self.eval(expr, line)
        if len(alts) == 1 and all(isinstance(p, Const) for p in alts[0]):
            return "".join(p.text for p in alts[0])  # type: ignore[union-attr]
        if len(alts) == 1 and len(alts[0]) == 0:
            return ""
        return None
