"""Item scenarios: generic one-line items driven through the listener (drive.py); what each compiled note must carry."""

from __future__ import annotations

from typing import Any

from .absint import Raised, State
from .absval import EnumV, Opaque
from .core import Run
from .drive import Driver, T, Tok, item_tree
from .pymodel import PyModel

FILE = "src/zorg/service/compiler/_file_compiler.py"
KINDS = {"-": None, "o": "OPEN_TODO", "x": "CLOSED_TODO", "~": "CANCELED_TODO", "<": "BLOCKED_TODO", ">": "PARENT_TODO"}


def _date(tag: str) -> Opaque:
    return Opaque("vdate", tag)


def compile_items(model: PyModel, tree0: Any, items: list) -> tuple:
    """-> (notes, raised, imprecise) for a page `# title` + one block with the given items."""
    D = Driver(model)
    st = State()
    root = D.new_listener(st, tree0)
    page = [T("head", kids=[T("comment", text="# title\n")]), T("block", kids=items)]
    raised = None
    for part in page:
        raised = D.walk(st, root, part)
        if raised is not None:
            break
    return D.notes, raised, list(st.imprecise)


def item_rules(run: Run, model: PyModel, tree0: Any, rid_kind: str, rid_ident: str, rid_alike: str) -> None:
    """rid_kind: kind / priority table; rid_ident: ZID, dates, body, line number; rid_alike: look-alike words and leaks between items."""
    specs = []  # (prefix, priority, body, expected fields)
    line = 3
    for pre, member in KINDS.items():
        specs.append((pre, None, f"kind{line} plain words", dict(status=member, priority=None)))
        if pre != "-":
            specs.append((pre, "P7", f"kind{line} with priority", dict(status=member, priority="P7")))
    specs += [
        ("-", None, "240101#00 zid first", dict(zid="240101#00", create=_date("20240101"), modify=_date("20240101"))),
        ("o", None, "240102 240101#01 modify date then zid", dict(zid="240101#01", create=_date("20240101"), modify=_date("20240102"))),
        ("-", None, "2024-03-05 long date first", dict(zid=None, create=_date("20240305"), modify=_date("20240305"))),
        ("x", "P2", "plain 240101#09 240102 2024-01-01 o x P5 words", dict(zid=None, create=_date("TODAY"), modify=_date("TODAY"), status="CLOSED_TODO", priority="P2")),
        ("-", None, "240230 240231#AB impossible dates are words", dict(zid=None, create=_date("TODAY"), modify=_date("TODAY"))),
        ("o", "P1", "", None),  # empty body: skipped, and must not leak its priority
        (">", None, "after the empty todo", dict(status="PARENT_TODO", priority=None)),
        ("-", None, "a note after todos", dict(status=None)),
    ]
    items = []
    expect = []
    for pre, prio, body, exp in specs:
        items.append(item_tree(pre, body, prio, line))
        if exp is not None:
            expect.append((line, pre, prio, body, exp))
        line += 1
    # multi-line items whose inner lines end in blanks and that hold a blank-only continuation line: the body is the item's text, every line as written
    def _find(t, rule):
        if isinstance(t, T):
            if t.rule == rule:
                return t
            for k in t.kids:
                r = _find(k, rule)
                if r is not None:
                    return r
        return None

    for pre, prio in (("-", None), ("o", "P4")):
        raw = " wrapped item whose lines end in blanks  \n  * the boiler   \n   \n  * the lease\t"
        it = item_tree(pre, "wrapped item whose lines end in blanks", prio, line)
        _find(it, "note_body").text = raw
        items.append(it)
        expect.append((line, pre, prio, raw.strip(), dict()))
        line += 1
    try:
        notes, raised, imprecise = compile_items(model, tree0, items)
    except Exception as e:
        run.undecided(rid_kind, "ZorgFileCompiler", f"cannot drive the listener over the item scenarios: {type(e).__name__}: {str(e)[:120]}")
        return
    if raised is not None:
        if raised.exc in ("ValueError", "IndexError", "KeyError", "TypeError", "AttributeError"):
            run.refuted("C08.R1" if rid_kind.startswith("C08") else rid_ident, "ZorgFileCompiler", f"compiling the item scenarios raises {raised.exc}",
                        f"compiling a syntactically valid page of generic items (every kind, ZID / modify date / long date first words, impossible dates such as 240230 and 240231#AB, an empty todo) "
                        f"raises {raised.exc}: a valid page crashes the compiler", file=FILE)
        else:
            run.undecided(rid_kind, "ZorgFileCompiler", f"the item scenarios stop with {raised.exc}")
        return
    if imprecise:
        run.undecided(rid_kind, "ZorgFileCompiler", "item scenarios: " + "; ".join(imprecise[:2]))
        return
    by_line = {n.get("line_no"): n for n in notes}
    run.check(rid_ident, "one note per non-empty item, in file order, with its own line number", [n.get("line_no") for n in notes] == [e[0] for e in expect], "ZorgFileCompiler",
              f"lines {[n.get('line_no') for n in notes]}", f"the items on lines {[e[0] for e in expect]} compile to notes on lines {[n.get('line_no') for n in notes]} (an empty-bodied todo is the only item skipped)", file=FILE)
    default_prio = None
    for ln, pre, prio, body, exp in expect:
        n = by_line.get(ln)
        if n is None:
            continue
        tp = n.get("todo_payload")
        st_got = tp.get("status").member if isinstance(tp, dict) and isinstance(tp.get("status"), EnumV) else None
        pr_got = tp.get("priority") if isinstance(tp, dict) else None
        if "status" in exp:
            run.check(rid_kind, f"`{pre}` item is a {exp['status'] or 'plain note'}", st_got == exp["status"] and (tp is None) == (exp["status"] is None), "ZorgFileCompiler", f"line {ln} `{pre}` -> {st_got}",
                      f"the item `{pre}{' ' + prio if prio else ''} {body}` compiles to kind {st_got or 'plain note'}, expected {exp['status'] or 'plain note'}", file=FILE)
        if exp.get("status") and "priority" in exp:
            if exp["priority"] is None:
                default_prio = default_prio or pr_got
                ok = isinstance(pr_got, str) and pr_got == default_prio and pr_got[:1] == "P"
                run.check(rid_alike if "after the empty" in body else rid_kind, f"`{pre}` todo without Pn gets the default priority", ok, "ZorgFileCompiler", f"line {ln}: priority {pr_got!r} (default {default_prio!r})",
                          f"the todo `{pre} {body}` has no explicit priority but compiles to {pr_got!r} while other such todos get {default_prio!r}: a priority leaks in from an earlier item "
                          "(e.g. an empty-bodied `o P1 ` todo right before it)", file=FILE)
            else:
                run.check(rid_kind, f"`{pre} {exp['priority']}` keeps its explicit priority", pr_got == exp["priority"], "ZorgFileCompiler", f"line {ln}: priority {pr_got!r}",
                          f"the todo `{pre} {prio} {body}` compiles to priority {pr_got!r}", file=FILE)
        run.check(rid_ident, f"line {ln}: the body is the item's text", n.get("body") == body, "ZorgFileCompiler", f"line {ln}: body {n.get('body')!r}", f"the item `{body}` compiles to the body {n.get('body')!r}", file=FILE)
        if "zid" in exp:
            cd, md = n.get("create_date"), n.get("modify_date")
            ok = n.get("zid") == exp["zid"] and cd == exp["create"] and md == exp["modify"]
            what = f"zid={n.get('zid')!r} create={getattr(cd, 'tag', cd)!r} modify={getattr(md, 'tag', md)!r}"
            run.check(rid_alike if exp["zid"] is None and exp["create"].tag == "TODAY" else rid_ident, f"line {ln}: ZID / create date / modify date are those written in the item (`{body[:32]}`)", ok, "ZorgFileCompiler", f"line {ln}: {what}",
                      f"the item `{body}` compiles to {what}; expected zid={exp['zid']!r} create={exp['create'].tag!r} modify={exp['modify'].tag!r} "
                      "(only the first word -- or the second after a YYMMDD modify date -- can be the ZID / a date; words that merely look like them further on are text)", file=FILE)
    run.floor("item scenarios compiled", len(notes), 17)
