"""Small shared helpers for the property rules."""

from __future__ import annotations

import ast
from typing import Any, Iterable, Iterator, Optional

from .pymodel import walk_no_nested

MUTATORS = {
    "append", "extend", "insert", "add", "update", "pop", "remove", "discard", "clear",
    "setdefault", "popitem", "sort", "reverse", "__setitem__", "appendleft",
}


def int_eval(expr: ast.expr, env: dict[str, int]) -> Optional[int]:
    """Evaluate an integer expression made of literals, env names, + - * // and unary -."""
    if isinstance(expr, ast.Constant) and isinstance(expr.value, int) and not isinstance(expr.value, bool):
        return expr.value
    if isinstance(expr, ast.Name) and expr.id in env:
        return env[expr.id]
    if isinstance(expr, ast.UnaryOp) and isinstance(expr.op, (ast.USub, ast.UAdd)):
        v = int_eval(expr.operand, env)
        return None if v is None else (-v if isinstance(expr.op, ast.USub) else v)
    if isinstance(expr, ast.BinOp):
        l, r = int_eval(expr.left, env), int_eval(expr.right, env)
        if l is None or r is None:
            return None
        if isinstance(expr.op, ast.Add):
            return l + r
        if isinstance(expr.op, ast.Sub):
            return l - r
        if isinstance(expr.op, ast.Mult):
            return l * r
        if isinstance(expr.op, ast.FloorDiv) and r:
            return l // r
    return None


def base_name(expr: ast.AST) -> Optional[str]:
    """Root variable of an attribute/subscript/call chain (x.a[0].b() -> x)."""
    while isinstance(expr, (ast.Attribute, ast.Subscript, ast.Call)):
        expr = expr.func if isinstance(expr, ast.Call) else expr.value
    return expr.id if isinstance(expr, ast.Name) else None


def names_loaded(node: ast.AST) -> set[str]:
    return {n.id for n in ast.walk(node) if isinstance(n, ast.Name) and isinstance(n.ctx, ast.Load)}


def names_stored(node: ast.AST) -> set[str]:
    out = set()
    for n in ast.walk(node):
        if isinstance(n, ast.Name) and isinstance(n.ctx, (ast.Store, ast.Del)):
            out.add(n.id)
    return out


def mutated_names(node: ast.AST) -> dict[str, list[ast.AST]]:
    """Names whose object is mutated in ``node`` (method mutators, item/attr stores, augassign)."""
    out: dict[str, list[ast.AST]] = {}
    for n in ast.walk(node):
        if isinstance(n, ast.Call) and isinstance(n.func, ast.Attribute) and n.func.attr in MUTATORS:
            b = base_name(n.func.value)
            if b:
                out.setdefault(b, []).append(n)
        elif isinstance(n, (ast.Subscript, ast.Attribute)) and isinstance(n.ctx, (ast.Store, ast.Del)):
            b = base_name(n.value)
            if b:
                out.setdefault(b, []).append(n)
        elif isinstance(n, ast.AugAssign):
            b = base_name(n.target)
            if b:
                out.setdefault(b, []).append(n)
    return out


def find_calls(node: ast.AST, name: str) -> list[ast.Call]:
    out = []
    for n in ast.walk(node):
        if isinstance(n, ast.Call):
            f = n.func
            if (isinstance(f, ast.Attribute) and f.attr == name) or (isinstance(f, ast.Name) and f.id == name):
                out.append(n)
    return out


def kwarg(call: ast.Call, name: str) -> Optional[ast.expr]:
    for k in call.keywords:
        if k.arg == name:
            return k.value
    return None


def const_str(expr: Optional[ast.expr]) -> Optional[str]:
    if isinstance(expr, ast.Constant) and isinstance(expr.value, str):
        return expr.value
    return None


def returns_of(fn: ast.FunctionDef) -> list[ast.Return]:
    return [n for n in walk_no_nested(fn) if isinstance(n, ast.Return)]


def parent_map(root: ast.AST) -> dict[ast.AST, ast.AST]:
    pm = {}
    for p in ast.walk(root):
        for c in ast.iter_child_nodes(p):
            pm[c] = p
    return pm


def enclosing(node: ast.AST, pm: dict, kinds) -> Optional[ast.AST]:
    cur = pm.get(node)
    while cur is not None:
        if isinstance(cur, kinds):
            return cur
        cur = pm.get(cur)
    return None


def if_chain(stmt: ast.If) -> list[tuple[Optional[ast.expr], list[ast.stmt]]]:
    """Flatten if/elif/else into [(test, body), ..., (None, else_body)]."""
    out: list[tuple[Optional[ast.expr], list[ast.stmt]]] = []
    cur: Any = stmt
    while True:
        out.append((cur.test, cur.body))
        if len(cur.orelse) == 1 and isinstance(cur.orelse[0], ast.If):
            cur = cur.orelse[0]
            continue
        if cur.orelse:
            out.append((None, cur.orelse))
        break
    return out


def clock_calls(node: ast.AST) -> list[tuple[ast.Call, str]]:
    """Calls that read the current date/time, classified local / utc / other."""
    out = []
    for n in ast.walk(node):
        if not isinstance(n, ast.Call):
            continue
        txt = ast.unparse(n.func)
        tail = txt.split(".")[-1]
        if tail in ("today", "now", "utcnow", "utctoday") and ("date" in txt or "dt" in txt.split(".")[0] or "time" in txt):
            if tail == "utcnow":
                out.append((n, "utc"))
            elif tail == "now" and (n.args or n.keywords):
                out.append((n, "tz-arg"))
            else:
                out.append((n, "local"))
    return out


def affix_strip_misuse(node: ast.AST) -> list[ast.Call]:
    """``x.rstrip(".zo")`` / ``x.lstrip("prop:")``: strip() takes a character SET.

    A multi-character argument that contains a letter or digit is a suffix /
    prefix the author meant to remove exactly; strip removes any run of those
    characters instead.  Punctuation sets such as "(),.?!;:" are genuine sets.
    """
    out = []
    for n in ast.walk(node):
        if isinstance(n, ast.Call) and isinstance(n.func, ast.Attribute) and n.func.attr in ("strip", "lstrip", "rstrip") and len(n.args) == 1:
            a = n.args[0]
            if isinstance(a, ast.Constant) and isinstance(a.value, str) and len(a.value) >= 2 and any(c.isalnum() for c in a.value):
                out.append(n)
    return out


def split_join_mismatch(node: ast.AST) -> list[tuple[ast.Call, str]]:
    """``SEP.join(x.split(OTHER)...)`` with OTHER != SEP (or a bare ``split()``) re-flows text.
    Names assigned exactly once from a ``split`` call are looked through."""
    out = []
    split_defs: dict[str, list[ast.Call]] = {}
    for a in ast.walk(node):
        if isinstance(a, ast.Assign) and len(a.targets) == 1 and isinstance(a.targets[0], ast.Name) and isinstance(a.value, ast.Call) \
                and isinstance(a.value.func, ast.Attribute) and a.value.func.attr in ("split", "splitlines"):
            split_defs.setdefault(a.targets[0].id, []).append(a.value)
    for n in ast.walk(node):
        if isinstance(n, ast.Call) and isinstance(n.func, ast.Attribute) and n.func.attr == "join" and isinstance(n.func.value, ast.Constant) and n.args:
            sep = n.func.value.value
            cands = list(ast.walk(n.args[0]))
            for nm in [x for x in cands if isinstance(x, ast.Name)]:
                if len(split_defs.get(nm.id, [])) == 1:
                    cands.append(split_defs[nm.id][0])
            for s in cands:
                if isinstance(s, ast.Call) and isinstance(s.func, ast.Attribute) and s.func.attr == "split":
                    if not s.args:
                        out.append((n, f"{sep!r}.join(... .split()) collapses every run of whitespace (including newlines)"))
                    elif isinstance(s.args[0], ast.Constant) and s.args[0].value != sep:
                        out.append((n, f"{sep!r}.join(... .split({s.args[0].value!r}))"))
                elif isinstance(s, ast.Call) and isinstance(s.func, ast.Attribute) and s.func.attr == "splitlines":
                    out.append((n, f"{sep!r}.join(... .splitlines()) splits on more than '\\n'"))
    return out


def ambiguous_year_formats(node: ast.AST) -> list[ast.Constant]:
    """strptime/strftime formats containing %y: two-digit years 69-99 are read as 19xx."""
    return [c for c in ast.walk(node) if isinstance(c, ast.Constant) and isinstance(c.value, str) and "%y" in c.value]


def filtering_constructs(fn: ast.AST) -> list[ast.AST]:
    """Constructs by which a function that should hand on a whole collection could drop elements:
    comprehension conditions, filter()/takewhile()/islice()-like calls, slices, loops that skip or stop, conditional yields."""
    out: list[ast.AST] = []
    for n in ast.walk(fn):
        if isinstance(n, ast.comprehension) and n.ifs:
            out.append(n.ifs[0])
        elif isinstance(n, ast.Call) and ast.unparse(n.func).split(".")[-1] in ("filter", "filterfalse", "takewhile", "dropwhile", "islice", "compress"):
            out.append(n)
        elif isinstance(n, (ast.For, ast.While)):
            for x in ast.walk(n):
                if isinstance(x, (ast.Continue, ast.Break)):
                    out.append(x)
                elif isinstance(x, ast.If) and any(isinstance(y, (ast.Yield, ast.YieldFrom)) or (isinstance(y, ast.Call) and isinstance(y.func, ast.Attribute) and y.func.attr in ("append", "add", "extend")) for y in ast.walk(x)):
                    out.append(x.test)
        elif isinstance(n, ast.Subscript) and isinstance(n.slice, ast.Slice) and isinstance(n.ctx, ast.Load):
            out.append(n)
    return out


def regex_tests(fi) -> list:
    """Regex tests in a function: [(call node, pattern text, method)] for `re.match(p, v)` and `COMPILED.match(v)` where
    COMPILED is a module-level (or local) `re.compile(<constant>)`."""
    out = []
    mod = fi.module
    local = {}
    for n in ast.walk(fi.node):
        if isinstance(n, ast.Assign) and len(n.targets) == 1 and isinstance(n.targets[0], ast.Name):
            local[n.targets[0].id] = n.value

    def const_of(e):
        if isinstance(e, ast.Constant) and isinstance(e.value, str):
            return e.value
        if isinstance(e, ast.Name):
            v = local.get(e.id) or mod.assigns.get(e.id)
            if v is not None and v is not e:
                return const_of(v)
        return None

    for n in ast.walk(fi.node):
        if not (isinstance(n, ast.Call) and isinstance(n.func, ast.Attribute) and n.func.attr in ("match", "fullmatch", "search")):
            continue
        base = n.func.value
        if ast.unparse(base) == "re" and n.args:
            p = const_of(n.args[0])
            if p is not None:
                out.append((n, p, n.func.attr))
        elif isinstance(base, ast.Name):
            v = local.get(base.id) or mod.assigns.get(base.id)
            if isinstance(v, ast.Call) and ast.unparse(v.func) in ("re.compile", "compile") and v.args:
                p = const_of(v.args[0])
                if p is not None:
                    out.append((n, p, n.func.attr))
    return out
