"""Flattened view of a function: calls to zorg's own helpers are inlined where that can be done structurally.

Why: the per-property rules speak about constructs on the paths of an *operation* ("every path of the move
passes through X before Y", "the text written is lines[:s] + new + lines[e:]").  Whether the operation is one
function or an entry point plus extracted private helpers is a maintainer's choice that changes no behaviour,
so the rules are run on the operation with its helpers folded back in.

What is inlined (everything else is left as the call it was, so a rule sees *less*, never something wrong):

* expression form -- the helper's body is a single ``return <expr>``: the call is replaced by ``<expr>`` with the
  parameters substituted (only if every argument is side-effect free to duplicate: names, attributes, constants,
  subscripts of those; otherwise the parameter is bound with an assignment in front of the statement);
* statement form -- ``x = helper(..)``, ``x: T = helper(..)``, ``helper(..)``, ``return helper(..)``,
  ``x += helper(..)``: the helper's statements are spliced in with its locals renamed; every ``return e`` that is in
  tail position becomes ``x = e`` (or ``e`` / ``return e``); a ``for`` loop that returns from its body followed by a
  final ``return`` becomes ``for .. : .. x = e; break`` with the final value in the loop's ``else``;
* ``for v in helper(..)`` where helper is a generator whose ``yield`` statements are not nested in inner loops of a
  different kind is left alone (the abstract interpreter materialises generators itself).

Recursion and mutual recursion are never unfolded; depth is bounded.
"""

from __future__ import annotations

import ast
import copy
from typing import Optional

from .pymodel import FuncInfo, PyModel, walk_no_nested

MAX_DEPTH = 4
_counter = [0]


def _simple(e: ast.expr) -> bool:
    if isinstance(e, (ast.Name, ast.Constant)):
        return True
    if isinstance(e, ast.Attribute):
        return _simple(e.value)
    if isinstance(e, ast.Subscript):
        return _simple(e.value) and (isinstance(e.slice, ast.Constant) or _simple(e.slice))
    if isinstance(e, ast.Tuple):
        return all(_simple(x) for x in e.elts)
    return False


def _body_wo_doc(fn: ast.FunctionDef) -> list[ast.stmt]:
    b = list(fn.body)
    if b and isinstance(b[0], ast.Expr) and isinstance(b[0].value, ast.Constant) and isinstance(b[0].value.value, str):
        b = b[1:]
    return b


def _stored_names(fn: ast.FunctionDef) -> set[str]:
    out = set()
    for n in walk_no_nested(fn):
        if isinstance(n, ast.Name) and isinstance(n.ctx, (ast.Store, ast.Del)):
            out.add(n.id)
        elif isinstance(n, (ast.Global, ast.Nonlocal)):
            out.update(n.names)
    return out


def _bind(fn: ast.FunctionDef, call: ast.Call, self_expr: Optional[ast.expr]) -> Optional[dict[str, ast.expr]]:
    a = fn.args
    if a.vararg or a.kwarg:
        return None
    names = [x.arg for x in a.posonlyargs + a.args]
    pos = list(call.args)
    if any(isinstance(x, ast.Starred) for x in pos) or any(k.arg is None for k in call.keywords):
        return None
    if self_expr is not None:
        pos = [self_expr] + pos
    if len(pos) > len(names):
        return None
    env: dict[str, ast.expr] = dict(zip(names, pos))
    kwonly = [x.arg for x in a.kwonlyargs]
    for k in call.keywords:
        if k.arg in env or (k.arg not in names and k.arg not in kwonly):
            return None
        env[k.arg] = k.value
    defaults = list(a.defaults)
    for n, d in zip(names[len(names) - len(defaults):], defaults):
        env.setdefault(n, d)
    for n, d in zip(kwonly, a.kw_defaults):
        if d is not None:
            env.setdefault(n, d)
    if any(n not in env for n in names + kwonly):
        return None
    return env


class _Subst(ast.NodeTransformer):
    def __init__(self, env: dict[str, ast.expr], rename: dict[str, str]):
        self.env, self.rename = env, rename

    def visit_Name(self, node: ast.Name):
        if node.id in self.env and isinstance(node.ctx, ast.Load):
            return ast.copy_location(copy.deepcopy(self.env[node.id]), node)
        if node.id in self.rename:
            return ast.copy_location(ast.Name(id=self.rename[node.id], ctx=node.ctx), node)
        return node

    def visit_Lambda(self, node):  # shadowing is rare in zorg; be conservative
        return node

    def visit_FunctionDef(self, node):
        return node


def _tail_returns_only(stmts: list[ast.stmt]) -> bool:
    """Every Return in `stmts` is in tail position of the block."""
    for i, s in enumerate(stmts):
        last = i == len(stmts) - 1
        if isinstance(s, ast.Return):
            if not last:
                return False
            continue
        has_ret = any(isinstance(n, ast.Return) for n in walk_no_nested(s)) if not isinstance(s, ast.Return) else True
        if not has_ret:
            continue
        if not last:
            # `if c: return x` followed by more statements: early return -> not tail
            return False
        if isinstance(s, ast.If):
            if not (_tail_returns_only(s.body) and _tail_returns_only(s.orelse)):
                return False
        elif isinstance(s, ast.With):
            if not _tail_returns_only(s.body):
                return False
        elif isinstance(s, ast.Try):
            blocks = [s.body, s.orelse, s.finalbody] + [h.body for h in s.handlers]
            if not all(_tail_returns_only(b) for b in blocks if b):
                return False
        else:
            return False
    return True


def _normalise_early_returns(stmts: list[ast.stmt]) -> list[ast.stmt]:
    """`if c: ...; return a` + rest  ==>  `if c: ...; return a` `else: rest` (guard clauses into tail form)."""
    out: list[ast.stmt] = []
    for i, s in enumerate(stmts):
        if isinstance(s, ast.If) and not s.orelse and s.body and _ends(s.body) and i < len(stmts) - 1:
            rest = _normalise_early_returns(stmts[i + 1:])
            new = ast.copy_location(ast.If(test=s.test, body=_normalise_early_returns(s.body), orelse=rest), s)
            out.append(new)
            return out
        if isinstance(s, ast.If):
            s = ast.copy_location(ast.If(test=s.test, body=_normalise_early_returns(s.body), orelse=_normalise_early_returns(s.orelse)), s)
        out.append(s)
    return out


def _ends(block: list[ast.stmt]) -> bool:
    """The block cannot fall through (ends in return / raise on every path)."""
    if not block:
        return False
    s = block[-1]
    if isinstance(s, (ast.Return, ast.Raise)):
        return True
    if isinstance(s, ast.If):
        return bool(s.orelse) and _ends(s.body) and _ends(s.orelse)
    return False


def _replace_returns(stmts: list[ast.stmt], mk) -> list[ast.stmt]:
    out = []
    for s in stmts:
        if isinstance(s, ast.Return):
            out.extend(mk(s))
        elif isinstance(s, ast.If):
            out.append(ast.copy_location(ast.If(test=s.test, body=_replace_returns(s.body, mk) or [ast.Pass()], orelse=_replace_returns(s.orelse, mk)), s))
        elif isinstance(s, ast.With):
            out.append(ast.copy_location(ast.With(items=s.items, body=_replace_returns(s.body, mk) or [ast.Pass()]), s))
        elif isinstance(s, ast.Try):
            out.append(ast.copy_location(ast.Try(body=_replace_returns(s.body, mk) or [ast.Pass()],
                                                 handlers=[ast.copy_location(ast.ExceptHandler(type=h.type, name=h.name, body=_replace_returns(h.body, mk) or [ast.Pass()]), h) for h in s.handlers],
                                                 orelse=_replace_returns(s.orelse, mk), finalbody=_replace_returns(s.finalbody, mk)), s))
        else:
            out.append(s)
    return out


def _loop_return_form(stmts: list[ast.stmt]) -> Optional[tuple[list[ast.stmt], ast.stmt, ast.Return]]:
    """[prefix..., loop-with-returns-in-body, `return e`]  (returns in the loop are not inside nested loops)."""
    if len(stmts) < 2 or not isinstance(stmts[-1], ast.Return) or not isinstance(stmts[-2], (ast.For, ast.While)):
        return None
    loop = stmts[-2]
    if loop.orelse:
        return None
    if any(isinstance(n, ast.Return) for s in stmts[:-2] for n in walk_no_nested(s)):
        return None

    def ok(block, in_inner):
        for s in block:
            if isinstance(s, (ast.For, ast.While)):
                if any(isinstance(n, ast.Return) for n in walk_no_nested(s)):
                    return False
            elif isinstance(s, ast.If):
                if not (ok(s.body, in_inner) and ok(s.orelse, in_inner)):
                    return False
            elif isinstance(s, (ast.With, ast.Try)):
                if any(isinstance(n, ast.Return) for n in walk_no_nested(s)):
                    return False
        return True

    if not ok(loop.body, False) or not any(isinstance(n, ast.Return) for n in walk_no_nested(loop)):
        return None
    return stmts[:-2], loop, stmts[-1]


def _let_form(body: list[ast.stmt]) -> Optional[list[ast.stmt]]:
    """[x = e1; y = e2; return f(x, y)]  ->  [return f(e1, e2)]  (straight-line single-assignment locals only)."""
    if not body or not isinstance(body[-1], ast.Return) or body[-1].value is None:
        return None
    env: dict[str, ast.expr] = {}
    for s in body[:-1]:
        if isinstance(s, ast.AnnAssign) and isinstance(s.target, ast.Name) and s.value is not None:
            tgt, val = s.target.id, s.value
        elif isinstance(s, ast.Assign) and len(s.targets) == 1 and isinstance(s.targets[0], ast.Name):
            tgt, val = s.targets[0].id, s.value
        else:
            return None
        if tgt in env:
            return None
        env[tgt] = _Subst(env, {}).visit(copy.deepcopy(val))
    if len(body) == 1:
        return body
    ret = _Subst(env, {}).visit(copy.deepcopy(body[-1].value))
    return [ast.copy_location(ast.Return(value=ret), body[-1])]


def _split_tuple_assign(s: ast.stmt) -> list[ast.stmt]:
    """`a, b = (x, y)` -> `a = x; b = y` when no target name occurs on the right-hand side; `a = b = e` -> `a = e; b = a` for simple e."""
    if isinstance(s, ast.Assign) and len(s.targets) == 1 and isinstance(s.targets[0], ast.Tuple) and isinstance(s.value, ast.Tuple) and len(s.targets[0].elts) == len(s.value.elts) \
            and all(isinstance(t, ast.Name) for t in s.targets[0].elts):
        tn = {t.id for t in s.targets[0].elts}
        rn = {n.id for n in ast.walk(s.value) if isinstance(n, ast.Name)}
        if not (tn & rn):
            return [ast.copy_location(ast.Assign(targets=[t], value=v), s) for t, v in zip(s.targets[0].elts, s.value.elts)]
    if isinstance(s, ast.Assign) and len(s.targets) > 1 and all(isinstance(t, ast.Name) for t in s.targets):
        first = s.targets[0]
        out = [ast.copy_location(ast.Assign(targets=[first], value=s.value), s)]
        for t in s.targets[1:]:
            out.append(ast.copy_location(ast.Assign(targets=[t], value=ast.Name(id=first.id, ctx=ast.Load())), s))
        return out
    return [s]


def _split_all(node: ast.AST) -> None:
    for n in ast.walk(node):
        for fld in ("body", "orelse", "finalbody"):
            blk = getattr(n, fld, None)
            if isinstance(blk, list) and blk and isinstance(blk[0], ast.stmt):
                new: list[ast.stmt] = []
                for st in blk:
                    new.extend(_split_tuple_assign(st))
                setattr(n, fld, new)


class Flattener:
    def __init__(self, model: PyModel, depth: int = MAX_DEPTH, allow=None, expr_only: bool = False):
        self.model = model
        self.depth = depth
        self.allow = allow  # optional predicate on callee qualname
        self.expr_only = expr_only
        self.cache: dict[str, ast.FunctionDef] = {}
        self.inlined: dict[str, set[str]] = {}

    # ------------------------------------------------------------------
    def flat(self, qual: str, _stack: tuple = ()) -> ast.FunctionDef:
        fi = self.model.func(qual)
        if qual in self.cache and not _stack:
            return self.cache[qual]
        fn = copy.deepcopy(fi.node)
        for n in ast.walk(fn):
            if isinstance(n, ast.Call):
                n._zv_q = fi.qualname  # type: ignore[attr-defined]
        used: set[str] = set()
        fn.body = self._block(fi, fn.body, _stack + (qual,), used)
        if not _stack:
            _split_all(fn)
        ast.fix_missing_locations(fn)
        if not _stack:
            self.cache[qual] = fn
            self.inlined[qual] = used
        fn._zv_inlined = used  # type: ignore[attr-defined]
        return fn

    # ------------------------------------------------------------------
    def _callee(self, fi: FuncInfo, call: ast.Call, stack: tuple) -> Optional[tuple[FuncInfo, Optional[ast.expr]]]:
        ctx = self.model.funcs.get(getattr(call, "_zv_q", ""), fi)
        try:
            q = self.model.callee(ctx, call)
        except Exception:
            return None
        if q is None or q not in self.model.funcs or q in stack or len(stack) > self.depth:
            return None
        if self.allow is not None and not self.allow(q):
            return None
        ci = self.model.funcs[q]
        if ci.node.decorator_list and any("property" not in ast.unparse(d) and "staticmethod" not in ast.unparse(d) for d in ci.node.decorator_list):
            return None
        if any(isinstance(n, (ast.Yield, ast.YieldFrom, ast.Await)) for n in walk_no_nested(ci.node)):
            return None
        if isinstance(ci.node, ast.AsyncFunctionDef):
            return None
        self_expr = None
        if ci.cls is not None and not any("staticmethod" in ast.unparse(d) for d in ci.node.decorator_list):
            if isinstance(call.func, ast.Attribute):
                self_expr = call.func.value
                # Cls.method(obj, ...) keeps obj as first positional
                if isinstance(self_expr, ast.Name) and self.model.resolve_name(ctx.module, self_expr.id) in self.model.classes:
                    self_expr = None
            else:
                return None
        return ci, self_expr

    def _expr_inline(self, fi: FuncInfo, e: ast.expr, stack: tuple, used: set, pre: list[ast.stmt]) -> ast.expr:
        """Replace calls to single-`return expr` helpers inside an expression."""
        outer = self

        class T(ast.NodeTransformer):
            def visit_Lambda(self, node):
                return node

            def visit_Call(self, node: ast.Call):
                self.generic_visit(node)
                r = outer._callee(fi, node, stack)
                if r is None:
                    return node
                ci, self_expr = r
                body = _let_form(_body_wo_doc(outer.flat(ci.qualname, stack)))
                if body is None:
                    return node
                env = _bind(ci.node, node, self_expr)
                if env is None:
                    return node
                stored = {n.id for n in ast.walk(body[0].value) if isinstance(n, ast.Name) and isinstance(n.ctx, ast.Store)}
                if stored & set(env):
                    return node
                # count uses: an argument that is not simple may be substituted only if used at most once
                uses: dict[str, int] = {}
                for n in ast.walk(body[0].value):
                    if isinstance(n, ast.Name) and n.id in env:
                        uses[n.id] = uses.get(n.id, 0) + 1
                for k, v in list(env.items()):
                    if not _simple(v) and uses.get(k, 0) > 1:
                        _counter[0] += 1
                        tmp = f"{k}__a{_counter[0]}"
                        pre.append(ast.copy_location(ast.Assign(targets=[ast.Name(id=tmp, ctx=ast.Store())], value=v), node))
                        env[k] = ast.Name(id=tmp, ctx=ast.Load())
                if any(isinstance(n, (ast.ListComp, ast.SetComp, ast.GeneratorExp, ast.DictComp, ast.Lambda)) and any(isinstance(m, ast.Name) and m.id in env and isinstance(m.ctx, ast.Store) for m in ast.walk(n)) for n in ast.walk(body[0].value)):
                    return node
                new = _Subst(env, {}).visit(copy.deepcopy(body[0].value))
                used.add(ci.qualname)
                return ast.copy_location(new, node)

        return T().visit(e)

    def _block(self, fi: FuncInfo, stmts: list[ast.stmt], stack: tuple, used: set) -> list[ast.stmt]:
        out: list[ast.stmt] = []
        for s in stmts:
            for t in self._stmt(fi, s, stack, used):
                out.extend(_split_tuple_assign(t))
        return out

    def _stmt(self, fi: FuncInfo, s: ast.stmt, stack: tuple, used: set) -> list[ast.stmt]:
        # compound statements: recurse into blocks, expression-inline tests
        pre: list[ast.stmt] = []
        if isinstance(s, (ast.FunctionDef, ast.AsyncFunctionDef, ast.ClassDef)):
            return [s]
        if isinstance(s, ast.If):
            s.test = self._expr_inline(fi, s.test, stack, used, pre)
            s.body = self._block(fi, s.body, stack, used)
            s.orelse = self._block(fi, s.orelse, stack, used)
            return pre + [s]
        if isinstance(s, (ast.For, ast.While)):
            if isinstance(s, ast.For):
                s.iter = self._expr_inline(fi, s.iter, stack, used, pre)
            else:
                s.test = self._expr_inline(fi, s.test, stack, used, [])
            s.body = self._block(fi, s.body, stack, used)
            s.orelse = self._block(fi, s.orelse, stack, used)
            return pre + [s]
        if isinstance(s, ast.With):
            for it in s.items:
                it.context_expr = self._expr_inline(fi, it.context_expr, stack, used, pre)
            s.body = self._block(fi, s.body, stack, used)
            return pre + [s]
        if isinstance(s, ast.Try):
            s.body = self._block(fi, s.body, stack, used)
            for h in s.handlers:
                h.body = self._block(fi, h.body, stack, used)
            s.orelse = self._block(fi, s.orelse, stack, used)
            s.finalbody = self._block(fi, s.finalbody, stack, used)
            return [s]
        if isinstance(s, ast.Match):
            for c in s.cases:
                c.body = self._block(fi, c.body, stack, used)
            return [s]
        # simple statements: statement-form inlining when the value IS a call
        call = None
        if isinstance(s, (ast.Assign, ast.AnnAssign, ast.AugAssign, ast.Expr, ast.Return)) and isinstance(getattr(s, "value", None), ast.Call):
            call = s.value
        if call is not None and not self.expr_only:
            r = self._callee(fi, call, stack)
            if r is not None:
                res = self._inline_stmt(fi, s, call, r[0], r[1], stack, used)
                if res is not None:
                    return res
        # otherwise expression-level
        for fld in ("value", "test", "exc", "msg"):
            v = getattr(s, fld, None)
            if isinstance(v, ast.expr):
                setattr(s, fld, self._expr_inline(fi, v, stack, used, pre))
        return pre + [s]

    def _inline_stmt(self, fi: FuncInfo, s: ast.stmt, call: ast.Call, ci: FuncInfo, self_expr, stack: tuple, used: set) -> Optional[list[ast.stmt]]:
        callee = self.flat(ci.qualname, stack)
        body = _body_wo_doc(callee)
        if not body:
            return None
        # arguments may contain helper calls themselves
        pre: list[ast.stmt] = []
        call.args = [self._expr_inline(fi, a, stack, used, pre) for a in call.args]
        for k in call.keywords:
            k.value = self._expr_inline(fi, k.value, stack, used, pre)
        env = _bind(ci.node, call, self_expr)
        if env is None:
            return None
        _counter[0] += 1
        tag = f"__i{_counter[0]}"
        stored = _stored_names(ci.node)
        rename = {n: f"{n}{tag}" for n in stored}
        binds: list[ast.stmt] = []
        for p, a in list(env.items()):
            if p in stored or not _simple(a):
                nm = f"{p}{tag}"
                binds.append(ast.copy_location(ast.Assign(targets=[ast.Name(id=nm, ctx=ast.Store())], value=a), call))
                rename[p] = nm
                del env[p]
        body = [_Subst(env, rename).visit(copy.deepcopy(b)) for b in body]
        body = _normalise_early_returns(body)

        # how a `return e` of the helper is rendered at this call site
        def mk(ret: ast.Return) -> list[ast.stmt]:
            val = ret.value if ret.value is not None else ast.Constant(value=None)
            if isinstance(s, ast.Return):
                return [ast.copy_location(ast.Return(value=val), ret)]
            if isinstance(s, ast.Expr):
                return [ast.copy_location(ast.Expr(value=val), ret)] if any(isinstance(n, ast.Call) for n in ast.walk(val)) else []
            if isinstance(s, ast.Assign):
                return [ast.copy_location(ast.Assign(targets=copy.deepcopy(s.targets), value=val), ret)]
            if isinstance(s, ast.AnnAssign):
                return [ast.copy_location(ast.Assign(targets=[copy.deepcopy(s.target)], value=val), ret)]
            if isinstance(s, ast.AugAssign):
                return [ast.copy_location(ast.AugAssign(target=copy.deepcopy(s.target), op=s.op, value=val), ret)]
            return [ret]

        if _tail_returns_only(body):
            new = _replace_returns(body, mk)
            if not _ends(body) and not isinstance(s, (ast.Expr,)):
                # the helper can fall off its end: implicit `return None`
                new = (new + mk(ast.Return(value=None))) if not isinstance(s, ast.Return) else (new + [ast.copy_location(ast.Return(value=None), s)])
        else:
            lr = _loop_return_form(body)
            if lr is None:
                return None
            prefix, loop, last = lr

            def mk_break(ret: ast.Return) -> list[ast.stmt]:
                if isinstance(s, ast.Return):
                    return [ast.copy_location(ast.Return(value=ret.value), ret)]
                return mk(ret) + [ast.copy_location(ast.Break(), ret)]

            loop2 = copy.copy(loop)
            loop2.body = _replace_returns(loop.body, mk_break) or [ast.Pass()]
            loop2.orelse = mk(last)
            new = list(prefix) + [loop2]
        used.add(ci.qualname)
        return pre + binds + new


def flatten(model: PyModel, qual: str, depth: int = MAX_DEPTH, scope: str = "near", exclude: tuple = (), expr_only: bool = False) -> ast.FunctionDef:
    """scope: "near" = helpers of the root's own module and private (underscore) helpers anywhere; "all" = every zorg function.
    exclude: qualnames never inlined.  expr_only: only single-`return <expr>` helpers (predicates, formatters) are folded in."""
    qual = qual if qual.startswith("zorg.") else f"zorg.{qual}"
    cache = model.__dict__.setdefault("_flat_cache", {})
    key = (qual, depth, scope, tuple(exclude), expr_only)
    if key in cache:
        return cache[key]
    root_mod = model.func(qual).module

    def allow(q: str) -> bool:
        ci = model.funcs[q]
        return q not in exclude and (scope == "all" or ci.module is root_mod or ci.name.startswith("_"))

    fn = Flattener(model, depth, allow, expr_only).flat(qual)
    cache[key] = fn
    return fn


def flat_info(model: PyModel, qual: str, **kw) -> FuncInfo:
    """A FuncInfo whose node is the flattened view (same qualname / module / class)."""
    fi = model.func(qual)
    return FuncInfo(qualname=fi.qualname, module=fi.module, node=flatten(model, qual, **kw), cls=fi.cls)
