"""Symbolic evaluation of the SQL-building helpers (engine A with Term values)."""

from __future__ import annotations

import ast
from typing import Any, Optional

from .absint import Interp, Raised, State
from .absval import ClassV, EnumV, FuncV, HObj, Opaque, Term, Text, new_text
from .pymodel import PyModel

QC = "zorg.storage.sql._query_converter"
AF = f"{QC}._AndFilterToSqlWhere"
OPN = {ast.Eq: "==", ast.NotEq: "!=", ast.Lt: "<", ast.LtE: "<=", ast.Gt: ">", ast.GtE: ">="}
FIELDS = ("allowed_note_types", "areas", "contexts", "create_date_ranges", "desc_filters", "file_filters", "link_filters",
          "modify_date_ranges", "or_filters", "people", "property_filters", "priorities", "projects")


def make_interp(model: PyModel, notes_in_file=None) -> Interp:
    def classattr(I, v, name, st):
        if v.qualname.startswith("zorg.storage.sql._models."):
            return [(Term("col", (v.qualname.split(".")[-1], name)), st)]
        return None

    def call_any(I, fv, args, kwargs, st, node):
        if fv.cls.startswith("ext:"):
            kw = tuple(sorted((k, I.B.freeze_term(I, x, st)) for k, x in kwargs.items()))
            return [(Term(fv.cls[4:].split(".")[-1], tuple(I.B.freeze_term(I, a, st) for a in args) + ((("kw",) + kw,) if kw else ())), st)]
        return None

    def meth_any(I, recv, name, args, kwargs, st, node):
        if recv.cls.startswith("ext:"):
            return [(Term(recv.cls[4:].split(".")[-1] + "." + name, tuple(I.B.freeze_term(I, a, st) for a in args)), st)]
        if recv.cls == "session":
            return [(Opaque("session." + name + "()"), st)]
        if recv.cls == "session.exec()" and name == "all":
            row = (Opaque("row.id"), new_text({"ROW"}, "body"))
            return [(st.alloc(HObj("list", items=[row])), st)]
        return None

    def cmp(I, op, l, r, st):
        return Term(OPN.get(type(op), type(op).__name__), (I.B.freeze_term(I, l, st), I.B.freeze_term(I, r, st)))

    def from_date_spec(I, args, kwargs, st, node):
        return [(Term("from_date_spec", (I.B.freeze_term(I, args[0], st),)), st)]

    probes = {"classattr": classattr, "call:*": call_any, "method:*": meth_any, "compare": cmp,
              "zorg.shared.dates.from_date_spec": from_date_spec}
    if notes_in_file is not None:
        probes[f"{QC}._get_notes_in_file"] = notes_in_file
    I = Interp(model, probes=probes, max_states=5000)
    # a registry filled by decorators (metaman.register_function_factory) is a library effect: seed every such list with its decorated functions;
    # a registry written out as a literal (tuple / list of methods) is evaluated like any other constant
    import ast as _ast

    qmod = model.module_of(QC)
    for key, helpers in model.table_members().items():
        name = key[len(QC) + 1:] if key.startswith(QC + ".") else None
        init = qmod.assigns.get(name) if name else None
        if helpers and isinstance(init, _ast.List) and not init.elts:  # `REGISTRY: list[...] = []`, filled by a decorator
            I._const_cache[key] = tuple(FuncV(q) for q in helpers)
    return I


def and_filter(st: State, **fields: Any) -> Any:
    base = {}
    for f in FIELDS:
        v = fields.get(f, [])
        items = v(st) if callable(v) else list(v)
        base[f] = st.alloc(HObj("list" if f == "or_filters" else "set", items=items))
    return st.alloc(HObj("obj", cls="zorg.domain.models._query.WhereAndFilter", fields=base))


def converter(st: State, af: Any) -> Any:
    return st.alloc(HObj("obj", cls=AF, fields=dict(and_filter=af, session=Opaque("session"))))


def run_helper(I: Interp, helper: str, **fields: Any) -> list[tuple[Any, State]]:
    st = State()
    self_ = converter(st, and_filter(st, **fields))
    return I.run_function(f"{AF}.{helper}", [self_], st=st)


def obj(st: State, cls: str, **fields: Any) -> Any:
    return st.alloc(HObj("obj", cls=cls, fields=fields))


# ------------------------------------------------------------- term utilities
def norm(t: Any) -> Any:
    """Drop Text identities, flatten nested and_/or_, unwrap single-argument connectives."""
    if isinstance(t, Term):
        if t.head == "text":
            return Term("text", (t.args[0], t.args[1]))
        args = tuple(norm(a) for a in t.args)
        if t.head in ("and_", "or_"):
            flat: list = []
            for a in args:
                if isinstance(a, Term) and a.head == t.head:
                    flat.extend(a.args)
                else:
                    flat.append(a)
            if len(flat) == 1:
                return flat[0]
            return Term(t.head, tuple(sorted(flat, key=repr)))
        return Term(t.head, args)
    if isinstance(t, tuple):
        return tuple(norm(a) for a in t)
    return t


def subterms(t: Any):
    yield t
    if isinstance(t, Term):
        for a in t.args:
            yield from subterms(a)
    elif isinstance(t, tuple):
        for a in t:
            yield from subterms(a)


def heads(t: Any) -> list[str]:
    return [x.head for x in subterms(t) if isinstance(x, Term)]


def find(t: Any, head: str) -> list[Term]:
    return [x for x in subterms(t) if isinstance(x, Term) and x.head == head]


def connective_args(t: Any, head: str) -> Optional[list]:
    """Arguments of a top-level connective; a bare atom counts as a connective of one."""
    if isinstance(t, Term) and t.head == head:
        return list(t.args)
    if isinstance(t, Term) and t.head in ("and_", "or_"):
        return None
    return [t]
